/-
  Props/C16 — "The task state reported after a transition is the device's real state".

  Every theorem is about ALL scripts (lists of outcomes of any length over
  {done, refused, errorState, reqLost, replyLost, errorNoState}), all seven O² events, all five source states,
  and both device flavours (`strict` = the device rejects a request that names a source state it is
  not in with a gRPC error, as the repository's own OCC plugin and OCC library do).
  Proof method: the transitioner is an interaction tree; `runs` enumerates the COMPLETE table of
  behaviours of a cell (6 outcomes at every request actually issued), `run_mem_runs`
  (Proofs/FairMQ) shows that the run of any script is in that table, and the predicate is decided on
  the whole table by kernel evaluation — the whole table, not a sample.

  Tie to /repo: the state-name maps are tabulated by `vh gen` from the linked transitioner on every
  run (`Gen.fromDeviceStateFMQ` …) and identified with the model's maps by the `…_is_code` theorems;
  `commitFMQ codeCfg` / `commitDirect` / `Dev.step` are tied by the exhaustive correspondence run; the branch
  of `Commit` for the two events fairmq.go does not implement is, in addition, evaluated by `vh gen` on
  its whole domain (`Gen.unimplementedFMQ`) and identified with the model by `C16_unimplemented_is_code`.

  What the faithful model does NOT satisfy is kept visible as `C16_…_full` and refuted on a witness
  (`C16_finding_…`): see notes/C16.md.
-/
import ControlModel.Gen.FairMQMaps
import ControlModel.Proofs.FairMQ

open FairMQ

/-! ## the maps the code computes -/

/-- The model's FairMQ state names are the constants of fairmq/states.go. -/
theorem C16_state_names_are_code : FState.all.map FState.name = Gen.fmqStateNames := by decide

/-- The model's FairMQ event names are the constants of fairmq/transitions.go. -/
theorem C16_event_names_are_code : FEvent.all.map FEvent.name = Gen.fmqEventNames := by decide

/-- `o2Of` IS `(*FairMQ).FromDeviceState` (all nine device states; `""` for the four intermediate
    ones), and `""` — what a transport error yields — is mapped to `""`. -/
theorem C16_fromDeviceState_is_code :
    (∀ s : FState, lookup Gen.fromDeviceStateFMQ s.name = some (nameOrEmpty (o2Of s))) ∧
    lookup Gen.fromDeviceStateFMQ "" = some "" := by
  refine ⟨fun s => ?_, by decide⟩
  cases s <;> decide

/-- `fmqOf` IS the state name the FairMQ transitioner puts on the wire for an O² state. -/
theorem C16_toDeviceState_is_code (s : O2State) :
    lookup Gen.toDeviceStateFMQ s.name = some (fmqOf s).name := by
  cases s <;> decide

/-- The DIRECT transitioner's maps are the identity. -/
theorem C16_direct_maps_are_code (s : O2State) :
    lookup Gen.fromDeviceStateDirect s.name = some s.name ∧ lookup Gen.toDeviceStateDirect s.name = some s.name := by
  cases s <;> decide

/-- Cross-check of the trusted device graphs with the repository's OCC sources: whenever the model
    device performs an event it lands in the state `EXPECTED_FINAL_STATE` (occ/plugin/OccFMQCommon.h,
    occ/occlib/OccServer.h) names for that event. (WHICH events a FairMQ device accepts in which
    state stays trusted.) -/
theorem C16_device_targets_match_occ :
    (∀ s e d, fmqNext s e = some d → lookup Gen.occFmqExpectedFinal e.name = some d.name) ∧
    (∀ s e d, directNext s e = some d → lookup Gen.occDirectExpectedFinal e.name = some d.name) := by
  constructor
  · intro s e d h
    cases s <;> cases e <;> simp [fmqNext] at h <;> subst h <;> decide
  · intro s e d h
    cases s <;> cases e <;> simp [directNext] at h <;> subst h <;> decide

/-- The branch of `(*FairMQ).Commit` for GO_ERROR and RECOVER, evaluated by `vh gen` on the linked code for
    every source state (what is reported, which kind of error, how many requests reached the device), IS what
    the model of the code as it is does: the source state, the error "transition not implemented", no
    request. (On a tree without the `fix:` commit the table says `nil` and this theorem fails.) -/
theorem C16_unimplemented_is_code :
    Gen.unimplementedFMQ =
      [O2Event.GO_ERROR, O2Event.RECOVER].flatMap fun e => O2State.all.map fun s =>
        let r := runFMQ codeCfg false e s []
        (e.name, s.name, nameOrEmpty r.reported, r.err.name, r.steps.length) := by
  decide

/-! ## what holds of the code — as it is (`codeCfg`, after the `fix:` commits "FairMQ transitioner stops
     after a roll-back and sends END from the state the reset reached" and "FairMQ transitioner reports
     GO_ERROR and RECOVER as not implemented instead of as done") and as it was (`legacyCfg`,
     `originalCfg`): the theorems of this section are proved for every `cfg` -/

/-- IMAGE. Whenever the last request the transitioner issued was answered (or it issued none), the state
    `Commit` reports is exactly `FromDeviceState` of the state the device is really in — whatever
    happened to the earlier requests (refused, error state, lost), for every event, source and script,
    lenient or strict device. -/
theorem C16_image_partial (cfg : Cfg) (strict : Bool) (evt : O2Event) (src : O2State) (script : List Outcome)
    (h : lastReceived strict (runFMQ cfg strict evt src script) = true) :
    imageOk o2Of (runFMQ cfg strict evt src script) = true := by
  have := all_runsFMQ cfg strict evt src (fun r => !lastReceived strict r || imageOk o2Of r)
    (by rcases cfg with ⟨_ | _, _ | _⟩ <;> cases strict <;> cases evt <;> cases src <;> decide) script
  simpa [h] using this

/-- IMAGE, DIRECT control mode. -/
theorem C16_image_direct_partial (strict : Bool) (evt : O2Event) (src : O2State) (script : List Outcome)
    (h : lastReceived strict (runDirect strict evt src script) = true) :
    imageOk some (runDirect strict evt src script) = true := by
  have := all_runsDirect strict evt src (fun r => !lastReceived strict r || imageOk some r)
    (by cases strict <;> cases evt <;> cases src <;> decide) script
  simpa [h] using this

/-- SUCCESS. For the five events fairmq.go implements, `err = nil` is returned only with the device in the
    image of the destination — for every script, including those with lost messages. -/
theorem C16_success_partial (cfg : Cfg) (strict : Bool) (evt : O2Event) (src : O2State) (script : List Outcome)
    (h : implemented evt = true) :
    successOk fmqOf (dstOf evt) (runFMQ cfg strict evt src script) = true := by
  have := all_runsFMQ cfg strict evt src (fun r => !implemented evt || successOk fmqOf (dstOf evt) r)
    (by rcases cfg with ⟨_ | _, _ | _⟩ <;> cases strict <;> cases evt <;> cases src <;> decide) script
  simpa [h] using this

/-- SUCCESS, DIRECT control mode: unconditionally. -/
theorem C16_success_direct (strict : Bool) (evt : O2Event) (src : O2State) (script : List Outcome) :
    successOk id (dstOf evt) (runDirect strict evt src script) = true :=
  all_runsDirect strict evt src (fun r => successOk id (dstOf evt) r)
    (by cases strict <;> cases evt <;> cases src <;> decide) script

/-- ROLLBACK. Whenever the last request was answered, the device is not left in an intermediate state
    it would have let the transitioner leave: if CONFIGURE / RESET / EXIT end with the device in a state
    without O² name from which its graph accepts RESET DEVICE (resp. INIT TASK), that roll-back was
    requested in that very state and the device did not perform it. -/
theorem C16_rollback_partial (cfg : Cfg) (strict : Bool) (evt : O2Event) (src : O2State) (script : List Outcome)
    (h : lastReceived strict (runFMQ cfg strict evt src script) = true) :
    rollbackOk fmqDev o2Of (rollbackEvt evt) (runFMQ cfg strict evt src script) = true := by
  have := all_runsFMQ cfg strict evt src
    (fun r => !lastReceived strict r || rollbackOk fmqDev o2Of (rollbackEvt evt) r)
    (by rcases cfg with ⟨_ | _, _ | _⟩ <;> cases strict <;> cases evt <;> cases src <;> decide) script
  simpa [h] using this

/-- ROLLBACK, positive form. With a device that performs or refuses requests (no ERROR, no lost message)
    and performs every roll-back request, CONFIGURE from STANDBY and RESET from CONFIGURED end either at the
    destination with `err = nil` or back in the SOURCE state with an error. The only other endings:
    EXIT from CONFIGURED (= RESET, then END) can also end in IDLE after the completed reset, and a CONFIGURE
    whose COMPLETE INIT is refused stays in INITIALIZING DEVICE, from which the device graph offers no
    roll-back (and none is attempted). -/
theorem C16_rollback_reaches_source (cfg : Cfg) (strict : Bool) (evt : O2Event) (src : O2State) (script : List Outcome)
    (hcell : (evt = .CONFIGURE ∧ src = .STANDBY) ∨ ((evt = .RESET ∨ evt = .EXIT) ∧ src = .CONFIGURED))
    (hcalm : calm (runFMQ cfg strict evt src script) = true)
    (hrb : acceptsRollback (rollbackEvt evt) (runFMQ cfg strict evt src script) = true) :
    let r := runFMQ cfg strict evt src script
    (r.final = fmqOf (dstOf evt) ∧ r.err = .nil) ∨ (r.final = fmqOf src ∧ r.err ≠ .nil) ∨
      (evt = .EXIT ∧ r.final = .IDLE ∧ r.err ≠ .nil) ∨
      (evt = .CONFIGURE ∧ r.final = .INITIALIZING_DEVICE ∧ r.err ≠ .nil) := by
  have key := all_runsFMQ cfg strict evt src
    (fun r => !(calm r && acceptsRollback (rollbackEvt evt) r) ||
      (decide (r.final = fmqOf (dstOf evt) ∧ r.err = .nil) || (decide (r.final = fmqOf src ∧ r.err ≠ .nil) ||
        (decide (evt = .EXIT ∧ r.final = .IDLE ∧ r.err ≠ .nil) ||
          decide (evt = .CONFIGURE ∧ r.final = .INITIALIZING_DEVICE ∧ r.err ≠ .nil)))))
    (by
      rcases hcell with ⟨rfl, rfl⟩ | ⟨rfl | rfl, rfl⟩ <;> rcases cfg with ⟨_ | _, _ | _⟩ <;> cases strict <;> decide) script
  simpa [hcalm, hrb] using key

/-- ALL THREE CLAUSES, FAIRMQ: for an implemented event, if no request was lost and none was answered
    "state mismatch", the call satisfies the full Spec. These are exactly the classes the driver
    reports as `hyp` (`lost_reply`, `stale_src_request`, `unimplemented_event`). -/
theorem C16_spec_partial (cfg : Cfg) (strict : Bool) (evt : O2Event) (src : O2State) (script : List Outcome)
    (himpl : implemented evt = true)
    (hstale : noStale strict (runFMQ cfg strict evt src script) = true)
    (hloss : noLoss strict (runFMQ cfg strict evt src script) = true) :
    specFMQ evt (runFMQ cfg strict evt src script) = true := by
  have := all_runsFMQ cfg strict evt src
    (fun r => !(implemented evt && noStale strict r && noLoss strict r) || specFMQ evt r)
    (by rcases cfg with ⟨_ | _, _ | _⟩ <;> cases strict <;> cases evt <;> cases src <;> decide) script
  simpa [himpl, hstale, hloss] using this

/-- ALL CLAUSES, DIRECT: a single verbatim request never names a stale source; if it was not lost the
    Spec holds. -/
theorem C16_spec_direct_partial (strict : Bool) (evt : O2Event) (src : O2State) (script : List Outcome) :
    noStale strict (runDirect strict evt src script) = true ∧
    (noLoss strict (runDirect strict evt src script) = true → specDirect evt (runDirect strict evt src script) = true) := by
  have := all_runsDirect strict evt src
    (fun r => noStale strict r && (!noLoss strict r || specDirect evt r))
    (by cases strict <;> cases evt <;> cases src <;> decide) script
  simp only [Bool.and_eq_true, Bool.or_eq_true, Bool.not_eq_true'] at this
  refine ⟨this.1, fun h => ?_⟩
  rcases this.2 with h' | h'
  · rw [h] at h'; cases h'
  · exact h'

/-- A lenient device (one that does not look at `SrcState`) never produces the `stale_src_request`
    class: with it the only excluded classes are lost replies and the two unimplemented events. -/
theorem C16_lenient_never_stale (cfg : Cfg) (evt : O2Event) (src : O2State) (script : List Outcome) :
    noStale false (runFMQ cfg false evt src script) = true :=
  all_runsFMQ cfg false evt src (fun r => noStale false r)
    (by rcases cfg with ⟨_ | _, _ | _⟩ <;> cases evt <;> cases src <;> decide) script

/-- The acceptance rule of client.go doTransition, for every reply shape: the model's `accept` reports no
    error exactly when ok ∧ trigger = EXECUTOR ∧ same event ∧ state = destination. -/
theorem C16_accept_rule (ok trigExecutor sameEvent stateIsDst : Bool) :
    ruleOk ok trigExecutor sameEvent stateIsDst true (accept ok trigExecutor sameEvent stateIsDst) = true := by
  cases ok <;> cases trigExecutor <;> cases sameEvent <;> cases stateIsDst <;> decide

/-! ## the control transport (protobuf | JSON) -/

/-- TRANSPORT IRRELEVANT. What `doTransition` sees of a device reply is the reply, on both transports: the JSON
    document leaves out the zero-valued fields, and decoding it into the FRESH reply object that
    `nopb.occClient.Transition` allocates for the call restores exactly them. So the state reported for a step
    depends on THIS step's reply only. (Tie: the exhaustive correspondence run drives every cell × script
    through the protobuf client and through the JSON client with the real codec.) -/
theorem C16_transport_irrelevant {σ ε : Type} (t : Transport) (m : Msg σ ε) : t.deliver m = m := by
  cases t
  · rfl
  · rcases m with ⟨st, ok, trig, evt⟩
    cases st <;> cases evt <;> cases ok <;> by_cases h : trig = 0 <;>
      simp [Transport.deliver, jsonDecodeInto, jsonDoc, Msg.zero, h]

/-- …and `Dev.step`, the model's request/reply step that every theorem above is about, IS client.go's acceptance
    rule applied to what the transport delivers of the device's message (or the transport error when there is
    none) — for every device, flavour, request, outcome and transport. -/
theorem C16_step_is_delivered_reply {σ ε : Type} [DecidableEq σ] [DecidableEq ε] (D : Dev σ ε) (t : Transport)
    (strict : Bool) (dev : σ) (a : Ask σ ε) (o : Outcome) :
    (D.step strict dev a o).2 =
      match D.msg strict dev a o with
      | some m => replyOf a (t.deliver m)
      | none => ⟨none, .transport⟩ := by
  simp only [C16_transport_irrelevant]
  unfold Dev.step Dev.msg
  split
  · rfl
  · cases o <;> simp [replyOf, accept]
    all_goals (split <;> simp)

/-- A reply that arrives WITHOUT a state (`errorNoState`: the device fell into ERROR and could not say so) is
    never turned into a state or into success: if it answers the last request, `Commit` reports `""` together
    with an error — for every cell, script and flavour. (`""` is then not the image of ERROR: the class is
    excluded by `noLoss` / `lastReceived` like a lost reply, and reported as `lost_reply`.) -/
theorem C16_stateless_reply_explicit_error (strict : Bool) (evt : O2Event) (src : O2State) (script : List Outcome) :
    let r := runFMQ codeCfg strict evt src script
    (r.steps.getLast?.map (fun s => s.srcOk strict && decide (s.out = .errorNoState))) = some true →
      r.reported = none ∧ r.err ≠ .nil := by
  intro r h
  have := all_runsFMQ codeCfg strict evt src
    (fun r => !((r.steps.getLast?.map (fun s => s.srcOk strict && decide (s.out = .errorNoState))) == some true) ||
      (decide (r.reported = none) && decide (r.err ≠ .nil)))
    (by cases strict <;> cases evt <;> cases src <;> decide) script
  simpa [r, h] using this

/-- The same, DIRECT control mode. -/
theorem C16_stateless_reply_explicit_error_direct (strict : Bool) (evt : O2Event) (src : O2State) (script : List Outcome) :
    let r := runDirect strict evt src script
    (r.steps.getLast?.map (fun s => s.srcOk strict && decide (s.out = .errorNoState))) = some true →
      r.reported = none ∧ r.err ≠ .nil := by
  intro r h
  have := all_runsDirect strict evt src
    (fun r => !((r.steps.getLast?.map (fun s => s.srcOk strict && decide (s.out = .errorNoState))) == some true) ||
      (decide (r.reported = none) && decide (r.err ≠ .nil)))
    (by cases strict <;> cases evt <;> cases src <;> decide) script
  simpa [r, h] using this

/-! ## what does NOT hold (full-strength statements and their refutations) -/

/-- FULL image clause, as the property text has it — over every script, lost messages included. FALSE. -/
def C16_image_full (cfg : Cfg) : Prop :=
  ∀ (strict : Bool) (evt : O2Event) (src : O2State) (script : List Outcome),
    imageOk o2Of (runFMQ cfg strict evt src script) = true

/-- FULL roll-back clause over every script. FALSE. -/
def C16_rollback_full (cfg : Cfg) : Prop :=
  ∀ (strict : Bool) (evt : O2Event) (src : O2State) (script : List Outcome),
    rollbackOk fmqDev o2Of (rollbackEvt evt) (runFMQ cfg strict evt src script) = true

/-- Finding `lost_reply`: when the reply to the last request is lost `Commit` reports `""`, which is no
    state's image, while the device is in a named state (START from CONFIGURED, reply lost: the device is
    RUNNING, `""` is reported); and a lost reply in the middle of CONFIGURE leaves the device in an
    intermediate state (BOUND) that RESET DEVICE would have left, without trying. -/
theorem C16_finding_lost_reply : ¬ C16_image_full codeCfg ∧ ¬ C16_rollback_full codeCfg := by
  constructor
  · intro h
    have := h false .START .CONFIGURED [.replyLost]
    revert this; decide
  · intro h
    have := h false .CONFIGURE .STANDBY [.done, .done, .replyLost]
    revert this; decide

/-- FULL image clause restricted to scripts WITHOUT any transport error. Still FALSE against a strict
    device. -/
def C16_image_noloss_full (cfg : Cfg) : Prop :=
  ∀ (strict : Bool) (evt : O2Event) (src : O2State) (script : List Outcome),
    noLoss strict (runFMQ cfg strict evt src script) = true →
    imageOk o2Of (runFMQ cfg strict evt src script) = true

/-- Finding `stale_src_request`: the transitioner itself sends requests that name a source state the
    device cannot be in — END after the implicit reset of EXIT-from-CONFIGURED still says READY, and
    doConfigure goes on with CONNECT / INIT TASK after a successful roll-back to IDLE. A device that checks
    `SrcState` (the repository's OCC plugin and OCC library do) answers with a gRPC error, so `""` is
    reported although the device is in IDLE = STANDBY and no message was lost. Witness: EXIT from
    CONFIGURED against a device that performs every request. -/
theorem C16_finding_stale_src_request : ¬ C16_image_noloss_full originalCfg := by
  intro h
  have := h true .EXIT .CONFIGURED [.done, .done, .done] (by decide)
  revert this; decide

/-- FULL success clause over all seven events, every script, both device flavours. FALSE for the code as it
    was (`C16_finding_unimplemented_event`), TRUE for the code as it is (`C16_success_code`). -/
def C16_success_full (cfg : Cfg) : Prop :=
  ∀ (strict : Bool) (evt : O2Event) (src : O2State) (script : List Outcome),
    successOk fmqOf (dstOf evt) (runFMQ cfg strict evt src script) = true

/-- Finding `unimplemented_event` (REPAIRED in /repo; this is the statement about the code as it was):
    GO_ERROR and RECOVER are "not implemented yet" in fairmq.go, yet `Commit` returned `err = nil` (and the
    source state) without asking the device anything: success was reported with the device not at the
    destination (GO_ERROR from RUNNING: device RUNNING, dst ERROR). -/
theorem C16_finding_unimplemented_event : ¬ C16_success_full legacyCfg := by
  intro h
  have := h false .GO_ERROR .RUNNING []
  revert this; decide

/-! ## the repairs (`fix:` commits in /repo) -/

/-- FIRST repair (`stopsAfterRollback`: return after a roll-back; END after the implicit reset names IDLE):
    no request ever names a stale source — against a strict device too — and the full Spec holds for every
    implemented event whenever no message is lost: `stale_src_request` disappears. -/
theorem C16_fix_sufficient (u strict : Bool) (evt : O2Event) (src : O2State) (script : List Outcome) :
    noStale strict (runFMQ ⟨true, u⟩ strict evt src script) = true ∧
    (implemented evt = true → noLoss strict (runFMQ ⟨true, u⟩ strict evt src script) = true →
      specFMQ evt (runFMQ ⟨true, u⟩ strict evt src script) = true) := by
  have := all_runsFMQ ⟨true, u⟩ strict evt src
    (fun r => noStale strict r && (!(implemented evt && noLoss strict r) || specFMQ evt r))
    (by cases u <;> cases strict <;> cases evt <;> cases src <;> decide) script
  simp only [Bool.and_eq_true, Bool.or_eq_true, Bool.not_eq_true'] at this
  refine ⟨this.1, fun hi hl => ?_⟩
  rcases this.2 with h' | h'
  · rw [hi, hl] at h'; cases h'
  · exact h'

/-- SECOND repair (`refusesUnimplemented`) changes NOTHING but the answer to GO_ERROR and RECOVER: for the five
    events fairmq.go implements the transitioner is the same program with and without it. -/
theorem C16_second_repair_touches_only_unimplemented (f : Bool) (evt : O2Event) (src dst : O2State)
    (h : implemented evt = true) : commitFMQ ⟨f, true⟩ evt src dst = commitFMQ ⟨f, false⟩ evt src dst := by
  cases evt <;> first | rfl | cases h

/-- What the code as it is answers to the two events it does not implement — for every source state, every
    script, both device flavours: it asks the device NOTHING (the device stays where it was), reports the
    source state, and says so with an explicit error; so all three clauses of the Spec hold of these calls. -/
theorem C16_unimplemented_refused_code (strict : Bool) (evt : O2Event) (src : O2State) (script : List Outcome)
    (h : implemented evt = false) :
    runFMQ codeCfg strict evt src script = ⟨some src, .unimplemented, [], fmqOf src⟩ ∧
    specFMQ evt (runFMQ codeCfg strict evt src script) = true := by
  have run_eq : runFMQ codeCfg strict evt src script = ⟨some src, .unimplemented, [], fmqOf src⟩ := by
    cases evt <;> first | rfl | cases h
  rw [run_eq]
  exact ⟨rfl, by cases evt <;> cases src <;> first | decide | cases h⟩

/-- **The success clause for the code as it is, in full**: over all seven events, every source state,
    every script (lost messages included), lenient and strict device, `err = nil` is returned only with the
    device at the destination (the statement that finding `unimplemented_event` refuted for the code as
    it was). -/
theorem C16_success_code : C16_success_full codeCfg := by
  intro strict evt src script
  exact all_runsFMQ codeCfg strict evt src (fun r => successOk fmqOf (dstOf evt) r)
    (by cases strict <;> cases evt <;> cases src <;> decide) script

/-- **The image clause for the code as it is, in full over every script without a lost message**
    (the statement that finding `stale_src_request` refuted for the code as it was). -/
theorem C16_image_noloss_code : C16_image_noloss_full codeCfg := by
  intro strict evt src script h
  have := all_runsFMQ codeCfg strict evt src (fun r => !noLoss strict r || imageOk o2Of r)
    (by cases strict <;> cases evt <;> cases src <;> decide) script
  simp only [Bool.or_eq_true, Bool.not_eq_true'] at this
  rcases this with h' | h'
  · rw [h] at h'; cases h'
  · exact h'

/-- **All three clauses for the code as it is**: for EVERY event (the two unimplemented ones included),
    whenever no message is lost, the full Spec holds — against lenient and strict devices — and the
    transitioner never names a source state the device cannot be in. The only hypothesis left is the one of
    the open finding `lost_reply`. -/
theorem C16_spec_code (strict : Bool) (evt : O2Event) (src : O2State) (script : List Outcome) :
    noStale strict (runFMQ codeCfg strict evt src script) = true ∧
    (noLoss strict (runFMQ codeCfg strict evt src script) = true →
      specFMQ evt (runFMQ codeCfg strict evt src script) = true) := by
  have := all_runsFMQ codeCfg strict evt src
    (fun r => noStale strict r && (!noLoss strict r || specFMQ evt r))
    (by cases strict <;> cases evt <;> cases src <;> decide) script
  simp only [Bool.and_eq_true, Bool.or_eq_true, Bool.not_eq_true'] at this
  refine ⟨this.1, fun hl => ?_⟩
  rcases this.2 with h' | h'
  · rw [hl] at h'; cases h'
  · exact h'

/-! ## non-vacuity -/

/-- The hypotheses of `C16_spec_partial` are met by realistic, non-trivial calls: a CONFIGURE whose CONNECT
    is refused and rolled back (6 requests, lenient device), and a complete RESET against a strict device. -/
example :
    let r := runFMQ originalCfg false .CONFIGURE .STANDBY [.done, .done, .done, .refused, .done, .refused]
    implemented .CONFIGURE = true ∧ noStale false r = true ∧ noLoss false r = true ∧ r.steps.length = 6 ∧
      r.final = .IDLE ∧ r.reported = some .STANDBY ∧ r.err = .rejected := by decide

example :
    let r := runFMQ codeCfg true .RESET .CONFIGURED [.done, .done]
    noStale true r = true ∧ noLoss true r = true ∧ r.final = .IDLE ∧ r.reported = some .STANDBY ∧ r.err = .nil := by
  decide

/-- …and of `C16_rollback_reaches_source`: RESET DEVICE refused, INIT TASK roll-back performed. -/
example :
    let r := runFMQ codeCfg true .RESET .CONFIGURED [.done, .refused, .done]
    calm r = true ∧ acceptsRollback (rollbackEvt .RESET) r = true ∧ r.final = .READY ∧ r.reported = some .CONFIGURED := by
  decide

/-- …and the hypothesis of `C16_unimplemented_refused_code` by both events; the answer the former code gave
    differs exactly in the error. -/
example :
    implemented .GO_ERROR = false ∧ implemented .RECOVER = false ∧
    (runFMQ codeCfg false .GO_ERROR .RUNNING []).err = .unimplemented ∧
    (runFMQ legacyCfg false .GO_ERROR .RUNNING []).err = .nil ∧
    (runFMQ legacyCfg false .GO_ERROR .RUNNING []).reported = (runFMQ codeCfg false .GO_ERROR .RUNNING []).reported := by
  decide

/-- The fresh reply object matters: the same JSON document decoded into an object that still holds the previous
    step's reply (READY / ok) yields that previous state — `C16_transport_irrelevant` is about `Msg.zero`. And a
    stateless reply after full ones: CONFIGURE whose BIND is answered without a state reports `""` with an error
    while the device is in ERROR (class `lost_reply`). -/
example :
    let stateless : Msg FState FEvent := ⟨none, false, 0, some .RUN⟩
    let previous : Msg FState FEvent := ⟨some .READY, true, 0, some .INIT_TASK⟩
    jsonDecodeInto previous (jsonDoc stateless) = ⟨some .READY, true, 0, some .RUN⟩ ∧
    Transport.json.deliver stateless = stateless ∧
    (let r := runFMQ codeCfg false .CONFIGURE .STANDBY [.done, .done, .errorNoState]
     r.reported = none ∧ r.err = .rejected ∧ r.final = .ERROR ∧ r.steps.length = 3 ∧ noLoss false r = false) := by
  decide
