/-
  Props/C17 — "Every launched task ends with exactly one terminal status and no survivors".

  Property theorems only (names `C17_*` are the proof obligations counted in the
  evidence file); lemmas live in Proofs/ExecTask.lean.

  The model (Model/ExecTask.lean) is one task inside the real executor event loop;
  a schedule is any list of steps from {tick, start, stop, conf, trigger, kill,
  await, giveup} after the LAUNCH. The theorems quantify over ALL task kinds, ALL child
  behaviours and ALL schedules of any length.

  Tie to /repo: the correspondence run drives the real eventLoop + handlers +
  executable.NewTask with real child processes on the same schedules; the
  constants, the teardown table and the shape facts of the code are re-extracted
  on every run (`Gen.ExecTask`) and identified with the model below.

  Three configurations of the model: `codeCfg` = the code as it is, `legacyCfg` = the
  code before seven `fix:` commits (ensureBasicTaskKilled nil tests + non-blocking
  push, handleLaunchEvent nil task, Launch goroutine nil Process, KILL of an inactive
  task ignored, Kill stops the TASK_RUNNING timer, handleKillEvent takes the entry out
  in the section that looks it up, startBasicTask works on its own command pointer),
  `overlapLegacyCfg` = the code before the last two (which matter only when requests
  overlap). Every switch of `codeCfg` is identified with a fact read off the source
  (`C17_repairs_are_code`): reverting a repair breaks that theorem and the
  correspondence.

  The statements the repairs made true are proved for `codeCfg` at full strength
  (`…_code`) and refuted for `legacyCfg` / `overlapLegacyCfg` on the witness schedules
  of the eight repaired findings (`C17_finding_*`). Four findings are still open
  (`kill_unready_ctl_panics`, `basic_kill_spares_child`, `ctl_kill_spares_helpers`,
  `basic_stop_spares_helpers`): their full-strength statements stay `def …_full`,
  refuted for `codeCfg`, proved under the hypothesis that excludes exactly that
  request state (`…_partial`, `…_code`).
-/
import ControlModel.Gen.ExecTask
import ControlModel.Proofs.ExecTask
import ControlModel.Proofs.ExecGiveUp
import ControlModel.Proofs.ExecOverlap

open ExecTask

/-! ## what the code is now -/

/-- The teardown walk of ControllableTask.Kill in the model IS the switch in the source. -/
theorem C17_kill_walk_is_code : killWalk = Gen.ExecTask.killWalk := by decide

/-- From every state a device can be in, the walk reaches DONE in at most three transitions
    (on a device that obeys). -/
theorem C17_kill_walk_reaches_done :
    walkToDone Gen.ExecTask.killWalk 3 "RUNNING" = true ∧ walkToDone Gen.ExecTask.killWalk 3 "CONFIGURED" = true ∧
    walkToDone Gen.ExecTask.killWalk 3 "STANDBY" = true ∧ walkToDone Gen.ExecTask.killWalk 3 "ERROR" = true := by decide

/-- pendingFinalTaskStateCh holds one value in both task types, as `St.pending : Option Fin` does. -/
theorem C17_pending_cap_is_code :
    (pendingCap : Int) = Gen.ExecTask.pendingCapBasic ∧ (pendingCap : Int) = Gen.ExecTask.pendingCapCtl := by decide

/-- TASK_RUNNING of a basic/hook task is sent by a timer after Launch returned (the `tick` step); its delay is
    at least the 200 ms the harness uses to recognise a timer that was due while a KILL was carried out. -/
theorem C17_running_timer_is_code : 200 ≤ Gen.ExecTask.runningDelayMs := by decide

/-- The model of the code as it is has exactly the repairs the source has: each switch of `codeCfg` equals
    what go/ast reads off /repo — ensureBasicTaskKilled tests taskCmd.ProcessState and taskCmd.Process for nil
    and sends on pendingFinalTaskStateCh only as a select case next to a default; handleLaunchEvent returns when
    NewTask gave nil, before calling Launch; ControllableTask.Launch tests taskCmd.Process for nil;
    handleKillEvent returns nil when the task is not in activeTasks; doLaunch keeps the TASK_RUNNING timer in a
    field that basicTaskBase.Kill stops; handleKillEvent looks the task up and deletes its entry in one critical
    section of the handler itself (and no longer leaves the first removal to the goroutine); startBasicTask keeps
    the command prepareTaskCmd returned in a local variable, calls StdoutPipe/StderrPipe/Start/Wait on it only and
    never reads the field t.taskCmd (no call through the field, no copy of the field inside the reaper goroutine).
    Reverting one of the repairs flips a fact and breaks this theorem. -/
theorem C17_repairs_are_code :
    codeCfg = { stopNilSafe := Gen.ExecTask.stopChecksProcessStateNil && Gen.ExecTask.stopChecksProcessNil &&
                  Gen.ExecTask.stopPushNonBlocking,
                launchNilSafe := Gen.ExecTask.launchReturnsOnNilTask,
                startFailSafe := Gen.ExecTask.launchChecksProcessNil,
                killInactiveIgnored := Gen.ExecTask.killInactiveReturnsNil,
                killStopsTimer := Gen.ExecTask.basicKillStopsTimer,
                killClaimsEntry := Gen.ExecTask.killClaimsEntryInHandler && !Gen.ExecTask.killRemovesEntryInGoroutine,
                startOwnsCmd := Gen.ExecTask.startOwnsCmd && !Gen.ExecTask.startThroughField &&
                  !Gen.ExecTask.reaperCopiesCmdInGoroutine,
                launchFailKeepsLeader := Gen.ExecTask.launchEscalates && !Gen.ExecTask.launchReapsBeforeEscalation } := by
  decide

/-- What the model of the launch failure assumes about the escalation IS what the source says (go/ast):
    ControllableTask.Launch terminates the task with doTermIntKill on its launch-failure paths, and pidExists, the
    test doTermIntKill makes before SIGINT and before SIGKILL, turns the negative pid of a process GROUP into the pid
    of the group's LEADER and asks for that one process (`Grp.leaderSeen`). (That no `Wait()` of Launch comes before a
    doTermIntKill — nobody reaps the command before or while its group is escalated — is the switch
    `launchFailKeepsLeader` of `C17_repairs_are_code`.) A pidExists that looks at the whole group flips the fact:
    the model of the escalation then has to be redone. -/
theorem C17_group_escalation_is_code :
    Gen.ExecTask.launchEscalates = true ∧ Gen.ExecTask.pidExistsLooksAtLeader = true := by decide

/-- The two shape facts behind the model's remaining crash / survivor steps (open findings), read off the
    source: ControllableTask.Kill uses t.rpc without a nil test, basicTaskBase.Kill signals nothing.
    A repair flips one of these and this theorem (and the correspondence) must be redone. -/
theorem C17_defects_are_code :
    Gen.ExecTask.killChecksRpcNil = false ∧ Gen.ExecTask.basicKillSignals = false := by decide

/-- prepareTaskCmd makes every child the leader of a process group of its own, whatever the shape of the
    command (through a shell or exec'd directly, with or without arguments): `Setpgid` is the constant `true` in
    the source. Every termination site addresses the task by that group (-pid) or by the device's own pid; the
    model's operating-system facts are about that group. A change that makes the group depend on the command
    flips the fact and breaks this theorem (and the correspondence on the commands that lose their group). -/
theorem C17_own_group_is_code (shp : Shape) : ownGroup shp = Gen.ExecTask.setpgidUnconditional := by
  cases shp <;> decide

/-- The command shape has no influence on what the executor does with the task: same kind, behaviour and
    schedule, same observation — for every configuration, all kinds, behaviours, schedules and shapes. (The
    model does not look at the shape; the correspondence run holds the real executor to this for every shape.) -/
theorem C17_shape_irrelevant (c : Cfg) (k : Kind) (b : Beh) (ops : List Op) (x y : Shape) :
    (runIn c k b x ops).obs = (runIn c k b y ops).obs := rfl

/-- Escalation after DONE, for every device behaviour: the signals sent are a prefix of TERM, INT, KILL,
    the child is gone afterwards, and with the code's timeouts it takes at most DONE+TERM+INT = 6 s. -/
theorem C17_escalation_bounded (b : Beh) :
    (escalate b).1 <+: [Sig.TERM, Sig.INT, Sig.KILL] ∧ (escalate b).2 ≠ Child.running ∧
    escalateMs Gen.ExecTask.doneTimeoutMs Gen.ExecTask.sigtermTimeoutMs Gen.ExecTask.sigintTimeoutMs b ≤ 6000 := by
  cases b <;> decide

/-! ## at most one terminal status -/

/-- For every configuration, kind, behaviour and schedule: the executor sends at most one terminal status update. -/
theorem C17_one_terminal (c : Cfg) (k : Kind) (b : Beh) (ops : List Op) :
    oneTerminal (run c k b ops).obs.emits = true := by
  have := (run_inv c k b ops).le1
  simpa [oneTerminal, Outcome.obs] using this

/-! ## nothing after the terminal status -/

/-- FULL-STRENGTH (false of the code as it is and as it was): nothing at all leaves the executor for the task
    after its terminal status. -/
def C17_nothing_after_full (c : Cfg) : Prop :=
  ∀ (k : Kind) (b : Beh) (ops : List Op), nothingAfter (run c k b ops).obs.emits = true

/-- FULL-STRENGTH, TRUE of the code as it is (`C17_running_first_code`), false of the code before Kill stopped
    the timer: TASK_RUNNING never follows the terminal status. -/
def C17_running_first_full (c : Cfg) : Prop :=
  ∀ (k : Kind) (b : Beh) (ops : List Op), noRunningAfter (run c k b ops).obs.emits = true

/-- Whenever Kill stops the timer: TASK_RUNNING never follows the terminal status — all kinds, behaviours, schedules. -/
theorem C17_running_first (c : Cfg) (hc : c.killStopsTimer = true) : C17_running_first_full c := by
  intro k b ops
  simp only [run, Outcome.obs]
  split
  · exact (init_armed c k b).nr
  · exact (runFrom_armed c hc _ ops (init_armed c k b)).nr

/-- **For the code as it is**, at full strength: TASK_RUNNING never follows the terminal status. -/
theorem C17_running_first_code : C17_running_first_full codeCfg :=
  C17_running_first codeCfg rfl

/-- What IS proved about everything that could follow: nothing follows the terminal status, for every schedule
    that never kills a basic/hook task one of whose processes is still alive, nor (only where Kill does not stop
    the timer) one whose TASK_RUNNING timer is still armed. -/
theorem C17_nothing_after_partial (c : Cfg) (k : Kind) (b : Beh) (ops : List Op)
    (ha : never c (killArmedIn c) k b ops = true) (hl : never c killLive k b ops = true) :
    nothingAfter (run c k b ops).obs.emits = true := by
  simp only [run, never, Outcome.obs] at *
  split
  · exact (init_quiet c k b).na
  · rename_i hh
    simp only [hh] at ha hl
    exact runFrom_quiet c _ ops (init_inv c k b) (init_quiet c k b) (by simpa using ha) (by simpa using hl)

/-- **For the code as it is** one hypothesis is left (the open finding `basic_kill_spares_child`): nothing
    follows the terminal status for every schedule that never kills a basic/hook task with a live process. -/
theorem C17_nothing_after_code (k : Kind) (b : Beh) (ops : List Op)
    (hl : never codeCfg killLive k b ops = true) :
    nothingAfter (run codeCfg k b ops).obs.emits = true :=
  C17_nothing_after_partial codeCfg k b ops
    (never_of_false codeCfg _ (by intro s op; simp [killArmedIn, codeCfg]) k b ops) hl

/-- Finding (repaired, true of the code as it was): KILL within 200 ms of LAUNCH — TASK_FINISHED is followed
    by TASK_RUNNING. -/
theorem C17_finding_kill_before_running_timer :
    ¬ C17_running_first_full legacyCfg ∧ ¬ C17_nothing_after_full legacyCfg := by
  constructor <;> intro h <;> have := h .basic .ok [.kill] <;> revert this <;> decide

/-! ## killed is not failed -/

/-- For every schedule: once a KILL has been carried out, no TASK_FAILED is ever reported for the task. -/
theorem C17_killed_not_failed (c : Cfg) (k : Kind) (b : Beh) (ops : List Op) :
    killedNotFailed ops (run c k b ops).obs = true := by
  simp only [killedNotFailed, Bool.or_eq_true, Bool.not_eq_true']
  cases hk : killOk ops (run c k b ops).obs.res
  · exact Or.inl rfl
  · right
    have hinv := run_inv c k b ops
    have hkilled : (run c k b ops).st.killed = true := by
      cases hh : (init c k b).2.halts
      · rw [run_of_not_halts c k b ops hh] at hk ⊢
        exact runFrom_killOk c _ ops (by simpa [Outcome.obs, killOk] using hk)
      · rw [run_of_halts c k b ops hh] at hk
        cases ops <;> simp [Outcome.obs, killOk, killOkFrom] at hk
    have := hinv.nof hkilled
    simpa [Outcome.obs] using this

/-! ## no request gets the executor stuck -/

/-- One step is stuck (panic, blocked for ever, or event loop ended) EXACTLY in the unsafe request states of the
    configuration — for every state, reachable or not. For the code as it is that is one state
    (`C17_unsafe_code`). -/
theorem C17_stuck_iff_unsafe (c : Cfg) (s : St) (op : Op) : (step c s op).2.stuck = unsafeReq c s op :=
  step_stuck_iff c s op

/-- In the code as it is the only request that gets a step stuck is a KILL for a controllable task whose rpc
    client is nil; no launch crashes. -/
theorem C17_unsafe_code :
    (∀ s op, unsafeReq codeCfg s op = killNoRpc s op) ∧ (∀ k b, launchCrashes codeCfg k b = false) := by
  constructor
  · intro s op; simp [unsafeReq, codeCfg]
  · intro k b; simp [launchCrashes, codeCfg]

/-- FULL-STRENGTH (false of the code as it is: `C17_finding_kill_unready_ctl_panics`): no launch, stop, kill,
    transition or trigger request crashes or hangs the executor or ends its event loop. -/
def C17_no_stuck_full (c : Cfg) : Prop :=
  ∀ (k : Kind) (b : Beh) (ops : List Op), noStuck (run c k b ops).res = true

/-- FULL-STRENGTH, TRUE of the code as it is (`C17_no_stuck_ready_code`), false of the code before the repairs
    (five findings): whatever the kind, the behaviour and the schedule, nothing crashes or hangs the executor or
    ends its event loop unless a KILL reaches a controllable task that is not ready. -/
def C17_no_stuck_ready_full (c : Cfg) : Prop :=
  ∀ (k : Kind) (b : Beh) (ops : List Op), never c killNoRpc k b ops = true → noStuck (run c k b ops).res = true

/-- FULL-STRENGTH, TRUE of the code as it is (`C17_no_stuck_basic_code`): no request whatsoever gets the
    executor stuck over a basic task, a hook task or a task launched without data. -/
def C17_no_stuck_basic_full (c : Cfg) : Prop :=
  ∀ (k : Kind) (b : Beh) (ops : List Op), k ≠ .ctl → noStuck (run c k b ops).res = true

/-- Exact characterisation over all schedules: a run is free of crash / hang / loop exit iff the LAUNCH does
    not crash and no request arrives in one of the unsafe states. -/
theorem C17_no_stuck_iff (c : Cfg) (k : Kind) (b : Beh) (ops : List Op) :
    noStuck (run c k b ops).res = (!launchCrashes c k b && never c (unsafeReq c) k b ops) := by
  simp only [run, never]
  have hh := init_halts c k b
  cases hl : launchCrashes c k b
  · rw [hl] at hh
    have hok := init_ok c k b hh
    simp only [hh, Bool.false_eq_true, ↓reduceIte, Bool.not_false, Bool.true_and]
    have := runFrom_noStuck c (init c k b).1 ops
    simp only [noStuck, List.all_cons, hok] at this ⊢
    simpa [Res.stuck] using this
  · rw [hl] at hh
    have := init_stuck c k b hh
    simp [hh, noStuck, this]

/-- Every request is handled, in every state the schedule reaches, provided the schedule avoids the unsafe
    request states of the configuration and the launches that crash in it. -/
theorem C17_no_stuck_partial (c : Cfg) (k : Kind) (b : Beh) (ops : List Op)
    (hl : launchCrashes c k b = false) (hn : never c (unsafeReq c) k b ops = true) :
    noStuck (run c k b ops).res = true := by
  rw [C17_no_stuck_iff, hl, hn]; rfl

/-- **For the code as it is**, at full strength: every launch, stop, kill, transition and trigger request is
    handled in every reachable state of every schedule — no crash, no hang, the event loop goes on — with the
    single exception that is still an open finding (KILL of a controllable task that is not ready). -/
theorem C17_no_stuck_ready_code : C17_no_stuck_ready_full codeCfg := by
  intro k b ops hn
  apply C17_no_stuck_partial codeCfg k b ops (C17_unsafe_code.2 k b)
  have : unsafeReq codeCfg = killNoRpc := by funext s op; exact C17_unsafe_code.1 s op
  rw [this]; exact hn

/-- **For the code as it is**, at full strength and without any hypothesis: basic tasks, hook tasks and tasks
    launched without data never get the executor stuck. -/
theorem C17_no_stuck_basic_code : C17_no_stuck_basic_full codeCfg := by
  intro k b ops hk
  apply C17_no_stuck_ready_code k b ops
  simp only [never]
  split
  · rfl
  · exact neverFrom_of_kind codeCfg killNoRpc
      (by intro s op h; cases hk' : s.kind <;> simp_all [killNoRpc]) _ (by rw [init_kind]; exact hk) ops

/-- **For the code as it is**: no LAUNCH crashes the executor, whatever the task's data and command. -/
theorem C17_launch_code (k : Kind) (b : Beh) : (init codeCfg k b).2.stuck = false := by
  have h := init_halts codeCfg k b
  rw [C17_unsafe_code.2 k b] at h
  rw [init_ok codeCfg k b h]; rfl

/-- Finding (repaired, true of the code as it was): STOP of a RUNNING basic task panics in
    ensureBasicTaskKilled (ProcessState is nil until Wait returns). -/
theorem C17_finding_stop_unreaped_basic_panics :
    ¬ C17_no_stuck_basic_full legacyCfg ∧ ¬ C17_no_stuck_ready_full legacyCfg := by
  constructor
  · intro h; have := h .basic .ok [.tick, .start, .stop] (by decide); revert this; decide
  · intro h; have := h .basic .ok [.tick, .start, .stop] (by decide); revert this; decide

/-- Finding (repaired, true of the code as it was): a second STOP after the child died of a signal blocks for
    ever on pendingFinalTaskStateCh. -/
theorem C17_finding_stop_signalled_twice_hangs :
    ¬ C17_no_stuck_basic_full legacyCfg ∧ ¬ C17_no_stuck_ready_full legacyCfg := by
  constructor
  · intro h; have := h .basic .sig [.tick, .start, .await, .stop, .stop] (by decide); revert this; decide
  · intro h; have := h .basic .sig [.tick, .start, .await, .stop, .stop] (by decide); revert this; decide

/-- Finding (repaired, true of the code as it was): a KILL for a task that is no longer active makes
    handleKillEvent return an error, which ends eventLoop. -/
theorem C17_finding_kill_inactive_ends_loop :
    ¬ C17_no_stuck_basic_full legacyCfg ∧ ¬ C17_no_stuck_ready_full legacyCfg := by
  constructor
  · intro h; have := h .basic .ok [.tick, .kill, .kill] (by decide); revert this; decide
  · intro h; have := h .ctl .occ [.kill, .kill] (by decide); revert this; decide

/-- Finding (repaired, true of the code as it was): LAUNCH with TaskInfo.Data missing — NewTask returns nil and
    handleLaunchEvent calls Launch on it. -/
theorem C17_finding_launch_nil_data_panics :
    ¬ C17_no_stuck_basic_full legacyCfg ∧ ¬ C17_no_stuck_ready_full legacyCfg := by
  constructor
  · intro h; have := h .nodata .ok [] (by decide); revert this; decide
  · intro h; have := h .nodata .ok [] (by decide); revert this; decide

/-- Finding (repaired, true of the code as it was): LAUNCH of a controllable task whose command cannot be
    started panics (taskCmd.Process is nil). -/
theorem C17_finding_ctl_start_failure_panics : ¬ C17_no_stuck_ready_full legacyCfg := by
  intro h; have := h .ctl .nobin [] (by decide); revert this; decide

/-- Finding (OPEN, true of the code as it is): KILL of a controllable task that is not ready (t.rpc == nil)
    panics in ControllableTask.Kill. -/
theorem C17_finding_kill_unready_ctl_panics : ¬ C17_no_stuck_full codeCfg := by
  intro h
  have := h .ctl .noport [.kill]
  revert this; decide

/-! ## no survivors -/

/-- FULL-STRENGTH (false of the code): after a KILL that was carried out no process of the task is left. -/
def C17_no_survivors_full (c : Cfg) : Prop :=
  ∀ (k : Kind) (b : Beh) (ops : List Op), noSurvivors ops (run c k b ops).obs = true

/-- What IS proved: after a carried-out KILL nothing of the task's process groups is alive and the run did
    not stop half-way, for every schedule that never kills a basic/hook task with a live process and never
    kills a controllable task that has forked helpers. -/
theorem C17_no_survivors_partial (c : Cfg) (k : Kind) (b : Beh) (ops : List Op)
    (hl : never c killLive k b ops = true) (hh : never c killHelpers k b ops = true) :
    noSurvivors ops (run c k b ops).obs = true := by
  simp only [noSurvivors, Bool.or_eq_true, Bool.not_eq_true']
  cases hk : killOk ops (run c k b ops).obs.res
  · exact Or.inl rfl
  · right
    cases hhalt : (init c k b).2.halts
    · rw [run_of_not_halts c k b ops hhalt] at hk ⊢
      simp only [never, hhalt, Bool.false_eq_true, ↓reduceIte] at hl hh
      have hkilled := runFrom_killOk c _ ops (by simpa [Outcome.obs, killOk] using hk)
      have := runFrom_survivors c _ ops (init_inv c k b) (init_surv c k b) hl hh hkilled
      simp [Outcome.obs, this.1, this.2]
    · rw [run_of_halts c k b ops hhalt] at hk
      cases ops <;> simp [Outcome.obs, killOk, killOkFrom] at hk

/-- Finding (OPEN, true of the code as it is): KILL of a basic task never signals its child — the process group
    outlives the TASK_FINISHED, and when the child ends later its BASIC_TASK_TERMINATED follows the terminal
    status. -/
theorem C17_finding_basic_kill_spares_child :
    ¬ C17_no_survivors_full codeCfg ∧ ¬ C17_nothing_after_full codeCfg := by
  constructor
  · intro h; have := h .basic .ok [.tick, .start, .kill]; revert this; decide
  · intro h; have := h .basic .ok [.tick, .start, .kill, .await]; revert this; decide

/-- Finding (OPEN, true of the code as it is): KILL of a ready controllable task signals the device pid only —
    forked helpers survive. -/
theorem C17_finding_ctl_kill_spares_helpers : ¬ C17_no_survivors_full codeCfg := by
  intro h
  have := h .ctl .occfork [.kill]
  revert this; decide

/-! ## stopping a basic task terminates its process group -/

/-- FULL-STRENGTH (false of the code: `C17_finding_basic_stop_spares_helpers`): once a STOP of a basic task has
    been answered and no child was started after it, no process of the task is alive. -/
def C17_stop_terminates_full (c : Cfg) : Prop :=
  ∀ (k : Kind) (b : Beh) (ops : List Op), stopTerminates k ops (run c k b ops).obs = true

/-- What IS proved, for every configuration with the repaired ensureBasicTaskKilled, all kinds, behaviours and
    schedules: a STOP leaves nothing of the task alive (and no later request but a START brings anything back),
    provided no STOP reaches the task while it has processes outside the group of a running latest child —
    children orphaned by a restart, helpers of earlier children, helpers of a child that already ended. -/
theorem C17_stop_terminates_partial (c : Cfg) (hc : c.stopNilSafe = true) (k : Kind) (b : Beh) (ops : List Op)
    (hn : never c stopSpares k b ops = true) :
    stopTerminates k ops (run c k b ops).obs = true := by
  cases k
  case basic =>
    have hh : (init c .basic b).2.halts = false := by simp [init, Res.halts]
    rw [run_of_not_halts c .basic b ops hh]
    simp only [never, hh, Bool.false_eq_true, ↓reduceIte] at hn
    have := runFrom_stopped c hc (init c .basic b).1 (init_kind c .basic b) (init_proc c .basic b) false
      (by simp) ops hn
    simp only [stopTerminates, stoppedLast, Outcome.obs, this.1, Bool.false_eq_true, ↓reduceIte]
    cases hs : stoppedFrom false ops (runFrom c (init c .basic b).1 ops).res
    · simp
    · simp [this.2 hs]
  all_goals simp [stopTerminates]

/-- **For the code as it is.** -/
theorem C17_stop_terminates_code (k : Kind) (b : Beh) (ops : List Op)
    (hn : never codeCfg stopSpares k b ops = true) :
    stopTerminates k ops (run codeCfg k b ops).obs = true :=
  C17_stop_terminates_partial codeCfg rfl k b ops hn

/-- Finding (OPEN, true of the code as it is): STOP of a basic task kills the group of the latest child only, and
    only while that child has not been reaped — the helper a child left behind when it ended on its own survives
    the STOP (ensureBasicTaskKilled: ProcessState != nil, "nothing to do"), and so do a child orphaned by a second
    START and its helpers. -/
theorem C17_finding_basic_stop_spares_helpers : ¬ C17_stop_terminates_full codeCfg := by
  intro h
  have := h .basic .fork [.start, .await, .stop]
  revert this; decide

/-- The other two shapes of the same class: a restart orphans the first child; the helper of an earlier child. -/
example :
    stopTerminates .basic [.start, .start, .stop] (run codeCfg .basic .ok [.start, .start, .stop]).obs = false ∧
    stopTerminates .basic [.start, .await, .start, .stop]
      (run codeCfg .basic .fork [.start, .await, .start, .stop]).obs = false ∧
    never codeCfg stopSpares .basic .ok [.start, .start, .stop] = false ∧
    never codeCfg stopSpares .basic .fork [.start, .await, .start, .stop] = false := by decide

/-! ## a launch that the executor gives up leaves no survivors

A controllable task that never opens its control port: after GRPC_DIAL_TIMEOUT the Launch goroutine reports
TASK_FAILED and calls doTermIntKill(-pgid) on the task's process GROUP (step `giveup`). The group is the command the
executor started (the leader: a wrapping shell, a launcher) and whatever it forked, each with its own way of treating
SIGTERM and SIGINT (`Disp`). doTermIntKill decides whether to go on to SIGINT and to SIGKILL by pidExists(-pgid),
which sees the LEADER only. -/

/-- FULL-STRENGTH for the escalation itself, TRUE when nobody reaps the command (`C17_group_escalation_code`),
    false when it is reaped meanwhile (`C17_group_escalation_needs_leader`): whatever the group — any disposition
    of the leader, any number of members with any dispositions, the leader running or already a zombie — nothing of
    it runs after doTermIntKill(-pgid). -/
def C17_group_escalation_full (keeps : Bool) : Prop :=
  ∀ g : Grp, g.leaderSeen = true → (escalateGroup keeps g).2.live = false

/-- **The code as it is** (nobody waits for the command on the launch-failure path), for ALL groups and
    dispositions: SIGTERM, SIGINT and SIGKILL are all sent — the dead leader stays a zombie, so both pidExists tests
    succeed — and no member of the group is left. -/
theorem C17_group_escalation_code :
    C17_group_escalation_full codeCfg.launchFailKeepsLeader ∧
    ∀ g : Grp, g.leaderSeen = true → (escalateGroup codeCfg.launchFailKeepsLeader g).1 = [.TERM, .INT, .KILL] := by
  constructor
  · intro g h
    obtain ⟨_, h2, h3⟩ := escalateGroup_keeps g h
    simp [codeCfg, Grp.live, h2, h3]
  · intro g h; exact (escalateGroup_keeps g h).1

/-- For every group and whoever reaps: the signals sent are TERM, then possibly INT, then possibly KILL. -/
theorem C17_group_escalation_shape (keeps : Bool) (g : Grp) :
    (escalateGroup keeps g).1 <+: [Sig.TERM, Sig.INT, Sig.KILL] ∨ (escalateGroup keeps g).1 = [Sig.TERM, Sig.KILL] := by
  rcases escalateGroup_sigs keeps g with h | h | h | h <;> rw [h] <;> decide

/-- For every group and whoever reaps: once SIGKILL was sent nothing of the group runs. What can go wrong is
    only that the last test (`!pidExists(pid)`: return) does not see who is left — it sees the leader. -/
theorem C17_group_escalation_kill_ends_all (keeps : Bool) (g : Grp) (h : Sig.KILL ∈ (escalateGroup keeps g).1) :
    (escalateGroup keeps g).2.live = false :=
  escalateGroup_kill_final keeps g h

/-- With the code's constants the escalation of a group takes at most SIGTERM_TIMEOUT + SIGINT_TIMEOUT = 5 s
    after the failure was reported (the bound the correspondence run triples before it looks for survivors). -/
theorem C17_group_escalation_bounded :
    Gen.ExecTask.sigtermTimeoutMs + Gen.ExecTask.sigintTimeoutMs ≤ 5000 := by decide

/-- NOT the code — a command that is reaped while its group is escalated: EXACTLY what is left running, for all
    groups. A leader that ignores both signals keeps the escalation going to SIGKILL; otherwise the escalation ends
    when the leader does: after SIGTERM every member that ignores SIGTERM is left; for a leader that ignores
    SIGTERM only, after SIGINT every member that ignores both is left. -/
theorem C17_group_escalation_reaping_exact (g : Grp) :
    (escalateGroup false g).2.live =
      (if g.leadLive && g.lead == .ignAll then false
       else if g.leadLive && g.lead == .ignTerm then g.members.any (fun d => d.survives .TERM && d.survives .INT)
       else g.members.any (fun d => d.survives .TERM)) :=
  escalateGroup_reaping_left g

/-- The full-strength statement is FALSE once the command is reaped while the group is escalated: the wrapping
    shell dies of SIGTERM and is collected, pidExists(-pgid) is false, the payload that ignores SIGTERM lives on. -/
theorem C17_group_escalation_needs_leader : ¬ C17_group_escalation_full reapingCfg.launchFailKeepsLeader := by
  intro h
  have := h { lead := .obey, leadLive := true, leadZombie := false, members := [.ignTerm] } (by decide)
  revert this; decide

/-- FULL-STRENGTH, TRUE of the code as it is (`C17_giveup_terminates_code`): whatever the kind, the behaviour —
    every group of the model — and the schedule, once the executor has given a launch up (reported it failed and
    run its escalation) no process of the task is alive and the run did not end half-way. -/
def C17_giveup_terminates_full (c : Cfg) : Prop :=
  ∀ (k : Kind) (b : Beh) (ops : List Op), giveupTerminates ops (run c k b ops).obs = true

/-- For every configuration in which nobody reaps the command before or while doTermIntKill runs: all kinds,
    behaviours and schedules — in particular whether the leader of the group still runs or has ended on its own
    (`await` before `giveup`: it is a zombie), and whatever is requested before and after. -/
theorem C17_giveup_terminates (c : Cfg) (hc : c.launchFailKeepsLeader = true) : C17_giveup_terminates_full c := by
  intro k b ops
  simp only [giveupTerminates, Bool.or_eq_true, Bool.not_eq_true']
  cases hk : gaveUpOk ops (run c k b ops).obs.res
  · exact Or.inl rfl
  · right
    cases hhalt : (init c k b).2.halts
    · rw [run_of_not_halts c k b ops hhalt] at hk ⊢
      have hg := runFrom_gaveUpOk c _ ops (by simpa [Outcome.obs, gaveUpOk] using hk)
      have := runFrom_gave c hc _ ops (init_inv c k b) (init_proc c k b) (init_gave c k b) hg
      simp [Outcome.obs, this.1, this.2]
    · rw [run_of_halts c k b ops hhalt] at hk
      cases ops <;> simp [Outcome.obs, gaveUpOk, gaveUpFrom] at hk

/-- **For the code as it is**, at full strength, no hypothesis. -/
theorem C17_giveup_terminates_code : C17_giveup_terminates_full codeCfg :=
  C17_giveup_terminates codeCfg rfl

/-- The statement depends on that switch: with a command that is reaped while its group is escalated (NOT the
    code) the member that ignores SIGTERM survives the launch failure — after TASK_FAILED, the terminal status,
    has been reported. -/
theorem C17_giveup_needs_leader : ¬ C17_giveup_terminates_full reapingCfg := by
  intro h
  have := h .ctl .noportkid [.giveup]
  revert this; decide

/-- Non-vacuity, and the faces of the class under both configurations: the launch failure alone, after the leader
    has ended on its own, with requests around it; every group of the model. Under `reapingCfg` exactly the groups
    of `C17_group_escalation_reaping_exact` keep a survivor. -/
example :
    let fin (c : Cfg) (b : Beh) (ops : List Op) : Bool × Option Bool :=
      (gaveUpOk ops (run c .ctl b ops).obs.res, (run c .ctl b ops).obs.alive)
    fin codeCfg .noportkid [.giveup] = (true, some false) ∧
    fin codeCfg .noportmix [.stop, .giveup, .kill] = (true, some false) ∧
    fin codeCfg .noportign [.await, .giveup] = (true, some false) ∧
    fin codeCfg .noportkidt [.await, .giveup, .giveup] = (true, some false) ∧
    (run codeCfg .ctl .noportmix [.giveup]).st.gsigs = [.TERM, .INT, .KILL] ∧
    (run codeCfg .ctl .noportkid [.await]).obs.alive = some true ∧
    fin codeCfg .occ [.giveup] = (false, some true) ∧
    fin reapingCfg .noport [.giveup] = (true, some false) ∧
    fin reapingCfg .noportfork [.await, .giveup] = (true, some false) ∧
    fin reapingCfg .noportign [.giveup] = (true, some false) ∧
    fin reapingCfg .noportign [.await, .giveup] = (true, some true) ∧
    fin reapingCfg .noportkidt [.giveup] = (true, some true) ∧
    fin reapingCfg .noportmix [.stop, .giveup, .kill] = (true, some true) ∧
    (run reapingCfg .ctl .noportkid [.giveup]).st.gsigs = [.TERM] := by decide

/-! ## the whole property -/

/-- Every conjunct of the property at once, for every schedule that stays clear of the classes of the
    configuration. -/
theorem C17_spec_partial (c : Cfg) (k : Kind) (b : Beh) (ops : List Op)
    (h0 : launchCrashes c k b = false) (h1 : never c (unsafeReq c) k b ops = true)
    (h2 : never c (killArmedIn c) k b ops = true) (h3 : never c killLive k b ops = true)
    (h4 : never c killHelpers k b ops = true) :
    Spec ops (run c k b ops).obs = true := by
  have a := C17_one_terminal c k b ops
  have b' := C17_nothing_after_partial c k b ops h2 h3
  have c' := C17_killed_not_failed c k b ops
  have d := C17_no_stuck_partial c k b ops h0 h1
  have e := C17_no_survivors_partial c k b ops h3 h4
  simp only [Spec, a, b', c', e, Bool.and_true, Bool.true_and]
  simpa [Outcome.obs] using d

/-- **The whole property for the code as it is**: all five conjuncts for every kind, behaviour and schedule
    that stays clear of the three request states of the findings that are still open — KILL of a controllable
    task that is not ready, KILL of a basic/hook task with a live process, KILL of a controllable task with
    forked helpers. (Before the repairs five more states and two launches had to be excluded.) -/
theorem C17_spec_code (k : Kind) (b : Beh) (ops : List Op)
    (h1 : never codeCfg killNoRpc k b ops = true) (h3 : never codeCfg killLive k b ops = true)
    (h4 : never codeCfg killHelpers k b ops = true) :
    Spec ops (run codeCfg k b ops).obs = true := by
  have hu : unsafeReq codeCfg = killNoRpc := by funext s op; exact C17_unsafe_code.1 s op
  exact C17_spec_partial codeCfg k b ops (C17_unsafe_code.2 k b) (by rw [hu]; exact h1)
    (never_of_false codeCfg _ (by intro s op; simp [killArmedIn, codeCfg]) k b ops) h3 h4

/-- **The whole property including "stopping a basic task terminates the whole process group" and "a launch that
    the executor gives up leaves no survivors", for the code as it is**: `SpecAll` for every kind, behaviour,
    schedule — and, the model being blind to it, every command shape — that stays clear of the four request states
    of the open findings. -/
theorem C17_spec_all_code (k : Kind) (b : Beh) (shp : Shape) (ops : List Op)
    (h1 : never codeCfg killNoRpc k b ops = true) (h3 : never codeCfg killLive k b ops = true)
    (h4 : never codeCfg killHelpers k b ops = true) (h5 : never codeCfg stopSpares k b ops = true) :
    SpecAll k ops (runIn codeCfg k b shp ops).obs = true := by
  simp only [SpecAll, runIn, C17_spec_code k b ops h1 h3 h4, C17_stop_terminates_code k b ops h5,
    C17_giveup_terminates_code k b ops, Bool.and_self]

/-- Non-vacuity: realistic schedules meet the hypotheses of `C17_spec_code` — among them the ones that used to
    be excluded: STOP of a running basic task, two STOPs after a child that died of a signal, KILL before the
    TASK_RUNNING timer, a repeated KILL, a launch without data, a command that cannot be started. -/
example :
    let ok (k : Kind) (b : Beh) (ops : List Op) : Bool :=
      never codeCfg killNoRpc k b ops && never codeCfg killLive k b ops && never codeCfg killHelpers k b ops
    ok .basic .ok [.tick, .start, .await, .stop, .start, .await, .kill] = true ∧
    ok .basic .ok [.start, .stop, .kill, .kill, .tick] = true ∧
    ok .basic .sig [.tick, .start, .await, .stop, .stop, .kill] = true ∧
    ok .nodata .ok [.kill, .start] = true ∧
    ok .ctl .nobin [.kill, .conf] = true ∧
    ok .ctl .occstay [.conf, .start, .kill, .kill] = true ∧
    ok .ctl .occign [.kill] = true ∧
    ok .hook .fail [.tick, .trigger, .await, .trigger, .await, .kill] = true := by decide

/-- Non-vacuity of `C17_spec_all_code` / `C17_stop_terminates_code`: schedules in which a STOP really has
    something to terminate meet the hypothesis, and the clause is not trivially true on them (a STOP was answered,
    nothing was started after it). -/
example :
    let ok (b : Beh) (ops : List Op) : Bool :=
      never codeCfg stopSpares .basic b ops && stoppedLast ops (run codeCfg .basic b ops).res
    ok .ok [.tick, .start, .stop] = true ∧
    ok .fork [.start, .stop, .conf, .tick] = true ∧
    ok .ok [.start, .stop, .start, .await, .stop, .kill] = true ∧
    ok .sig [.start, .await, .stop, .stop] = true ∧
    ok .nobin [.start, .stop] = true := by decide

/-- The same schedules under the code as it was: each of the formerly excluded ones breaks the property. -/
example :
    Spec [.start, .stop, .kill, .kill, .tick] (run legacyCfg .basic .ok [.start, .stop, .kill, .kill, .tick]).obs = false ∧
    Spec [.start, .stop, .kill, .kill, .tick] (run codeCfg .basic .ok [.start, .stop, .kill, .kill, .tick]).obs = true := by
  decide

/-! ## overlapping requests

A schedule element `par a b` delivers request `b` while request `a` is being served (Model/ExecOverlap): the real
handlers look the task up and then serve every MESSAGE and every KILL in a goroutine of its own, on a task object
that has no lock. The model's answer is the SET of all interleavings of the atomic parts of the two requests
(`runI`); the correspondence run is a monitor (the real executor's observation must be one of them). The theorems
below are about EVERY member of that set, for all kinds, behaviours and schedules of items of any length. -/

/-- What the overlap model assumes about how requests are served IS what the source says (go/ast): both handlers
    look the task up themselves and serve the request (Transition, Trigger, Kill) from a goroutine they start;
    basicTaskBase.Kill sets the field t.taskCmd to nil, and neither it nor startBasicTask nor ensureBasicTaskKilled
    takes a lock (the parts of two requests interleave freely); ensureBasicTaskKilled runs straight through — no
    loop, no receive, no sleep — so that a STOP is ONE part. (Where the entry is removed from activeTasks and
    whether startBasicTask reads the field are switches of the model: `C17_repairs_are_code`.) A change that lets a
    STOP wait, or that serialises the requests, flips a fact and breaks this theorem: the granularity of the model
    then has to be redone together with the correspondence. -/
theorem C17_overlap_is_code :
    Gen.ExecTask.messagesServedInGoroutine = true ∧ Gen.ExecTask.killServedInGoroutine = true ∧
    Gen.ExecTask.lookupInHandler = true ∧
    Gen.ExecTask.basicKillClearsCmd = true ∧ Gen.ExecTask.stopDoesNotWait = true ∧
    Gen.ExecTask.basicTaskLocks = false := by decide

/-- The model with overlaps is conservative: a schedule without overlaps has exactly one run, the run of the
    sequential model — for every configuration, kind, behaviour and schedule. (All theorems above therefore also
    speak about `runI` on plain schedules.) -/
theorem C17_overlap_conservative (c : Cfg) (k : Kind) (b : Beh) (ops : List Op) :
    runI c k b (plain ops) = [(run c k b ops).lift] :=
  runI_plain c k b ops

/-- The atomic parts are a refinement of the step: the look-up and the parts of ONE request, run with nothing in
    between, do exactly what `step` does — for every configuration, every state, every request (in particular
    `prep; exec; reap` is `spawn`, and a KILL that takes the entry out at its look-up and then runs Kill() is the
    KILL step). -/
theorem C17_request_alone_is_step (c : Cfg) (s : St) (op : Op) (hl : s.loop = true) (hr : op.isRequest = true) :
    runThread c (partsOf s.kind op) s none =
      if (step c s op).2.halts then .error (step c s op).2 else .ok ((step c s op).1, some (step c s op).2) :=
  runThread_is_step c s op hl hr

/-- An overlap generalises the sequence: "A served completely, then B" is always one of the behaviours of
    `par a b` — for every configuration, every state and every pair of requests. -/
theorem C17_overlap_includes_sequential (c : Cfg) (s : St) (a b : Op) (hl : s.loop = true)
    (hra : a.isRequest = true) (hrb : b.isRequest = true) (ha : (step c s a).2.halts = false)
    (hl' : (step c s a).1.loop = true) (hb : (step c (step c s a).1 b).2.halts = false) :
    POut.done (step c (step c s a).1 b).1 (step c s a).2 (step c (step c s a).1 b).2 ∈ parOutcomes c s a b :=
  par_includes_seq c s a b hl hra hrb ha hl' hb

/-- ONE part of the handling of a request gets the executor stuck EXACTLY in the states `unsafePart` — for every
    configuration and every state, reachable or not: a request served in one piece where `step` is stuck
    (`C17_stuck_iff_unsafe`); before startBasicTask worked on its own pointer, its parts that use t.taskCmd exactly
    when the field is nil. -/
theorem C17_part_stuck_iff_unsafe (c : Cfg) (s : St) (p : Part) : (pstep c s p).halts = unsafePart c s p :=
  pstep_halts_iff c s p

/-- **In the code as it is** a part is stuck in ONE kind of state only — Kill() of a controllable task whose rpc
    client is nil (the open finding `kill_unready_ctl_panics`): no part of startBasicTask can find a nil command
    any more. -/
theorem C17_unsafe_part_code (s : St) (p : Part) :
    unsafePart codeCfg s p = (match p with
      | .whole op => killNoRpc { s with active := true } op
      | _ => false) := by
  cases p with
  | whole op => exact C17_unsafe_code.1 _ op
  | _ => simp [unsafePart, codeCfg]

/-- FULL-STRENGTH, TRUE of the code as it is (`C17_overlap_one_terminal_code`), false of the code before
    handleKillEvent took the entry out at its look-up (`C17_finding_overlapping_kills_two_terminals`): whatever
    requests overlap, every run sends at most one terminal status. -/
def C17_overlap_one_terminal_full (c : Cfg) : Prop :=
  ∀ (k : Kind) (b : Beh) (items : List Item), items.all (Item.ok k) = true →
    (runI c k b items).all (fun o => oneTerminal (o.obs.flat items).2.emits) = true

/-- For every configuration, kind, behaviour and schedule of items: unless two KILLs overlap, EVERY interleaving
    sends at most one terminal status, and a task on which a KILL was carried out is never reported failed. -/
theorem C17_overlap_one_terminal_partial (c : Cfg) (k : Kind) (b : Beh) (items : List Item)
    (hn : items.all notTwoKills = true) :
    (runI c k b items).all (fun o => oneTerminal (o.obs.flat items).2.emits &&
      (!o.st.killed || !o.obs.emits.contains (.term .FAILED))) = true := by
  simp only [List.all_eq_true, Bool.and_eq_true, Bool.or_eq_true, Bool.not_eq_true']
  intro o ho
  have hinv := runI_inv c k b items hn o ho
  constructor
  · rw [emits_flat]
    simpa [oneTerminal, IOutcome.obs] using hinv.le1
  · cases hk : o.st.killed
    · exact Or.inl rfl
    · right
      have := hinv.nof hk
      simpa [IOutcome.obs] using this

/-- Whenever handleKillEvent takes the entry out of activeTasks in the section that looks it up — all kinds,
    behaviours and schedules of items, ANY two requests overlapping, two KILLs (and a KILL of a controllable task)
    included: EVERY interleaving sends at most one terminal status, and a task on which a KILL was carried out is
    never reported failed. The KILL that found the task holds it: every later look-up — a second KILL's in
    particular — is refused. -/
theorem C17_overlap_one_terminal_claimed (c : Cfg) (hc : c.killClaimsEntry = true) (k : Kind) (b : Beh)
    (items : List Item) (hn : items.all reqItem = true) :
    (runI c k b items).all (fun o => oneTerminal (o.obs.flat items).2.emits &&
      (!o.st.killed || !o.obs.emits.contains (.term .FAILED))) = true := by
  simp only [List.all_eq_true, Bool.and_eq_true, Bool.or_eq_true, Bool.not_eq_true']
  intro o ho
  have hinv := runI_inv_claimed c hc k b items hn o ho
  constructor
  · rw [emits_flat]
    simpa [oneTerminal, IOutcome.obs] using hinv.le1
  · cases hk : o.st.killed
    · exact Or.inl rfl
    · right
      have := hinv.nof hk
      simpa [IOutcome.obs] using this

/-- **For the code as it is**, at full strength: whatever requests overlap, every run sends at most one terminal
    status. -/
theorem C17_overlap_one_terminal_code : C17_overlap_one_terminal_full codeCfg := by
  intro k b items hok
  have hn : items.all reqItem = true := by
    simp only [List.all_eq_true] at hok ⊢
    exact fun it hit => reqItem_of_ok k it (hok it hit)
  have := C17_overlap_one_terminal_claimed codeCfg rfl k b items hn
  simp only [List.all_eq_true, Bool.and_eq_true] at this ⊢
  exact fun o ho => (this o ho).1

/-- Finding (repaired, true of the code as it was): two KILLs for the same basic or hook task delivered back to
    back — both handlers found the task (the entry was removed only by the goroutine), both goroutines called Kill:
    two TASK_FINISHED. -/
theorem C17_finding_overlapping_kills_two_terminals :
    ¬ C17_overlap_one_terminal_full overlapLegacyCfg ∧ ¬ C17_overlap_one_terminal_full legacyCfg := by
  constructor <;> intro h <;> have := h .basic .ok [.one .tick, .par .kill .kill] (by decide) <;> revert this <;> decide

/-- The repaired behaviour on the witness of that finding and on its hook twin: one KILL is carried out, the other
    is ignored, one terminal status — in every interleaving. -/
example :
    (runI codeCfg .basic .ok [.one .tick, .par .kill .kill]).all
      (fun o => o.res == [.one .ok, .one .ok, .par .ok .ignored] && terminals o.st.out == 1 && !o.halted) = true ∧
    (runI codeCfg .hook .ok [.par .kill .kill, .one .tick]).all
      (fun o => o.res == [.one .ok, .par .ok .ignored, .one .ok] && o.st.out == [.term .FINISHED]) = true := by
  decide

/-- FULL-STRENGTH, TRUE of the code as it is (`C17_overlap_no_stuck_code`), false of the code before startBasicTask
    worked on its own pointer (`C17_finding_kill_overlaps_start_panics`): whatever requests overlap on a basic task,
    a hook task or a task without data, no run crashes or hangs the executor or ends its event loop. -/
def C17_overlap_no_stuck_full (c : Cfg) : Prop :=
  ∀ (k : Kind) (b : Beh) (items : List Item), k ≠ .ctl → items.all (Item.ok k) = true →
    (runI c k b items).all (fun o => noStuck (o.obs.flat items).2.res) = true

/-- For every configuration with the repaired ensureBasicTaskKilled, KILL handler and launch (in particular the
    code before startBasicTask worked on its own pointer), all behaviours, all schedules of items: over a basic
    task, a hook task or a task without data NO interleaving of overlapping requests crashes or hangs the executor
    or ends its event loop — unless a KILL overlaps a request that starts a child. In particular STOP ∥ KILL,
    STOP ∥ STOP, STOP ∥ START, KILL ∥ KILL and every overlap with a transition that is a no-op are handled in every
    order. -/
theorem C17_overlap_no_stuck_partial (c : Cfg) (hs : c.stopNilSafe = true) (hi : c.killInactiveIgnored = true)
    (hl : c.launchNilSafe = true) (k : Kind) (hk : k ≠ .ctl) (b : Beh) (items : List Item)
    (hn : items.all (noKillSpawn k) = true) :
    (runI c k b items).all (fun o => noStuck (o.obs.flat items).2.res) = true := by
  simp only [List.all_eq_true] at hn ⊢
  intro o ho
  have hn' : items.all (safeItem c k) = true := by
    simp only [List.all_eq_true]
    exact fun it hit => safeItem_of_noKillSpawn c k it (hn it hit)
  exact noStuck_flat items o.obs (by simpa [IOutcome.obs] using runI_noStuck c ⟨hs, hi, hl⟩ k hk b items hn' o ho)

/-- **For the code as it is**, at full strength — all behaviours, all schedules of items, ANY two requests
    overlapping, a KILL with a START / a trigger included: over a basic task, a hook task or a task without data NO
    interleaving crashes or hangs the executor or ends its event loop. -/
theorem C17_overlap_no_stuck_code : C17_overlap_no_stuck_full codeCfg := by
  intro k b items hk hok
  simp only [List.all_eq_true] at hok ⊢
  intro o ho
  have hn' : items.all (safeItem codeCfg k) = true := by
    simp only [List.all_eq_true]
    exact fun it hit => safeItem_of_owns codeCfg rfl k it (reqItem_of_ok k it (hok it hit))
  exact noStuck_flat items o.obs (by simpa [IOutcome.obs] using runI_noStuck codeCfg codeCfg_repaired k hk b items hn' o ho)

/-- Finding (repaired, true of the code as it was): a KILL handled while a START of the same basic task (or the
    trigger of the same hook) is being served — Kill set t.taskCmd = nil under startBasicTask, whose next use of
    the field (Start, or the reaper goroutine's copy) panicked: the executor and every task on it were gone. -/
theorem C17_finding_kill_overlaps_start_panics :
    ¬ C17_overlap_no_stuck_full overlapLegacyCfg ∧ ¬ C17_overlap_no_stuck_full legacyCfg := by
  constructor <;> intro h <;> have := h .hook .ok [.one .tick, .par .trigger .kill] (by decide) (by decide) <;>
    revert this <;> decide

/-- What is left of that class in the code as it is (open finding `basic_kill_spares_child`: Kill neither signals a
    child nor keeps a request in flight from starting one): no run halts, and in some the child is started for — and
    survives — a task whose terminal status is out; a KILL whose look-up comes FIRST now always refuses the START.
    The hypotheses of the two partial overlap theorems are met by realistic schedules whose runs really differ. -/
example :
    (runI codeCfg .basic .ok [.one .tick, .par .start .kill]).all (fun o => !o.halted) = true ∧
    (runI codeCfg .basic .ok [.one .tick, .par .start .kill]).any
      (fun o => o.st.alive && o.st.killed) = true ∧
    (runI codeCfg .hook .ok [.one .tick, .par .trigger .kill]).all (fun o => !o.halted) = true ∧
    (runI codeCfg .basic .ok [.one .tick, .par .kill .start]).all
      (fun o => o.res == [.one .ok, .one .ok, .par .ok .notask] && !o.st.alive) = true ∧
    (runI overlapLegacyCfg .basic .ok [.one .tick, .par .kill .start]).any
      (fun o => !o.halted && o.st.alive && o.st.killed) = true ∧
    ([Item.one .tick, .one .start, .par .stop .kill, .one .await].all (noKillSpawn .basic) &&
      [Item.one .tick, .one .start, .par .stop .kill, .one .await].all notTwoKills) = true ∧
    2 ≤ (runI codeCfg .basic .ok [.one .tick, .one .start, .par .stop .kill, .one .await]).length ∧
    ([Item.one .tick, .par .start .stop, .par .stop .start, .one .kill].all (noKillSpawn .basic)) = true ∧
    3 ≤ (runI codeCfg .basic .fork [.one .tick, .par .start .stop, .par .stop .start, .one .kill]).length := by
  decide
