/-
  Props/C17 — "Every launched task ends with exactly one terminal status and no survivors".

  Property theorems only (names `C17_*` are the proof obligations counted in the
  evidence file); lemmas live in Proofs/ExecTask.lean.

  The model (Model/ExecTask.lean) is one task inside the real executor event loop;
  a schedule is any list of steps from {tick, start, stop, conf, trigger, kill,
  await} after the LAUNCH. The theorems quantify over ALL task kinds, ALL child
  behaviours and ALL schedules of any length.

  Tie to /repo: the correspondence run drives the real eventLoop + handlers +
  executable.NewTask with real child processes on the same schedules; the
  constants, the teardown table and four shape facts of the code are
  re-extracted on every run (`Gen.ExecTask`) and identified with the model below.

  The code (and so the faithful model) violates the property in nine request
  states; for each the full-strength statement is kept as `def …_full : Prop`,
  refuted on a witness schedule (`C17_finding_*`), and proved under the
  hypothesis that excludes exactly that state (`…_partial`).
-/
import ControlModel.Gen.ExecTask
import ControlModel.Proofs.ExecTask

open ExecTask

/-! ## what the code is now -/

/-- The teardown walk of ControllableTask.Kill in the model IS the switch in the source. -/
theorem C17_kill_walk_is_code : killWalk = Gen.ExecTask.killWalk := by decide

/-- From every state a device can be in, the walk reaches DONE in at most three transitions
    (on a device that obeys). -/
theorem C17_kill_walk_reaches_done :
    walkToDone Gen.ExecTask.killWalk 3 "RUNNING" = true ∧ walkToDone Gen.ExecTask.killWalk 3 "CONFIGURED" = true ∧
    walkToDone Gen.ExecTask.killWalk 3 "STANDBY" = true ∧ walkToDone Gen.ExecTask.killWalk 3 "ERROR" = true := by decide

/-- pendingFinalTaskStateCh holds one value in both task types, as `St.pending : Option Fin` does. -/
theorem C17_pending_cap_is_code :
    (pendingCap : Int) = Gen.ExecTask.pendingCapBasic ∧ (pendingCap : Int) = Gen.ExecTask.pendingCapCtl := by decide

/-- TASK_RUNNING of a basic/hook task is sent by a timer strictly after Launch returned (the `tick` step). -/
theorem C17_running_timer_is_code : 0 < Gen.ExecTask.runningDelayMs := by decide

/-- The four shape facts behind the model's crash / survivor steps, read off the source:
    ensureBasicTaskKilled uses taskCmd.ProcessState without a nil test, ControllableTask.Kill uses t.rpc
    without a nil test, basicTaskBase.Kill signals nothing, ControllableTask.Launch uses taskCmd.Process
    without a nil test. A repair flips one of these and this theorem (and the correspondence) must be redone. -/
theorem C17_defects_are_code :
    Gen.ExecTask.stopChecksProcessStateNil = false ∧ Gen.ExecTask.killChecksRpcNil = false ∧
    Gen.ExecTask.basicKillSignals = false ∧ Gen.ExecTask.launchChecksProcessNil = false := by decide

/-- Escalation after DONE, for every device behaviour: the signals sent are a prefix of TERM, INT, KILL,
    the child is gone afterwards, and with the code's timeouts it takes at most DONE+TERM+INT = 6 s. -/
theorem C17_escalation_bounded (b : Beh) :
    (escalate b).1 <+: [Sig.TERM, Sig.INT, Sig.KILL] ∧ (escalate b).2 ≠ Child.running ∧
    escalateMs Gen.ExecTask.doneTimeoutMs Gen.ExecTask.sigtermTimeoutMs Gen.ExecTask.sigintTimeoutMs b ≤ 6000 := by
  cases b <;> decide

/-! ## at most one terminal status -/

/-- For every kind, behaviour and schedule: the executor sends at most one terminal status update. -/
theorem C17_one_terminal (k : Kind) (b : Beh) (ops : List Op) :
    oneTerminal (run k b ops).obs.emits = true := by
  have := (run_inv k b ops).le1
  simpa [oneTerminal, Outcome.obs] using this

/-- FULL-STRENGTH (false of the code): nothing at all leaves the executor for the task after its terminal status. -/
def C17_nothing_after_full : Prop :=
  ∀ (k : Kind) (b : Beh) (ops : List Op), nothingAfter (run k b ops).obs.emits = true

/-- What IS proved: nothing follows the terminal status, for every schedule that never kills a basic/hook
    task whose TASK_RUNNING timer is still armed or one of whose processes is still alive. -/
theorem C17_nothing_after_partial (k : Kind) (b : Beh) (ops : List Op)
    (ha : never killArmed k b ops = true) (hl : never killLive k b ops = true) :
    nothingAfter (run k b ops).obs.emits = true := by
  simp only [run, never, Outcome.obs] at *
  split
  · exact (init_quiet k b).na
  · rename_i hh
    simp only [hh] at ha hl
    exact runFrom_quiet _ ops (init_inv k b) (init_quiet k b) (by simpa using ha) (by simpa using hl)

/-- Finding: KILL within 200 ms of LAUNCH — TASK_FINISHED is followed by TASK_RUNNING. -/
theorem C17_finding_kill_before_running_timer : ¬ C17_nothing_after_full := by
  intro h
  have := h .basic .ok [.kill]
  revert this; decide

/-! ## killed is not failed -/

/-- For every schedule: once a KILL has been carried out, no TASK_FAILED is ever reported for the task. -/
theorem C17_killed_not_failed (k : Kind) (b : Beh) (ops : List Op) :
    killedNotFailed ops (run k b ops).obs = true := by
  simp only [killedNotFailed, Bool.or_eq_true, Bool.not_eq_true']
  cases hk : killOk ops (run k b ops).obs.res
  · exact Or.inl rfl
  · right
    have hinv := run_inv k b ops
    have hkilled : (run k b ops).st.killed = true := by
      cases hh : (init k b).2.halts
      · rw [run_of_not_halts k b ops hh] at hk ⊢
        exact runFrom_killOk _ ops (by simpa [Outcome.obs, killOk] using hk)
      · rw [run_of_halts k b ops hh] at hk
        cases ops <;> simp [Outcome.obs, killOk, killOkFrom] at hk
    have := hinv.nof hkilled
    simpa [Outcome.obs] using this

/-! ## no request gets the executor stuck -/

/-- One step is stuck (panic, blocked for ever, or event loop ended) EXACTLY in the four unsafe request
    states — for every state, reachable or not. -/
theorem C17_stuck_iff_unsafe (s : St) (op : Op) : (step s op).2.stuck = unsafeReq s op :=
  step_stuck_iff s op

/-- FULL-STRENGTH (false of the code): no launch, stop, kill, transition or trigger request crashes or hangs
    the executor or ends its event loop. -/
def C17_no_stuck_full : Prop :=
  ∀ (k : Kind) (b : Beh) (ops : List Op), noStuck (run k b ops).res = true

/-- Exact characterisation over all schedules: a run is free of crash / hang / loop exit iff the LAUNCH does
    not crash and no request arrives in one of the four unsafe states. -/
theorem C17_no_stuck_iff (k : Kind) (b : Beh) (ops : List Op) :
    noStuck (run k b ops).res = (!launchCrashes k b && never unsafeReq k b ops) := by
  simp only [run, never]
  have hh := init_halts k b
  cases hl : launchCrashes k b
  · rw [hl] at hh
    have hok := init_ok k b hh
    simp only [hh, Bool.false_eq_true, ↓reduceIte, Bool.not_false, Bool.true_and]
    have := runFrom_noStuck (init k b).1 ops
    simp only [noStuck, List.all_cons, hok] at this ⊢
    simpa [Res.stuck] using this
  · rw [hl] at hh
    have := init_stuck k b hh
    simp [hh, noStuck, this]

/-- What IS proved: every request is handled, in every state the schedule reaches, provided the schedule
    avoids the four unsafe request states and the two launches that crash. -/
theorem C17_no_stuck_partial (k : Kind) (b : Beh) (ops : List Op)
    (hl : launchCrashes k b = false) (hn : never unsafeReq k b ops = true) :
    noStuck (run k b ops).res = true := by
  rw [C17_no_stuck_iff, hl, hn]; rfl

/-- Finding: STOP of a RUNNING basic task panics in ensureBasicTaskKilled (ProcessState is nil until Wait returns). -/
theorem C17_finding_stop_unreaped_basic_panics : ¬ C17_no_stuck_full := by
  intro h
  have := h .basic .ok [.tick, .start, .stop]
  revert this; decide

/-- Finding: KILL of a controllable task that is not ready (t.rpc == nil) panics in ControllableTask.Kill. -/
theorem C17_finding_kill_unready_ctl_panics : ¬ C17_no_stuck_full := by
  intro h
  have := h .ctl .noport [.kill]
  revert this; decide

/-- Finding: a second STOP after the child died of a signal blocks for ever on pendingFinalTaskStateCh. -/
theorem C17_finding_stop_signalled_twice_hangs : ¬ C17_no_stuck_full := by
  intro h
  have := h .basic .sig [.tick, .start, .await, .stop, .stop]
  revert this; decide

/-- Finding: a KILL for a task that is no longer active makes handleKillEvent return an error, which ends eventLoop. -/
theorem C17_finding_kill_inactive_ends_loop : ¬ C17_no_stuck_full := by
  intro h
  have := h .basic .ok [.tick, .kill, .kill]
  revert this; decide

/-- Finding: LAUNCH with TaskInfo.Data missing — NewTask returns nil and handleLaunchEvent calls Launch on it. -/
theorem C17_finding_launch_nil_data_panics : ¬ C17_no_stuck_full := by
  intro h
  have := h .nodata .ok []
  revert this; decide

/-- Finding: LAUNCH of a controllable task whose command cannot be started panics (taskCmd.Process is nil). -/
theorem C17_finding_ctl_start_failure_panics : ¬ C17_no_stuck_full := by
  intro h
  have := h .ctl .nobin []
  revert this; decide

/-! ## no survivors -/

/-- FULL-STRENGTH (false of the code): after a KILL that was carried out no process of the task is left. -/
def C17_no_survivors_full : Prop :=
  ∀ (k : Kind) (b : Beh) (ops : List Op), noSurvivors ops (run k b ops).obs = true

/-- What IS proved: after a carried-out KILL nothing of the task's process groups is alive and the run did
    not stop half-way, for every schedule that never kills a basic/hook task with a live process and never
    kills a controllable task that has forked helpers. -/
theorem C17_no_survivors_partial (k : Kind) (b : Beh) (ops : List Op)
    (hl : never killLive k b ops = true) (hh : never killHelpers k b ops = true) :
    noSurvivors ops (run k b ops).obs = true := by
  simp only [noSurvivors, Bool.or_eq_true, Bool.not_eq_true']
  cases hk : killOk ops (run k b ops).obs.res
  · exact Or.inl rfl
  · right
    cases hhalt : (init k b).2.halts
    · rw [run_of_not_halts k b ops hhalt] at hk ⊢
      simp only [never, hhalt, Bool.false_eq_true, ↓reduceIte] at hl hh
      have hkilled := runFrom_killOk _ ops (by simpa [Outcome.obs, killOk] using hk)
      have := runFrom_survivors _ ops (init_inv k b) (init_surv k b) hl hh hkilled
      simp [Outcome.obs, this.1, this.2]
    · rw [run_of_halts k b ops hhalt] at hk
      cases ops <;> simp [Outcome.obs, killOk, killOkFrom] at hk

/-- Finding: KILL of a basic task never signals its child — the process group outlives the TASK_FINISHED. -/
theorem C17_finding_basic_kill_spares_child : ¬ C17_no_survivors_full := by
  intro h
  have := h .basic .ok [.tick, .start, .kill]
  revert this; decide

/-- Finding: KILL of a ready controllable task signals the device pid only — forked helpers survive. -/
theorem C17_finding_ctl_kill_spares_helpers : ¬ C17_no_survivors_full := by
  intro h
  have := h .ctl .occfork [.kill]
  revert this; decide

/-! ## the whole property -/

/-- Every conjunct of the property at once, for every schedule that stays clear of the recorded classes. -/
theorem C17_spec_partial (k : Kind) (b : Beh) (ops : List Op)
    (h0 : launchCrashes k b = false) (h1 : never unsafeReq k b ops = true)
    (h2 : never killArmed k b ops = true) (h3 : never killLive k b ops = true)
    (h4 : never killHelpers k b ops = true) :
    Spec ops (run k b ops).obs = true := by
  have a := C17_one_terminal k b ops
  have b' := C17_nothing_after_partial k b ops h2 h3
  have c := C17_killed_not_failed k b ops
  have d := C17_no_stuck_partial k b ops h0 h1
  have e := C17_no_survivors_partial k b ops h3 h4
  simp only [Spec, a, b', c, e, Bool.and_true, Bool.true_and]
  simpa [Outcome.obs] using d

/-- Non-vacuity: realistic schedules meet all hypotheses — a basic task that is started, ends, is stopped,
    restarted, ends and is killed; a device walked STANDBY→CONFIGURED→RUNNING and killed (needs SIGTERM);
    a hook triggered twice with the first run over before the second. -/
example :
    let ok (k : Kind) (b : Beh) (ops : List Op) : Bool :=
      !launchCrashes k b && never unsafeReq k b ops && never killArmed k b ops && never killLive k b ops &&
        never killHelpers k b ops
    ok .basic .ok [.tick, .start, .await, .stop, .start, .await, .kill] = true ∧
    ok .ctl .occstay [.conf, .start, .kill] = true ∧
    ok .ctl .occign [.kill] = true ∧
    ok .hook .fail [.tick, .trigger, .await, .trigger, .await, .kill] = true := by decide
