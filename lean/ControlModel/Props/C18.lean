/-
  Props/C18 — "A restarted core kills what it no longer owns, and only that".

  Model: Model/Reconcile.lean — lives of the core (in-memory framework id, roster, taskman channel), the
  runtime entry `mesos_fid`, the master (subscription stream, task table), and the steps
  coreStart | coreKill | coreTerm | subscribe | drop | read | handle | launch | status | reconUpdate |
  release | releaseBegin | releaseEnd | snapshot (a teardown is `release`, or its two roster writes
  `releaseBegin … releaseEnd` with ANY steps in between: the KILL calls are in flight and deployments of other
  environments complete meanwhile). A history is ANY `List Step` (a step that is not enabled does nothing), from ANY
  initial content `kv0` of the runtime entry; all theorems quantify over all of them. What the core did is
  the log `(run c W h (init kv0)).log`; the property is the conjunction of the decidable log predicates of
  Spec/C18.lean, which the driver also evaluates on the log of the REAL core.

  Configurations: `unguardedCfg` = the code at the pinned commit, `guardedCfg` = with the roster test of
  notes/C18.fix.patch. `Spec.C18.codeCfg` is read off go/ast facts regenerated on every run
  (Gen/C18Facts.lean); `C18_cfg_is_code` says it IS one of the two, so every theorem below applies to the
  code as it is now, before and after the patch; any other change of the anchored code (no RECONCILE on
  SUBSCRIBED, `mesos_fid` not read or not written, a different KILL guard, another state list, …) makes
  `C18_cfg_is_code` false and the check fail, pointing here.

  "Owned" is ground truth, not the roster: `St.held` = what the live environments hold (set by `launch`, dropped
  by the teardown of that environment, gone with the process — `C18_held_until_released`). A KILL's `owned` flag is
  "locked in the roster OR held". That the two coincide — the roster is complete and sound, also across split
  teardowns — is a theorem about the code's way of writing the roster (`C18_roster_complete`, `C18_owned_is_held`:
  hypothesis `snapshotRewrite = false`, tied to the go/ast facts by `C18_kill_tasks_roster_writes_is_code`), and
  it is what `C18_owned_spared_fixed` rests on: `C18_stale_snapshot_kills_owned` refutes it for a doKillTasks
  that writes a snapshot taken before its KILL calls back after them.

  Assumptions spelled out as hypotheses:
    * `∀ n t, W.answers n t = true` — the master answers an implicit reconciliation with EVERY non-terminal
      task of the framework (Mesos as documented; `C18_orphans_need_complete_answers` shows it cannot be dropped);
    * `h.all (stepOk c)` — the master reports no task in a non-terminal state that the KILL branch does not
      list (for the code: TASK_UNREACHABLE, only sent to PARTITION_AWARE frameworks; `C18_not_partition_aware_is_code`);
    * `noReconnWhileOwning` — only for `C18_owned_spared_partial`: FORCED by the code, see the finding.

  "Every task of its previous life that Mesos still reports as alive is killed" is stated per reconciliation
  ROUND (`C18_orphans_killed_every_round`): the KILL of an orphan listed at a quiet point is newer than the
  latest RECONCILE call of the current life. Nothing in the model obliges a task to die when KILLed, so the
  histories include orphans that outlive any number of KILLs and reconnections.

  SEVERAL SUBSCRIPTIONS IN ONE LIFE, INCOMPLETE ANSWERS (last section but one): Model/Resubscribe.lean layers
  `hide t | unhide t | mute | unmute` over these steps (what the master can report in answer to a RECONCILE becomes
  state; `C18_resub_conservative`) and records the SUBSCRIBE/SUBSCRIBED pairs. There the obligation is attached to
  the SUBSCRIPTION (`orphansKilledEachSubscription`: the KILL is newer than the latest SUBSCRIBE of the life), the
  completeness assumption shrinks to `noLateOrphans` (nothing the master reports at a quiet point was left out of
  the CURRENT subscription's answer — which the code does not guarantee: finding `late_orphan_never_reconciled`), and
  identity is stated on presented AND assigned ids (`identityKept`, `oneFramework`).

  STATUS UPDATES WHOSE OPTIONAL FIELDS ARE ABSENT (last section): Model/SparseStatus.lean layers the step
  `handleSparse noAgent noExec` — taskman handles a message that lacks agent_id / executor_id, as an answer the master
  builds to a reconciliation may — over all of the above. "Owned" as the rest of the core reads it is Task.isLocked(), which
  needs both ids: the tasks of live environments must still be locked after any such answer, else the next sweep of unowned
  tasks (creation of another environment, CleanupTasks, shutdown) kills them — "and only that". With the guards the code
  has (`C18_status_id_copy_is_code`: go/ast facts Gen.TaskIds) the layer is conservative (`C18_sparse_updates_conservative`),
  so for ALL histories with any number of sparse updates: every held task is in the roster, locked
  (`C18_owned_stay_locked_under_sparse_updates`), at every quiet point (`C18_held_locked_at_every_quiet_point`: the new Spec
  clause `heldLocked`), no reconciliation answer kills a roster task (`C18_roster_tasks_never_killed_under_sparse_updates`),
  the whole Spec holds (`C18_code_meets_spec_under_sparse_updates`). Without the guards — NOT the code —
  `C18_unguarded_id_copy_unlocks_owned`: one sparse reconciliation answer after a mere reconnection and the task of the live
  environment is held but not locked; `C18_complete_updates_hide_the_difference`: complete answers cannot tell.
-/
import ControlModel.Proofs.Reconcile
import ControlModel.Proofs.Resubscribe
import ControlModel.Proofs.SparseStatus

open Reconcile Spec.C18

/-! ## the model's configuration IS what the code does now -/

/-- The configuration read off the regenerated facts is the code as pinned or the code with the proposed
    roster test — nothing else. -/
theorem C18_cfg_is_code : codeCfg = unguardedCfg ∨ codeCfg = guardedCfg := by decide

/-- The KILL of the reconciliation branch is guarded by a roster lookup exactly when the model's
    `rosterGuard` says so (today: it is not). -/
theorem C18_kill_guard_is_code :
    codeCfg.rosterGuard = (Gen.C18.killGuard == "reason+state+notInRoster") ∧
    (Gen.C18.killGuard = "reason+state" ∨ Gen.C18.killGuard = "reason+state+notInRoster") ∧
    Gen.C18.killReason = "REASON_RECONCILIATION" ∧ Gen.C18.killCallsInHandleMessage = 1 := by decide

/-- The states listed in the KILL branch are the model's `killStates`. -/
theorem C18_kill_states_is_code :
    Gen.C18.killStates.map stateOfName = unguardedCfg.killStates.map some := by decide

/-- A RECONCILE call — implicit: no task list — is issued on SUBSCRIBED, after TrackSubscription stored the id,
    and on EVERY SUBSCRIBED: the handler is straight-line code and nothing next to it outlives one event (no
    "first subscription only", no rate limit) — the model's `read` of a SUBSCRIBED always reconciles. -/
theorem C18_reconcile_on_subscribed_is_code :
    (Gen.C18.reconcileOnSubscribed && Gen.C18.reconcileIsImplicit && Gen.C18.trackSubscriptionBeforeReconcile &&
     Gen.C18.reconcileOnEverySubscribed) = true := by decide

/-- The framework-id store is seeded from, and written back to, the runtime entry aliecs/mesos_fid, it is the
    store SUBSCRIBE and every other call take the id from, the failover timeout is set (so SUBSCRIBE carries
    the id), and every life starts with an empty roster. -/
theorem C18_fid_store_is_code :
    (Gen.C18.fidSeededFromRuntimeEntry && Gen.C18.fidWrittenBackToRuntimeEntry && Gen.C18.fidStoreFeedsSubscribe &&
     Gen.C18.failoverTimeoutSet && Gen.C18.failoverDefaultPositive && Gen.C18.rosterFreshPerLife) = true ∧
    Gen.C18.fidRuntimeKey = "aliecs/mesos_fid" := by decide

/-- The framework does not declare PARTITION_AWARE: the master reports TASK_LOST, never TASK_UNREACHABLE. -/
theorem C18_not_partition_aware_is_code : Gen.C18.partitionAware = false := by decide

/-- Both configurations satisfy what the invariants need. -/
theorem C18_cfg_sound (c : Cfg) (hc : c = unguardedCfg ∨ c = guardedCfg) : Sound c := by
  rcases hc with rfl | rfl <;>
    exact ⟨rfl, rfl, rfl, rfl, by decide, by intro st; cases st <;> decide, rfl⟩

/-- doKillTasks writes the roster as the model's `releaseBegin`/`releaseEnd` do — before its KILL calls only
    `m.roster.updateTasks(m.roster.filtered(…))` (a fresh read, filtered, written at once), after a failed call
    `m.roster.append(<that task>)`, nothing else, nothing after the loop — and the roster has no other writer than
    acquireTasks' `append` (the model's `launch`): the model's configuration has `snapshotRewrite = false`. -/
theorem C18_kill_tasks_roster_writes_is_code :
    Gen.C18.killTasksRosterWrites = "filter-then-append" ∧
    Gen.C18.rosterWriteSites = ["acquireTasks:append", "doKillTasks:append", "doKillTasks:updateTasks", "doKillTasks:updateTasks"] ∧
    codeCfg.snapshotRewrite = false := by decide

/-! ## same identity -/

/-- **Same identity.** Once a framework id is persisted (by an earlier installation: `kv0`; or by any life
    of this history), every later SUBSCRIBE — of the same life after a reconnection, or of any later life —
    carries it, and the persisted id never changes. For ALL histories. -/
theorem C18_same_identity (c : Cfg) (W : World) (hseed : c.seedFid = true) (hfo : c.failover = true)
    (kv0 : Option Nat) (h : List Step) :
    sameIdentity (run c W h (init kv0)).log = true ∧ persistedOnce (run c W h (init kv0)).log = true :=
  let i := invA_run c W hseed hfo h _ (invA_init kv0)
  ⟨i.same, i.once⟩

/-- The same, read on the state: whatever is in `mesos_fid` is the id in memory of a live core and the id of
    the stream it is subscribed on. -/
theorem C18_identity_state (c : Cfg) (W : World) (hseed : c.seedFid = true) (hfo : c.failover = true)
    (kv0 : Option Nat) (h : List Step) (f : Nat) (hkv : (run c W h (init kv0)).kv = some f) :
    ((run c W h (init kv0)).alive = true → (run c W h (init kv0)).fidMem = some f) ∧
    ((run c W h (init kv0)).stream = none ∨ (run c W h (init kv0)).stream = some f) :=
  let i := invA_run c W hseed hfo h _ (invA_init kv0)
  ⟨fun ha => i.mem ha f hkv, i.stream f hkv⟩

/-- … and a core that is connected HAS persisted its id (write-back), so the next life finds it. -/
theorem C18_identity_persisted (c : Cfg) (W : World) (hc : Sound c) (hW : ∀ n t, W.answers n t = true)
    (kv0 : Option Nat) (h : List Step) (hh : h.all (stepOk c) = true)
    (hconn : (run c W h (init kv0)).alive = true ∧ (run c W h (init kv0)).connected = true) :
    ∃ f, (run c W h (init kv0)).kv = some f ∧ (run c W h (init kv0)).stream = some f := by
  have i := inv_run c W hc hW h hh _ (inv_init c kv0)
  generalize run c W h (init kv0) = s at *
  obtain ⟨ha, hcn⟩ := hconn
  simp only [St.connected, Bool.and_eq_true, Option.isSome_iff_exists, Option.isNone_iff_eq_none] at hcn
  obtain ⟨⟨f, hf⟩, hh⟩ := hcn
  exact ⟨f, by rw [← i.b.mem ha]; exact i.b.conn ha f hf (by simp [hh]), hf⟩

/-! ## orphans are killed -/

/-- **Orphans killed.** Whenever the system is quiescent in some life (connected, nothing in flight), every
    task of an EARLIER life that the master still holds in a state the KILL branch lists has received a KILL
    from the current life, caused by the reconciliation answer. For ALL histories — any number of lives,
    crashes (SIGKILL) and orderly shutdowns (SIGTERM) at any point of any environment's life, connection drops
    in between — under the assumption that the master answers implicit reconciliation completely. -/
theorem C18_orphans_killed (c : Cfg) (W : World) (hc : Sound c) (hW : ∀ n t, W.answers n t = true)
    (kv0 : Option Nat) (h : List Step) (hh : h.all (stepOk c) = true) :
    orphansKilled (run c W h (init kv0)).log = true :=
  orphansKilled_of_eachRound _ (inv_run c W hc hW h hh _ (inv_init c kv0)).q.spec

/-- **Orphans killed after EVERY reconciliation round** (strictly stronger than `C18_orphans_killed`, see
    `C18_every_round_implies_once`). Whenever the system is quiescent in some life, every task of an earlier
    life that the master still holds in a listed state has received a KILL from the current life that is
    NEWER than the latest RECONCILE call of that life: the KILL answers the latest reconciliation answer
    reporting the task alive. So an orphan that survives its KILL — the call was lost with the connection, the
    agent is partitioned, the task hangs in TASK_KILLING — is killed again after every re-subscription, for as
    long as the master reports it; a core that sends "one KILL per orphan" does not satisfy this
    (`C18_one_kill_per_orphan_is_not_enough`). For ALL histories, same hypotheses as `C18_orphans_killed`. -/
theorem C18_orphans_killed_every_round (c : Cfg) (W : World) (hc : Sound c) (hW : ∀ n t, W.answers n t = true)
    (kv0 : Option Nat) (h : List Step) (hh : h.all (stepOk c) = true) :
    orphansKilledEachRound (run c W h (init kv0)).log = true :=
  (inv_run c W hc hW h hh _ (inv_init c kv0)).q.spec

/-- The per-round predicate implies the per-task one, on every log (also on the log of the real core). -/
theorem C18_every_round_implies_once (log : List Out) (h : orphansKilledEachRound log = true) :
    orphansKilled log = true :=
  orphansKilled_of_eachRound log h

/-- The same on the state instead of the observer's snapshots: in a quiescent state no task of an earlier
    life is alive (killable) without a KILL of the current life in the log — sent since the latest RECONCILE
    call of the current life. -/
theorem C18_no_task_survives_unowned (c : Cfg) (W : World) (hc : Sound c) (hW : ∀ n t, W.answers n t = true)
    (kv0 : Option Nat) (h : List Step) (hh : h.all (stepOk c) = true) :
    let s := run c W h (init kv0)
    s.alive = true → s.connected = true → s.queue = [] → s.inbox = [] →
    ∀ t ∈ s.tasks, t.life < s.life → c.killable t.state = true →
      ∃ owned, Out.kill s.life t.id (.update .recon) owned ∈ sinceReconcile s.life s.log ∧
               Out.kill s.life t.id (.update .recon) owned ∈ s.log := by
  intro s ha hcn hq hi t ht hlt hk
  have i := inv_run c W hc hW h hh _ (inv_init c kv0)
  simp only [St.connected, Bool.and_eq_true] at hcn
  rcases i.q.orphan ha hcn.1 t ht hlt hk with h1 | ⟨st, _, h2 | h2⟩ | h3
  · have h0 : s.hello.isNone = true := hcn.2
    have h1' : s.hello.isSome = true := h1
    cases hh' : s.hello with
    | none => rw [hh'] at h1'; cases h1'
    | some g => rw [hh'] at h0; cases h0
  · rw [hq] at h2; cases h2
  · rw [hi] at h2; cases h2
  · obtain ⟨o, ho⟩ := h3
    exact ⟨o, ho, sinceReconcile_sub _ _ _ ho⟩

/-- A history in which an orphan SURVIVES its KILL (nothing obliges a task to die): life 2 kills task 0 after
    its first reconciliation, the stream is dropped, life 2 re-subscribes and reconciles again, the master
    reports the task RUNNING again. -/
def C18_witness_survivor : List Step :=
  [.coreStart, .subscribe, .read, .launch 0 0, .status 0 .running, .read, .handle, .coreKill,
   .coreStart, .subscribe, .read, .read, .handle, .snapshot,
   .drop, .subscribe, .read, .read, .handle, .snapshot]

/-- What the model's core (= the code) does on it: TWO KILLs of life 2 for task 0, one per round. -/
theorem C18_survivor_is_killed_again :
    ((run unguardedCfg World.complete C18_witness_survivor (init none)).log.filter (isReconKill 2 0)).length = 2 ∧
    ((run guardedCfg World.complete C18_witness_survivor (init none)).log.filter (isReconKill 2 0)).length = 2 := by
  decide

/-- "One KILL per orphan task is enough" is NOT what the property asks: the log of a core that behaves like
    the model except that it skips the KILL for a task it has KILLed before (here: the model's log on the
    survivor history with the second KILL removed) satisfies the per-task predicate but not the per-round
    one. This is why `Spec.C18.all` contains `orphansKilledEachRound`. -/
theorem C18_one_kill_per_orphan_is_not_enough :
    let log := run unguardedCfg World.complete C18_witness_survivor (init none) |>.log
    let once := log.eraseP (isReconKill 2 0)   -- newest first: drops the SECOND KILL
    orphansKilled once = true ∧ orphansKilledEachRound once = false ∧ orphansKilledEachRound log = true := by
  decide

/-- … and such a task is never in the roster of the new life (it is "unowned"): the roster only holds tasks
    launched by the current life. -/
theorem C18_orphans_are_unowned (c : Cfg) (W : World) (hc : Sound c) (hW : ∀ n t, W.answers n t = true)
    (kv0 : Option Nat) (h : List Step) (hh : h.all (stepOk c) = true) :
    let s := run c W h (init kv0)
    ∀ t ∈ s.tasks, t.life < s.life → inRoster s.roster t.id = false := by
  intro s t ht hlt
  exact not_inRoster_of_old c s (inv_run c W hc hW h hh _ (inv_init c kv0)).b t ht hlt

/-- The assumption on the master cannot be dropped: if the answer omits a task, it survives. -/
theorem C18_orphans_need_complete_answers :
    ¬ ∀ (W : World) (h : List Step), orphansKilled (run unguardedCfg W h (init none)).log = true := by
  intro hall
  have := hall { answers := fun _ _ => false }
    [.coreStart, .subscribe, .read, .launch 0 0, .status 0 .running, .read, .handle,
     .coreKill, .coreStart, .subscribe, .read, .snapshot]
  revert this; decide

/-! ## owned tasks are spared — FALSE of the code as pinned -/

/-- FULL-STRENGTH statement (kept visible): reconciliation answers — after a restart or after a mere
    reconnection — never cause a KILL of a task that is locked in the roster. -/
def C18_owned_spared_full (c : Cfg) : Prop :=
  ∀ (W : World) (kv0 : Option Nat) (h : List Step), ownedSpared (run c W h (init kv0)).log = true

/-- Witness of the finding: one life, one environment with one healthy task, the master drops the stream,
    mesos-go re-subscribes, the core reconciles, the master reports the task RUNNING, the core KILLs it. -/
def C18_witness_reconnect : List Step :=
  [.coreStart, .subscribe, .read, .launch 0 0, .status 0 .running, .read, .handle,
   .drop, .subscribe, .read, .read, .handle]

/-- **Finding `reconnect_kills_owned`.** The code as pinned violates the full statement. -/
theorem C18_finding_reconnect_kills_owned : ¬ C18_owned_spared_full unguardedCfg := by
  intro hfull
  have := hfull World.complete none C18_witness_reconnect
  revert this; decide

/-- What the code does guarantee: as long as the connection is never (re-)established while the roster holds
    a locked task (and the master volunteers no reconciliation update for one), no reconciliation answer
    kills an owned task — in particular after every RESTART, where the roster is empty when the new life
    subscribes. For ALL histories satisfying the hypothesis, both configurations. -/
theorem C18_owned_spared_partial (c : Cfg) (W : World) (hseed : c.seedFid = true) (hfo : c.failover = true)
    (hrw : c.snapshotRewrite = false)
    (kv0 : Option Nat) (h : List Step) (hno : noReconnWhileOwning c W h (init kv0) = true) :
    ownedSpared (run c W h (init kv0)).log = true :=
  (inv_run_P c W hseed hfo hrw h _ hno (invA_init kv0) (by cases kv0 <;> simp [init]) (invR_init kv0) (invP_init kv0)).spec

/-! ## the roster is complete: what the roster test rests on -/

/-- **The roster is complete.** In every reachable state, every task that a live environment holds — launched
    in this life, its environment not torn down since (`C18_held_until_released`) — has a roster entry of that
    environment, locked. For ALL histories, in particular those in which a teardown's two roster writes
    (`releaseBegin e … releaseEnd e`, the KILL calls in flight between them) are interleaved with `launch`es of
    other environments, further teardowns, connection drops (the KILLs then fail and the tasks are appended back)
    and restarts. Hypothesis: the code appends failed tasks back one by one instead of writing back a roster
    value read before the calls (`C18_kill_tasks_roster_writes_is_code`); `C18_roster_needs_append_back` shows
    it cannot be dropped. -/
theorem C18_roster_complete (c : Cfg) (hrw : c.snapshotRewrite = false) (W : World) (kv0 : Option Nat) (h : List Step) :
    let s := run c W h (init kv0)
    ∀ t e, (t, e) ∈ s.held → ∃ r ∈ s.roster, r.id = t ∧ r.env = e ∧ r.locked = true := by
  intro s t e hm
  exact (invR_run c W hrw h _ (invR_init kv0)).complete (t, e) hm

/-- … and sound: "locked in the roster" and "held by a live environment" are the same thing in every reachable
    state, so the roster test of the KILL branch decides ownership correctly. -/
theorem C18_owned_is_held (c : Cfg) (hrw : c.snapshotRewrite = false) (W : World) (kv0 : Option Nat) (h : List Step) :
    let s := run c W h (init kv0)
    ∀ t, lockedIn s.roster t = heldBy s.held t := by
  intro s t
  exact (heldBy_eq_lockedIn s (invR_run c W hrw h _ (invR_init kv0)) t).symm

/-- What `held` means, without reference to the roster: a task stays held by its environment `e` as long as
    the process lives on and `e` is not torn down (`release e` / `releaseBegin e`); `launch` makes it held. -/
theorem C18_held_until_released (c : Cfg) (W : World) (s : St) (x : Step) (t e : Nat) (hm : (t, e) ∈ s.held)
    (hal : (step c W s x).alive = true) (hl : (step c W s x).life = s.life)
    (h1 : x ≠ .release e) (h2 : x ≠ .releaseBegin e) : (t, e) ∈ (step c W s x).held := by
  cases x with
  | release e' =>
    have : e' ≠ e := fun h => h1 (h ▸ rfl)
    simp only [step] at hal ⊢; split <;> (try split) <;> simp_all [List.mem_filter] <;> grind
  | releaseBegin e' =>
    have : e' ≠ e := fun h => h2 (h ▸ rfl)
    simp only [step] at hal ⊢; split <;> simp_all [List.mem_filter] <;> grind
  | coreStart => grind [step, St.exit]
  | coreKill => grind [step, St.exit]
  | coreTerm => grind [step, St.exit]
  | subscribe => grind [step, St.exit]
  | drop => grind [step, St.exit]
  | read => grind [step, St.exit]
  | handle => grind [step, St.exit]
  | launch e' t' => grind [step, St.exit]
  | status t' st => grind [step, St.exit]
  | reconUpdate t' st => grind [step, St.exit]
  | releaseEnd e' => grind [step, St.exit]
  | snapshot => grind [step, St.exit]

theorem C18_launch_holds (c : Cfg) (W : World) (s : St) (e t f : Nat) (hal : s.alive = true) (hs : s.stream = some f)
    (hh : s.hello = none) (hf : t ∉ s.seen) :
    (t, e) ∈ (step c W s (.launch e t)).held ∧ lockedIn (step c W s (.launch e t)).roster t = true := by
  simp [step, hal, hs, hh, hf, lockedIn]

/-- A teardown without anything in between IS the two halves one after the other: `release e` =
    `releaseBegin e` then `releaseEnd e` (no other teardown of `e` in flight), in both configurations and also
    with a snapshot written back — the difference only shows when something is interleaved. -/
theorem C18_release_is_split (c : Cfg) (W : World) (s : St) (e : Nat)
    (hno : s.tearing.all (fun d => d.env != e) = true) :
    step c W (step c W s (.releaseBegin e)) (.releaseEnd e) = step c W s (.release e) := by
  by_cases hal : s.alive = true
  case neg => simp [step, hal]
  have hfind : s.tearing.find? (fun d => d.env == e) = none := by
    apply List.find?_eq_none.mpr
    intro d hd
    have := List.all_eq_true.mp hno d hd
    simpa using this
  have herase : ∀ d : Teardown, d.env = e → (s.tearing ++ [d]).eraseP (fun d => d.env == e) = s.tearing := by
    intro d hd
    rw [List.eraseP_append_right]
    · simp [hd]
    · intro d' hd'
      have := List.all_eq_true.mp hno d' hd'
      simpa using this
  by_cases hs : s.stream.isSome = true
  · simp [step, hal, hs, hfind, List.find?_append, herase, killsFor, putBack, Function.comp_def]
  · simp [step, hal, hs, hfind, List.find?_append, herase]
    intro a _ ha he
    cases a; simp_all [putBack]

/-- A teardown of environment 0 whose KILL call is in flight while environment 1 is deployed; then the stream
    is dropped, the core re-subscribes and the master reports task 1 (owned, running) in its answer. -/
def C18_witness_overlap : List Step :=
  [.coreStart, .subscribe, .read, .launch 0 0, .status 0 .running, .read, .handle,
   .releaseBegin 0, .launch 1 1, .status 1 .running, .read, .handle, .releaseEnd 0, .status 0 .killed, .read, .handle,
   .drop, .subscribe, .read, .read, .handle]

/-- `C18_roster_complete` needs its hypothesis: a doKillTasks that writes the roster value it read before its
    KILL calls back after them (`staleCfg`) loses the task deployed in between — held by environment 1, running,
    and no longer in the roster. -/
theorem C18_roster_needs_append_back :
    let s := run staleCfg World.complete (C18_witness_overlap.take 13) (init none)
    (1, 1) ∈ s.held ∧ inRoster s.roster 1 = false ∧
    inRoster (run guardedCfg World.complete (C18_witness_overlap.take 13) (init none)).roster 1 = true := by
  decide

/-! ## owned tasks are spared — by the roster test, BECAUSE the roster is complete -/

/-- With the roster test of notes/C18.fix.patch the full statement holds, for ALL histories, with no
    hypothesis on reconnections — given that the roster is complete (`C18_roster_complete`: failed KILLs are
    appended back, no snapshot is rewritten), so that "not in the roster" implies "not held by any environment". -/
theorem C18_owned_spared_fixed (c : Cfg) (hg : c.rosterGuard = true) (hrw : c.snapshotRewrite = false) :
    C18_owned_spared_full c := by
  intro W kv0 h
  exact (run_preserves (P := fun s => InvR s ∧ ownedSpared s.log = true) c W
    (fun s x hs => ⟨invR_step c W hrw s x hs.1, ownedSpared_step_guarded c W hg s x hs.1 hs.2⟩) h _
    ⟨invR_init kv0, by cases kv0 <;> simp [init, ownedSpared]⟩).2

/-- … and the roster test ALONE is not enough: with a doKillTasks that rewrites a stale snapshot, the witness
    history ends with a KILL — caused by the reconciliation answer after the re-subscription — of task 1, which
    environment 1 holds. (This is the class of regressions "the roster forgets an owned task": the KILL branch
    then takes the task for a leftover of a previous life.) -/
theorem C18_stale_snapshot_kills_owned : ¬ C18_owned_spared_full staleCfg := by
  intro hfull
  have := hfull World.complete none C18_witness_overlap
  revert this; decide

/-- The patch does not cost the other half: the guarded configuration still kills every orphan
    (instance of `C18_orphans_killed`; stated because it is the point of the patch). -/
theorem C18_fixed_still_kills_orphans (W : World) (hW : ∀ n t, W.answers n t = true)
    (kv0 : Option Nat) (h : List Step) (hh : h.all (stepOk guardedCfg) = true) :
    orphansKilled (run guardedCfg W h (init kv0)).log = true :=
  C18_orphans_killed guardedCfg W (C18_cfg_sound _ (Or.inr rfl)) hW kv0 h hh

/-- Ordinary status updates (reason ≠ RECONCILIATION) never cause a KILL. For ALL histories. -/
theorem C18_updates_never_kill (c : Cfg) (hg : c.reasonGuard = true) (W : World) (kv0 : Option Nat) (h : List Step) :
    updatesNeverKill (run c W h (init kv0)).log = true :=
  run_preserves (P := fun s => updatesNeverKill s.log = true) c W
    (fun s x hs => updatesNeverKill_step c W hg s x hs) h _ (by cases kv0 <;> simp [init, updatesNeverKill])

/-! ## several subscriptions in one life, reconciliation answers that leave tasks out (Model/Resubscribe.lean) -/

/-- The layered model is a conservative extension: a history without `hide`/`unhide`/`mute`/`unmute` is a
    history of Model/Reconcile.lean against a master that answers completely — every theorem above is a theorem
    about the layered model too. -/
theorem C18_resub_conservative (c : Cfg) (kv0 : Option Nat) (h : List Step) :
    (rrun c (h.map .base) (rinit kv0)).base = run c World.complete h (init kv0) :=
  rrun_plain c h (rinit kv0) rfl rfl

/-- **Orphans killed after EVERY subscription** (old model, complete answers): at every quiet point the KILL of
    an orphan the master holds alive is NEWER than the latest SUBSCRIBE of the current life — a re-subscription
    starts the obligation afresh, whatever earlier subscriptions of the life did. For ALL histories. -/
theorem C18_orphans_killed_every_subscription (c : Cfg) (W : World) (hc : Sound c) (hW : ∀ n t, W.answers n t = true)
    (kv0 : Option Nat) (h : List Step) (hh : h.all (stepOk c) = true) :
    orphansKilledEachSubscription (run c W h (init kv0)).log = true := by
  rw [world_complete_of W hW, ← C18_resub_conservative c kv0 h]
  exact (orphanSpec_rrun c hc _ (by simpa [List.all_map, Function.comp_def, rstepOk] using hh) _ (rinv_init c kv0)
    (noLate_plain c hc.recon h _ rfl rfl rfl) (orphanSpec_init kv0)).1

/-- The per-subscription predicate implies the per-task one, on every log (also on the log of the real core). -/
theorem C18_every_subscription_implies_once (log : List Out) (h : orphansKilledEachSubscription log = true) :
    orphansKilled log = true :=
  orphansKilled_of_eachSubscription log h

/-- FULL-STRENGTH statement (kept visible): against a master whose reconciliation answers may leave tasks out
    and whose scheduler API may lose a RECONCILE — at any point, any number of times, any number of restarts and
    reconnections — at every quiet point every task of an earlier life that the master REPORTS alive has received
    a KILL from the current life since the current life last subscribed. -/
def C18_visible_orphans_killed_full (c : Cfg) : Prop :=
  ∀ (kv0 : Option Nat) (h : List RStep), h.all (rstepOk c) = true →
    orphansKilledEachSubscription (rrun c h (rinit kv0)).base.log = true

/-- An orphan whose agent is away when life 2 reconciles (so the answer leaves it out), and back afterwards:
    reported alive at the next quiet point — and the core, which asks on SUBSCRIBED only, never asks again. -/
def C18_witness_late : List RStep :=
  [.base .coreStart, .base .subscribe, .base .read, .base (.launch 0 0), .base (.status 0 .running), .base .read, .base .handle,
   .hide 0, .base .coreKill, .base .coreStart, .base .subscribe, .base .read, .base .snapshot,
   .unhide 0, .base .snapshot]

/-- **Finding `late_orphan_never_reconciled`.** The code violates the full statement: it reconciles once per
    SUBSCRIBED event and at no other time (no timer, no retry of a lost RECONCILE), so a task of a previous life
    that the master could not report at that moment survives unowned until the connection happens to drop. -/
theorem C18_finding_late_orphan_never_reconciled : ¬ C18_visible_orphans_killed_full guardedCfg := by
  intro hfull
  have := hfull none C18_witness_late (by decide)
  revert this; decide

/-- What the code does guarantee against such a master (`C18_visible_orphans_killed_partial`): as long as
    whatever the master reports alive at a quiet point could already be reported when the core last subscribed
    (`noLateOrphans`: no reported orphan is among the tasks the answer to the current subscription's RECONCILE
    left out), every reported orphan has a KILL newer than the latest SUBSCRIBE (and than the latest RECONCILE:
    the per-round predicate holds too). No hypothesis on EARLIER
    subscriptions: their answers may have been incomplete or lost in any way — a task missed by the first answer
    of the life (or of several lives) is killed when a later subscription's answer shows it. For ALL histories of
    the layered model. -/
theorem C18_visible_orphans_killed_partial (c : Cfg) (hc : Sound c) (kv0 : Option Nat) (h : List RStep)
    (hh : h.all (rstepOk c) = true) (hno : noLateOrphans c h (rinit kv0) = true) :
    orphansKilledEachSubscription (rrun c h (rinit kv0)).base.log = true ∧
    orphansKilledEachRound (rrun c h (rinit kv0)).base.log = true :=
  orphanSpec_rrun c hc h hh (rinit kv0) (rinv_init c kv0) hno (orphanSpec_init kv0)

/-- The same on the state: in a quiescent state every task of an earlier life that is alive (killable) is either
    KILLed since the latest SUBSCRIBE of the current life, or was left out of the answer to the current
    subscription's RECONCILE — with NO hypothesis about late orphans. -/
theorem C18_orphan_killed_or_missed (c : Cfg) (hc : Sound c) (kv0 : Option Nat) (h : List RStep)
    (hh : h.all (rstepOk c) = true) :
    let r := rrun c h (rinit kv0)
    r.base.quiescent = true →
    ∀ t ∈ r.base.tasks, t.life < r.base.life → c.killable t.state = true →
      (∃ owned, Out.kill r.base.life t.id (.update .recon) owned ∈ sinceSubscribe r.base.life r.base.log) ∨
      t.id ∈ r.missed := by
  intro r hq t ht hlt hk
  have i := rinv_rrun c hc h hh _ (rinv_init c kv0)
  simp only [St.quiescent, St.connected, Bool.and_eq_true, List.isEmpty_iff, Option.isNone_iff_eq_none] at hq
  obtain ⟨⟨⟨hal, hst, hhel⟩, hqu⟩, hin⟩ := hq
  rcases i.v hal hst t ht hlt hk with h1 | ⟨st, _, h2 | h2⟩ | h3 | h4
  · rw [hhel] at h1; cases h1
  · rw [hqu] at h2; cases h2
  · rw [hin] at h2; cases h2
  · obtain ⟨o, ho, _⟩ := h3
    exact Or.inl ⟨o, ho⟩
  · exact Or.inr h4

/-- The class the property needs and a core that reconciles on its first SUBSCRIBED only gets wrong: task 0's
    agent is away when life 2 subscribes and reconciles, it registers again while the stream is down, life 2
    re-subscribes and reconciles AGAIN, the master reports the task, the core KILLs it. -/
def C18_witness_missed : List RStep :=
  [.base .coreStart, .base .subscribe, .base .read, .base (.launch 0 0), .base (.status 0 .running), .base .read, .base .handle,
   .hide 0, .base .coreKill, .base .coreStart, .base .subscribe, .base .read, .base .snapshot,
   .unhide 0, .base .drop, .base .subscribe, .base .read, .base .read, .base .handle, .base .snapshot]

/-- What the model's core (= the code) does on it: the first snapshot of life 2 reports no orphan (the master
    cannot see task 0), the last one reports it, with a KILL of life 2 that is newer than the second SUBSCRIBE;
    there are two RECONCILE calls of life 2, one per SUBSCRIBED. -/
theorem C18_missed_orphan_killed_after_resubscription :
    let r := rrun guardedCfg C18_witness_missed (rinit none)
    C18_witness_missed.all (rstepOk guardedCfg) = true ∧ noLateOrphans guardedCfg C18_witness_missed (rinit none) = true ∧
    r.base.log.head? = some (.snap 2 [0]) ∧ Out.snap 2 [] ∈ r.base.log ∧
    (sinceSubscribe 2 r.base.log).any (isReconKill 2 0) = true ∧
    (r.base.log.filter (· == .reconcile 2)).length = 2 ∧ allR r.base.log r.subs = true := by
  decide

/-- "Reconcile after the first SUBSCRIBED of a life" is NOT what the property asks. The log of a core that
    behaves like the model except that it sends no RECONCILE (hence no KILL) after a RE-subscription — here: the
    model's log on the survivor history `C18_witness_survivor` with the second RECONCILE and the second KILL of
    life 2 removed — satisfies the per-task predicate and even the per-round one (its latest RECONCILE is the
    first one, and the KILL that followed it is there) but not the per-subscription one: the orphan is reported
    alive under the second subscription and nothing was done about it. This is why `Spec.C18.all` contains
    `orphansKilledEachSubscription`. -/
theorem C18_reconcile_once_per_life_is_not_enough :
    let log := run unguardedCfg World.complete C18_witness_survivor (init none) |>.log
    let once := (log.eraseP (isReconKill 2 0)).eraseP (· == .reconcile 2)   -- newest first: the SECOND round
    orphansKilled once = true ∧ orphansKilledEachRound once = true ∧ orphansKilledEachSubscription once = false ∧
    orphansKilledEachSubscription log = true := by
  decide

/-- **Identity kept over every reconnection.** Every SUBSCRIBE made after a SUBSCRIBED that the core accepted
    presents the framework id the master assigned then — in the SAME life after any number of dropped streams
    (a core in its first life, nothing persisted when it started, included: what it presents is the id it was
    given on its first subscription), and in every later life — and all accepted subscriptions are for one and
    the same framework id; in the log: every SUBSCRIBE after a `persist` carries that id, which never changes.
    For ALL histories of the layered model, any initial content of `mesos_fid`. -/
theorem C18_identity_kept_over_reconnections (c : Cfg) (hseed : c.seedFid = true) (hpers : c.persistFid = true)
    (hfo : c.failover = true) (kv0 : Option Nat) (h : List RStep) :
    identityKept (rrun c h (rinit kv0)).subs = true ∧ oneFramework (rrun c h (rinit kv0)).subs = true ∧
    sameIdentity (rrun c h (rinit kv0)).base.log = true ∧ persistedOnce (rrun c h (rinit kv0)).base.log = true := by
  have i := invS_rrun c hseed hpers hfo h _ (invS_init kv0)
  have a := rrun_preserves (P := fun r => InvA r.base) c (fun r x hr => invA_rstep c hseed hfo r x hr) h (rinit kv0) (invA_init kv0)
  exact ⟨i.kept, i.one, a.same, a.once⟩

/-- The same on the state: a live core that has ever had a subscription accepted holds the id assigned then in
    memory — the id its NEXT SUBSCRIBE presents (`step … .subscribe` carries `fidMem`) — and the runtime entry
    holds it too. -/
theorem C18_resubscribe_presents_assigned_id (c : Cfg) (hseed : c.seedFid = true) (hpers : c.persistFid = true)
    (hfo : c.failover = true) (kv0 : Option Nat) (h : List RStep) :
    let r := rrun c h (rinit kv0)
    ∀ y ∈ r.subs, y.accepted = true →
      r.base.kv = some y.assigned ∧ (r.base.alive = true → r.base.fidMem = some y.assigned) := by
  intro r y hy hacc
  have i := invS_rrun c hseed hpers hfo h _ (invS_init kv0)
  have hk := i.acc y hy hacc
  exact ⟨hk, fun ha => by rw [i.mem ha]; exact hk⟩

/-- **One framework.** After any history — restarts, reconnections, incomplete answers — every task the core
    ever launched is a task of the framework the core is subscribed as NOW: the tasks of its live environments
    are still its own after a reconnection (`C18_roster_complete`: they are in the roster; here: the master
    files them under the id of the connected stream). -/
theorem C18_one_framework (c : Cfg) (hc : Sound c) (kv0 : Option Nat) (h : List RStep) (hh : h.all (rstepOk c) = true) :
    let r := rrun c h (rinit kv0)
    r.base.alive = true → r.base.connected = true → ∀ t ∈ r.base.tasks, r.base.stream = some t.fid := by
  intro r ha hcn t ht
  have i : RInv c r := rinv_rrun c hc h hh _ (rinv_init c kv0)
  simp only [St.connected, Bool.and_eq_true, Option.isSome_iff_exists, Option.isNone_iff_eq_none] at hcn
  obtain ⟨⟨f, hf⟩, hhel⟩ := hcn
  have h1 := i.b.conn ha f hf (by rw [hhel]; rfl)
  have h2 := i.b.mem ha
  have h3 := i.b.fid t ht
  rw [hf, ← h1, h2, h3]

/-- **Roster tasks are never killed by a reconciliation answer** — over ALL histories of the layered model: any
    number of reconnections at any point, answers that leave out or bring back any task at any time (a task of a
    live environment left out of one answer and reported by the next is spared both times). -/
theorem C18_roster_tasks_never_killed_over_reconnections (c : Cfg) (hg : c.rosterGuard = true)
    (hrw : c.snapshotRewrite = false) (kv0 : Option Nat) (h : List RStep) :
    ownedSpared (rrun c h (rinit kv0)).base.log = true :=
  (rrun_preserves (P := fun r => InvR r.base ∧ ownedSpared r.base.log = true) c
    (fun r x hr => ⟨invR_rstep c hrw r x hr.1,
      rstep_lift (fun s => ownedSpared s.log = true) c r x
        (fun W y _ => ownedSpared_step_guarded c W hg r.base y hr.1 hr.2)
        (fun os => by rw [ownedSpared_snap]; exact hr.2) hr.2⟩) h _
    ⟨invR_init kv0, by cases kv0 <;> simp [rinit, init, ownedSpared]⟩).2

/-- Ordinary status updates never cause a KILL — layered model, ALL histories. -/
theorem C18_updates_never_kill_over_reconnections (c : Cfg) (hg : c.reasonGuard = true) (kv0 : Option Nat) (h : List RStep) :
    updatesNeverKill (rrun c h (rinit kv0)).base.log = true :=
  rrun_preserves (P := fun r => updatesNeverKill r.base.log = true) c
    (fun r x hr => rstep_lift (fun s => updatesNeverKill s.log = true) c r x
      (fun W y _ => updatesNeverKill_step c W hg r.base y hr)
      (fun os => by rw [updatesNeverKill_snap]; exact hr) hr) h _
    (by cases kv0 <;> simp [rinit, init, updatesNeverKill])

/-- Everything, at the configuration read off the code on this run, for the layered model: the whole Spec on the
    log AND on the SUBSCRIBE/SUBSCRIBED pairs, for ALL histories with incomplete answers that have no late
    orphan (and, should the roster test be missing, no reconnection while owning — not expressible here, so the
    roster test is a hypothesis). -/
theorem C18_code_meets_spec_over_reconnections (kv0 : Option Nat) (h : List RStep)
    (hh : h.all (rstepOk codeCfg) = true) (hno : noLateOrphans codeCfg h (rinit kv0) = true)
    (hg : codeCfg.rosterGuard = true) :
    allR (rrun codeCfg h (rinit kv0)).base.log (rrun codeCfg h (rinit kv0)).subs = true := by
  have hc := C18_cfg_is_code
  have hs := C18_cfg_sound codeCfg hc
  have h1 := C18_identity_kept_over_reconnections codeCfg hs.seed hs.persist hs.failover kv0 h
  have h2 := C18_visible_orphans_killed_partial codeCfg hs kv0 h hh hno
  have h3 := C18_roster_tasks_never_killed_over_reconnections codeCfg hg hs.norewrite kv0 h
  have h4 := C18_updates_never_kill_over_reconnections codeCfg (by rcases hc with e | e <;> rw [e] <;> rfl) kv0 h
  have h5 := orphansKilled_of_eachSubscription _ h2.1
  simp [allR, Spec.C18.all, h1.1, h1.2.1, h1.2.2.1, h1.2.2.2, h2.1, h2.2, h3, h4, h5]

/-! ## status updates whose optional fields are absent -/

/-- **The guards of the model are the guards of the code.** In updateTaskStatus both id copies stand in the
    TASK_RUNNING clause, each under `if status.Get…ID() != nil` (go/ast, regenerated on every run), and nothing else in
    package core/task writes a task's `agentId` / `executorId` but HandleAgentFailed / HandleExecutorFailed, which blank one
    of them for the tasks of a lost agent / executor (dead tasks; C06). -/
theorem C18_status_id_copy_is_code :
    codeGuards = TaskIds.codeGuards ∧ Gen.TaskIds.copiesUnderRunningOnly = true ∧
    Gen.TaskIds.idWriteSites = ["HandleAgentFailed:agentId:blank", "HandleExecutorFailed:executorId:blank",
                                "updateTaskStatus:agentId:status", "updateTaskStatus:executorId:status"] := by decide

/-- **Sparse updates change nothing**: with the code's guards a history in which any messages lack any optional fields
    ends in the state the history with complete messages ends in — every theorem of the layers below carries over. -/
theorem C18_sparse_updates_conservative (c : Cfg) (kv0 : Option Nat) (h : List SStep) :
    srun TaskIds.codeGuards c h (rinit kv0) = rrun c (h.map SStep.erase) (rinit kv0) :=
  srun_code c h _

/-- **The tasks of live environments stay owned.** After ANY history — reconnections at any point, answers that leave
    tasks out or bring them back, messages that lack agent_id and/or executor_id at any point — every task a live
    environment holds has a roster entry of that environment, LOCKED: the next sweep of unowned tasks spares it. -/
theorem C18_owned_stay_locked_under_sparse_updates (c : Cfg) (hrw : c.snapshotRewrite = false) (kv0 : Option Nat) (h : List SStep) :
    let s := (srun TaskIds.codeGuards c h (rinit kv0)).base
    (∀ t e, (t, e) ∈ s.held → ∃ r ∈ s.roster, r.id = t ∧ r.env = e ∧ r.locked = true) ∧
    (∀ t, lockedIn s.roster t = heldBy s.held t) := by
  intro s
  have i : InvR s := by
    show InvR (srun TaskIds.codeGuards c h (rinit kv0)).base
    rw [srun_code]; exact invR_rrun c hrw _ _ (invR_init kv0)
  exact ⟨fun t e hm => i.complete (t, e) hm, fun t => (heldBy_eq_lockedIn s i t).symm⟩

/-- … in the form the driver evaluates on the real core: at every quiet point of every history every held task is
    locked (`Spec.C18.heldLocked` of the views collected along the history). -/
theorem C18_held_locked_at_every_quiet_point (c : Cfg) (hrw : c.snapshotRewrite = false) (kv0 : Option Nat) (h : List SStep) :
    heldLocked (sviews TaskIds.codeGuards c h (rinit kv0)) = true :=
  heldLocked_sviews c hrw h _ (invR_init kv0)

/-- Roster tasks are never killed by a reconciliation answer, sparse or not. -/
theorem C18_roster_tasks_never_killed_under_sparse_updates (c : Cfg) (hg : c.rosterGuard = true)
    (hrw : c.snapshotRewrite = false) (kv0 : Option Nat) (h : List SStep) :
    ownedSpared (srun TaskIds.codeGuards c h (rinit kv0)).base.log = true := by
  rw [srun_code]; exact C18_roster_tasks_never_killed_over_reconnections c hg hrw kv0 _

/-- Everything, at the configuration AND the guards read off the code on this run, for ALL histories with sparse
    updates: the whole Spec on the log, on the SUBSCRIBE/SUBSCRIBED pairs and on the views at the quiet points
    (hypotheses as in `C18_code_meets_spec_over_reconnections`, on the history with the omissions erased). -/
theorem C18_code_meets_spec_under_sparse_updates (kv0 : Option Nat) (h : List SStep)
    (hh : (h.map SStep.erase).all (rstepOk codeCfg) = true) (hno : noLateOrphans codeCfg (h.map SStep.erase) (rinit kv0) = true)
    (hg : codeCfg.rosterGuard = true) :
    allS (srun codeGuards codeCfg h (rinit kv0)).base.log (srun codeGuards codeCfg h (rinit kv0)).subs
      (sviews codeGuards codeCfg h (rinit kv0)) = true := by
  have hgd : codeGuards = TaskIds.codeGuards := C18_status_id_copy_is_code.1
  have hs := C18_cfg_sound codeCfg C18_cfg_is_code
  rw [hgd, srun_code]
  simp only [allS, Bool.and_eq_true]
  exact ⟨C18_code_meets_spec_over_reconnections kv0 _ hh hno hg, C18_held_locked_at_every_quiet_point codeCfg hs.norewrite kv0 h⟩

/-- A complete message — both optional fields present, what the AliECS executor always sends and what a master with a
    full task record answers — is handled alike with and without the guards: restarts, reconnections and incomplete
    answer SETS (the layers below) cannot tell the configurations apart. -/
theorem C18_complete_updates_hide_the_difference (g : TaskIds.Guards) (c : Cfg) (r : RSt) :
    sstep g c r (.handleSparse false false) = sstep TaskIds.codeGuards c r (.handleSparse false false) := by
  rw [sstep_full, sstep_full]

/-- One environment RUNNING, the stream dropped and re-established, the master's reconciliation answer about the task
    of the live environment (TASK_RUNNING, in the roster: it goes to updateTaskStatus) lacks executor_id; quiet points
    before the drop and at the end. -/
def C18_witness_sparse : List SStep :=
  [.r (.base .coreStart), .r (.base .subscribe), .r (.base .read), .r (.base (.launch 0 0)), .r (.base (.status 0 .running)),
   .r (.base .read), .r (.base .handle), .r (.base .snapshot),
   .r (.base .drop), .r (.base .subscribe), .r (.base .read), .r (.base .read), .handleSparse false true, .r (.base .snapshot)]

/-- **Without the guards (NOT the code) a sparse reconciliation answer un-owns the task of a live environment.** On
    `C18_witness_sparse`, roster test in place: no KILL is made at reconciliation time, the task stays in the roster and
    its environment holds it — but it is no longer locked: the roster invariant `C18_owned_stay_locked_under_sparse_updates`
    (what `C18_owned_spared_fixed` and every sweep of unowned tasks rest on) is gone and the Spec clause `heldLocked`
    rejects the second quiet point. With the code's guards the same history leaves the task locked and the whole Spec true. -/
theorem C18_unguarded_id_copy_unlocks_owned :
    (let r := srun TaskIds.noGuards guardedCfg C18_witness_sparse (rinit none)
     (0, 0) ∈ r.base.held ∧ inRoster r.base.roster 0 = true ∧ lockedIn r.base.roster 0 = false ∧
     r.base.log.all (fun o => match o with | .kill _ _ _ _ => false | _ => true) = true ∧
     sviews TaskIds.noGuards guardedCfg C18_witness_sparse (rinit none) = [[(0, true)], [(0, false)]] ∧
     allR r.base.log r.subs = true ∧
     allS r.base.log r.subs (sviews TaskIds.noGuards guardedCfg C18_witness_sparse (rinit none)) = false) ∧
    (let r := srun TaskIds.codeGuards guardedCfg C18_witness_sparse (rinit none)
     (0, 0) ∈ r.base.held ∧ lockedIn r.base.roster 0 = true ∧
     sviews TaskIds.codeGuards guardedCfg C18_witness_sparse (rinit none) = [[(0, true)], [(0, true)]] ∧
     allS r.base.log r.subs (sviews TaskIds.codeGuards guardedCfg C18_witness_sparse (rinit none)) = true) := by
  decide

/-- Either guard alone is not enough: a guard configuration under which no update ever unlocks is the code's. -/
theorem C18_id_guards_needed (g : TaskIds.Guards) :
    (∀ k u, TaskIds.unlocks g k u = false) ↔ g = TaskIds.codeGuards := by
  constructor
  · intro h
    obtain ⟨ga, ge⟩ := g
    have h1 := h .running { agent := false, executor := true }
    have h2 := h .running { agent := true, executor := false }
    cases ga <;> cases ge <;> simp_all [TaskIds.unlocks, TaskIds.codeGuards]
  · rintro rfl k u; exact unlocks_code k u

/-! ## the code as it is NOW -/

/-- Everything above, instantiated at the configuration read off the code on this run: same identity,
    orphans killed (complete answers, no UNREACHABLE), ordinary updates never kill — and owned tasks are
    spared in full if the roster test is there, else under `noReconnWhileOwning`. -/
theorem C18_code_meets_spec (W : World) (hW : ∀ n t, W.answers n t = true) (kv0 : Option Nat) (h : List Step)
    (hh : h.all (stepOk codeCfg) = true)
    (hno : codeCfg.rosterGuard = true ∨ noReconnWhileOwning codeCfg W h (init kv0) = true) :
    Spec.C18.all (run codeCfg W h (init kv0)).log = true := by
  have hc := C18_cfg_is_code
  have hs := C18_cfg_sound codeCfg hc
  have h1 := C18_same_identity codeCfg W hs.seed hs.failover kv0 h
  have h2 := C18_orphans_killed codeCfg W hs hW kv0 h hh
  have h2' := C18_orphans_killed_every_round codeCfg W hs hW kv0 h hh
  have h2'' := C18_orphans_killed_every_subscription codeCfg W hs hW kv0 h hh
  have h4 := C18_updates_never_kill codeCfg (by rcases hc with e | e <;> rw [e] <;> rfl) W kv0 h
  have h3 : ownedSpared (run codeCfg W h (init kv0)).log = true := by
    rcases hno with hg | hno
    · exact C18_owned_spared_fixed codeCfg hg hs.norewrite W kv0 h
    · exact C18_owned_spared_partial codeCfg W hs.seed hs.failover hs.norewrite kv0 h hno
  simp [Spec.C18.all, h1.1, h1.2, h2, h2', h2'', h3, h4]


/-! ## non-vacuity -/

/-- A restart with a live environment: the hypotheses of the partial theorem hold, an orphan exists, it is
    killed, and the snapshot records it. -/
example :
    let h : List Step := [.coreStart, .subscribe, .read, .launch 0 0, .launch 0 1, .status 0 .running, .status 1 .running,
      .read, .read, .handle, .handle, .coreKill, .coreStart, .subscribe, .read, .read, .read, .handle, .handle, .snapshot]
    h.all (stepOk unguardedCfg) = true ∧ noReconnWhileOwning unguardedCfg World.complete h (init none) = true ∧
    (run unguardedCfg World.complete h (init none)).log.head? = some (.snap 2 [0, 1]) ∧
    Spec.C18.all (run unguardedCfg World.complete h (init none)).log = true := by decide

/-- The survivor history is legal (complete answers, listed states, no reconnection while owning), both
    snapshots list the orphan, and the whole Spec holds of the model's log. -/
example : C18_witness_survivor.all (stepOk unguardedCfg) = true ∧
    noReconnWhileOwning unguardedCfg World.complete C18_witness_survivor (init none) = true ∧
    (run unguardedCfg World.complete C18_witness_survivor (init none)).log.head? = some (.snap 2 [0]) ∧
    Spec.C18.all (run unguardedCfg World.complete C18_witness_survivor (init none)).log = true := by decide

/-- The overlap history is legal; with the code's configuration task 1 stays in the roster through the split
    teardown, the reconciliation answer about it causes no KILL, the whole Spec holds — and it is non-trivial:
    the teardown's KILL of task 0 is in the log, task 1 is held and alive at the end. -/
example : C18_witness_overlap.all (stepOk guardedCfg) = true ∧
    (let s := run guardedCfg World.complete C18_witness_overlap (init none)
     (1, 1) ∈ s.held ∧ lockedIn s.roster 1 = true ∧ Out.kill 1 0 .release false ∈ s.log ∧
     s.log.all (fun o => match o with | .kill _ 1 _ _ => false | _ => true) = true ∧ Spec.C18.all s.log = true) := by decide

/-- The witness of the finding is a legal history for the other theorems (complete answers, listed states). -/
example : C18_witness_reconnect.all (stepOk unguardedCfg) = true ∧
    noReconnWhileOwning unguardedCfg World.complete C18_witness_reconnect (init none) = false ∧
    ownedSpared (run guardedCfg World.complete C18_witness_reconnect (init none)).log = true := by decide

/-- A core in its FIRST life (nothing persisted) with a live environment, the stream dropped and re-established:
    the second SUBSCRIBE presents the id the first SUBSCRIBED assigned, the master keeps it, the task of the live
    environment is still held, in the roster, under the framework of the connected stream, and was never KILLed;
    the whole Spec — log and SUBSCRIBE/SUBSCRIBED pairs — holds. -/
example :
    let h : List RStep := [.base .coreStart, .base .subscribe, .base .read, .base (.launch 0 0), .base (.status 0 .running),
      .base .read, .base .handle, .base .snapshot, .base .drop, .base .subscribe, .base .read, .base .read, .base .handle, .base .snapshot]
    let r := rrun guardedCfg h (rinit none)
    h.all (rstepOk guardedCfg) = true ∧ noLateOrphans guardedCfg h (rinit none) = true ∧
    r.subs = [{ life := 1, carry := some 0, assigned := 0, accepted := true }, { life := 1, carry := none, assigned := 0, accepted := true }] ∧
    (0, 0) ∈ r.base.held ∧ lockedIn r.base.roster 0 = true ∧ r.base.stream = some 0 ∧
    r.base.tasks.all (fun t => t.fid == 0) = true ∧
    r.base.log.all (fun o => match o with | .kill _ _ _ _ => false | _ => true) = true ∧
    allR r.base.log r.subs = true := by decide

/-- … and `identityKept` is not vacuous: a re-subscription that presents NO id after an accepted one (the master
    then registers a new framework, id 1) is rejected, and so is one framework after another being accepted. -/
example :
    identityKept [{ life := 1, carry := none, assigned := 1, accepted := false }, { life := 1, carry := none, assigned := 0, accepted := true }] = false ∧
    oneFramework [{ life := 1, carry := none, assigned := 1, accepted := true }, { life := 1, carry := none, assigned := 0, accepted := true }] = false := by
  decide

/-- The witness of the finding is a legal history (listed states only); it violates exactly `noLateOrphans`, at
    its last step; the rest of the Spec holds of it. -/
example : C18_witness_late.all (rstepOk guardedCfg) = true ∧ noLateOrphans guardedCfg C18_witness_late (rinit none) = false ∧
    noLateOrphans guardedCfg C18_witness_late.dropLast (rinit none) = true ∧
    (let r := rrun guardedCfg C18_witness_late (rinit none)
     r.base.log.head? = some (.snap 2 [0]) ∧ r.missed = [0] ∧ r.hidden = [] ∧
     sameIdentity r.base.log = true ∧ ownedSpared r.base.log = true ∧ identityKept r.subs = true ∧ oneFramework r.subs = true ∧
     orphansKilledEachSubscription r.base.log = false) := by decide

/-- The sparse witness is a legal history for the other theorems (listed states, no late orphan), it really contains a
    message that goes to updateTaskStatus and lacks a field, and both quiet points are taken. -/
example : (C18_witness_sparse.map SStep.erase).all (rstepOk guardedCfg) = true ∧
    noLateOrphans guardedCfg (C18_witness_sparse.map SStep.erase) (rinit none) = true ∧
    (srun TaskIds.codeGuards guardedCfg (C18_witness_sparse.take 12) (rinit none)).base.headUpdates guardedCfg = some (0, .running) ∧
    (sviews TaskIds.codeGuards guardedCfg C18_witness_sparse (rinit none)).length = 2 := by decide
