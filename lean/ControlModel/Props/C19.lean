/-
  Props/C19 — "Published events are delivered once, in order, and flushed on shutdown".

  Property theorems only; the model is Model/Writer.lean (goroutine interleavings of
  common/event/writer.go + fifobuffer.go), the invariants are in Proofs/Writer.lean.
  A schedule is a `List Step`; every theorem quantified over `sched` speaks about
  every interleaving of any number of producers, the batching loop, the writing
  loop, the broker's latency (`writeDone`) and the instant of `close`.

  Tie to /repo: `Gen.C19` is rewritten on every run from the working tree —
  constants and loop shapes by go/ast, the FIFO and the partition-key function by
  evaluating the linked code — and identified with the model below; the
  interleaving model itself is tied by the correspondence run (harness/props/c19).

  Worker start-up (`C19_worker_count_is_code`, `C19_close_waits_for_both_workers`,
  `C19_flushed_when_close_returns`, `C19_self_registering_workers_lose_events`): the constructor
  only spawns the two workers; Close() counts them before it closes the channel, so it returns
  only after both have been scheduled and have finished, and at that instant everything accepted
  has been handed to the write function and nothing happens any more.

  The hand-over (`C19_handover_is_code`, `C19_accepted_in_pipeline`, `C19_full_channel_blocks`):
  WriteEvent returns only after its message is in the channel, a full channel makes the
  producer wait, so every accepted event is in channel ∪ hand ∪ buffer ∪ written.

  Two statements of the property are FALSE of the code (and of the faithful model):
  `C19_flush_full` (finding close_drops_buffered) and `C19_close_terminates_full`
  (finding close_lost_wakeup). Each is kept as a `def`, refuted on a concrete
  schedule, proved under the excluding hypothesis, and proved outright for the model
  with the proposed repair switched on (`fixedCfg`, notes/C19.fix.patch).
-/
import ControlModel.Gen.C19Writer
import ControlModel.Proofs.Writer
import ControlModel.Proofs.Registry

open Writer

/-! ## the model is the code -/

/-- Channel capacity, batch size and the two behaviours the repair would change are
    what go/ast finds in writer.go / fifobuffer.go today. -/
theorem C19_constants_are_code :
    codeCfg = { cap := Gen.C19.chanCap, batchMax := Gen.C19.popMax,
                drainOnDone := Gen.C19.drainOnDone, releaseSticky := Gen.C19.releaseSticky,
                selfRegister := Gen.C19.workersSelfRegister } := by
  decide

/-- Shape facts the model relies on: the done token fits its channel (the batching loop
    never blocks on it) and is sent before ReleaseGoroutines; the done clause returns;
    every FIFO operation runs under the lock (one atomic step); Push appends at the end. -/
theorem C19_loop_shape_is_code :
    Gen.C19.doneChCap = 1 ∧ Gen.C19.doneBeforeRelease = true ∧ Gen.C19.doneCaseReturns = true ∧
    Gen.C19.fifoOpsLocked = true ∧ Gen.C19.pushAppendsToEnd = true := by
  decide

/-- The model's pop (`take n` / `drop n` of a queue filled at the back) IS what the linked
    FifoBuffer does on every tabulated (n, length). -/
theorem C19_pop_is_code :
    Gen.C19.popTable.all (fun (n, len, popped, rest) =>
      (List.range len).take n == popped && (List.range len).drop n == rest) = true := by
  decide

/-- The model's key function IS what the linked WriteEvent path attaches to the message, for
    all nine payload types × environment id {"", e1, e2} × task id {"", t1, t2}. -/
theorem C19_key_is_code :
    Gen.C19.keyTable.length = 81 ∧
    Gen.C19.keyTable.all (fun (k, env, task, key) =>
      match Kind.ofIdx? k with
      | some kind => keyOf kind env task == key
      | none => false) = true := by
  decide

/-! ## exactly once, in order -/

/-- For every schedule: what has been handed to the write function, followed by the FIFO
    buffer, the message in the batching loop's hand and the channel, IS the publication
    order — nothing lost, duplicated or reordered between the stages; every producer's
    events are numbered 0,1,2,… in that order, no event occurs twice; hence what reached the
    broker is a prefix of the publication order: per producer in order, each once. -/
theorem C19_no_dup_no_reorder (c : Cfg) (sched : List Step) :
    let s := run c init sched
    delivered s ++ s.buf ++ s.hand.toList ++ s.chan = s.pubs ∧
    (∀ p, seqsOf p s.pubs = List.range (countOf p s.pubs)) ∧ s.pubs.Nodup ∧
    delivered s <+: s.pubs ∧ (delivered s).Nodup ∧
    (∀ p, seqsOf p (delivered s) = List.range (countOf p (delivered s))) ∧
    orderedOnce (delivered s) = true := by
  intro s
  have h := inv_reach c sched
  have hpre : delivered s <+: s.pubs := by
    refine ⟨s.buf ++ s.hand.toList ++ s.chan, ?_⟩
    have := h.cons
    simp only [List.append_assoc] at this ⊢
    exact this
  have hs : ∀ p, seqsOf p s.pubs = List.range (countOf p s.pubs) := h.seqs
  obtain ⟨h1, h2⟩ := orderedOnce_of_prefix _ _ hpre hs
  exact ⟨h.cons, hs, h.nodup, hpre, hpre.sublist.nodup h.nodup, h1, h2⟩

/-! ## bounded batches -/

/-- For every schedule, every batch handed to the write function is non-empty and at most
    `batchMax` long (= 100 in the code, `C19_constants_are_code`). -/
theorem C19_batch_bound (c : Cfg) (sched : List Step) :
    (∀ b ∈ (run c init sched).written, 0 < b.length ∧ b.length ≤ c.batchMax) ∧
    batchesBounded c.batchMax (run c init sched).written = true := by
  have h := (inv_reach c sched).bound
  refine ⟨h, ?_⟩
  simp only [batchesBounded, List.all_eq_true, Bool.and_eq_true, decide_eq_true_eq]
  exact h

/-! ## producers never wait for the broker -/

/-- (1) Whether a producer can publish depends on the channel and the closed flag only:
    two states that agree on those agree on `publish`, whatever the writing loop is doing
    (parked in a write call, waiting, gone).
    (2) And the batching loop alone keeps the channel from staying full: from ANY state with
    the channel open and the batching loop scheduled, however long the write function stays parked (no writing-loop step, no
    `writeDone` occurs in the schedule), `n` rounds "push, receive, publish" get `n` further
    events accepted — nothing is written meanwhile and a writing loop that is not waiting
    does not move. -/
theorem C19_producers_never_wait_on_broker (c : Cfg) (hcap : 0 < c.cap) :
    (∀ (s s' : State) (p : Nat), s.closed = s'.closed → s.chan = s'.chan →
        enabled c s (.publish p) = enabled c s' (.publish p)) ∧
    (∀ (s : State) (p n : Nat), s.closed = false → s.bpc = .loop → s.chan.length ≤ c.cap → s.bStarted = true →
        let s' := run c s (feedN p n)
        s'.pubs.length = s.pubs.length + n ∧ s'.written = s.written ∧
        (s.wpc ≠ .waiting → s'.wpc = s.wpc)) := by
  refine ⟨?_, ?_⟩
  · intro s s' p h1 h2; simp [enabled, started, ready, h1, h2]
  · intro s p n h1 h2 h3 h4
    obtain ⟨_, hp, hw, hwpc⟩ := feedN_spec c hcap p n s ⟨h1, h2, h3, h4⟩
    exact ⟨hp, hw, hwpc⟩

/-- The rounds contain no step of the writing loop and no return of the write function. -/
theorem C19_feed_has_no_writer_step (p n : Nat) :
    ∀ st ∈ feedN p n, st = .batchPush ∨ st = .batchRecv ∨ st = .publish p := by
  induction n with
  | zero => intro st h; cases h
  | succ n ih =>
    intro st h
    simp only [feedN, feed, List.cons_append, List.nil_append, List.mem_cons] at h
    rcases h with h | h | h | h
    · exact Or.inl h
    · exact Or.inr (Or.inl h)
    · exact Or.inr (Or.inr h)
    · exact ih st h

/-! ## the hand-over: accepted ⇒ in the pipeline -/

/-- The model's `publish p` step — accepted and in the channel at once, enabled only while the
    channel has room — is what `WriteEventWithTimestamp` does: go/ast finds exactly one send on
    `toBatchMessagesChan` in it (function literals included), as an ordinary statement (not
    the communication of a `select` clause, so it blocks until the channel takes the message),
    and no `select` and no `go` statement at all: nothing is tried, nothing is finished in the
    background, the call returns only after its own send. -/
theorem C19_handover_is_code :
    Gen.C19.handoverSends = 1 ∧ Gen.C19.handoverPlainSend = true ∧
    Gen.C19.handoverSelects = 0 ∧ Gen.C19.handoverGoStmts = 0 := by
  decide

/-- For every capacity and every schedule: every accepted event is somewhere in the pipeline.
    The channel holds at most `cap` messages and the batching loop at most one; the number of
    accepted events is exactly channel + hand + buffer + handed to the write function, also
    per producer; and the snapshot the model shows at any instant before Close — whatever
    producers have a call outstanding — satisfies `snapOk`: no more calls have returned than
    the pipeline accounts for, and a producer waits only on a full channel. -/
theorem C19_accepted_in_pipeline (c : Cfg) (sched : List Step) :
    let s := run c init sched
    s.chan.length ≤ c.cap ∧ s.hand.toList.length ≤ 1 ∧
    s.pubs.length = (delivered s).length + s.buf.length + s.hand.toList.length + s.chan.length ∧
    (∀ p, countOf p s.pubs =
        countOf p (delivered s) + countOf p s.buf + countOf p s.hand.toList + countOf p s.chan) ∧
    (∀ (np : Nat) (pending : List Nat), s.closed = false →
        snapOk c.cap (snapOf c s np pending) = true) := by
  intro s
  have hinv := (inv_reach c sched).cons
  have hcap : s.chan.length ≤ c.cap := chan_le_cap_reach c sched
  have hhand : s.hand.toList.length ≤ 1 := by cases s.hand <;> simp
  have hlen : s.pubs.length =
      (delivered s).length + s.buf.length + s.hand.toList.length + s.chan.length := by
    have := congrArg List.length hinv
    simp only [List.length_append] at this
    exact this.symm
  refine ⟨hcap, hhand, hlen, ?_, ?_⟩
  · intro p
    have := congrArg (countOf p) hinv
    simp only [countOf_append] at this
    exact this.symm
  · intro np pending hcl
    have hsum := sum_counts_le np s.pubs
    simp only [snapOk, snapOf, Bool.and_eq_true, Bool.or_eq_true, beq_iff_eq]
    refine ⟨⟨⟨decide_eq_true (by omega), decide_eq_true hcap⟩, decide_eq_true hhand⟩, ?_⟩
    by_cases hroom : s.chan.length < c.cap
    · left
      have : (pending.filter fun p => !enabled c s (.publish p)) = [] := by
        apply List.filter_eq_nil_iff.mpr
        intro p _
        simp [enabled, started, ready, hcl, hroom]
      rw [this]; rfl
    · right; omega

/-- A producer facing a full channel does not move, and moves again exactly when there is room.
    (1) With the channel at capacity, `publish` steps — of any producers, however often they are
    scheduled — leave the state unchanged: nothing is accepted, nothing enters the pipeline behind
    the channel's back.  (2) An enabled `publish` appends the SAME event (producer, its next
    sequence number) to the publication order and to the back of the channel: accepted = in the
    channel, atomically, behind everything accepted before.  (3) With the channel open `publish`
    is enabled iff the channel has room.  (4) One receive of the batching loop makes room. -/
theorem C19_full_channel_blocks (c : Cfg) :
    (∀ (s : State) (ps : List Nat), c.cap ≤ s.chan.length → run c s (ps.map Step.publish) = s) ∧
    (∀ (s : State) (p : Nat), enabled c s (.publish p) = true →
        (step c s (.publish p)).chan = s.chan ++ [(p, nextSeq s p)] ∧
        (step c s (.publish p)).pubs = s.pubs ++ [(p, nextSeq s p)]) ∧
    (∀ (s : State) (p : Nat), s.closed = false →
        (enabled c s (.publish p) = true ↔ s.chan.length < c.cap)) ∧
    (∀ (s : State) (p : Nat), s.closed = false → s.chan.length ≤ c.cap →
        enabled c s .batchRecv = true → enabled c (step c s .batchRecv) (.publish p) = true) := by
  refine ⟨?_, ?_, ?_, ?_⟩
  · intro s ps hfull
    induction ps with
    | nil => rfl
    | cons p rest ih =>
      have hdis : enabled c s (.publish p) = false := by
        simp only [enabled, started, ready, Bool.true_and, Bool.and_eq_false_iff, decide_eq_false_iff_not]
        right; omega
      simp only [List.map_cons, run, step, hdis]
      exact ih
  · intro s p hen
    simp [step, hen, fire]
  · intro s p hcl
    simp [enabled, started, ready, hcl]
  · intro s p hcl hle hen
    simp only [step, hen, if_true, fire]
    replace hen := ready_of_enabled hen
    simp only [ready, Bool.and_eq_true, beq_iff_eq, Bool.not_eq_true', List.isEmpty_eq_false_iff] at hen
    have hne : s.chan ≠ [] := hen.2
    have hpos : 0 < s.chan.length := List.length_pos_iff.mpr hne
    simp only [enabled, started, ready, hcl, Bool.not_false, Bool.true_and, decide_eq_true_eq, List.length_tail]
    omega

/-! ## partition key -/

/-- Events about the same environment carry the same key: for the payload types keyed by
    environment (role, environment, call, integrated-service, run events) the key is the
    environment id itself, so equal ids give equal keys and different ids different keys,
    whatever the payload type and task id; meta events carry no key; a task event is keyed
    by its task id (not by the environment id it also carries). -/
theorem C19_key_by_env :
    (∀ (k k' : Kind) (env t t' : Nat), k.envScoped = true → k'.envScoped = true →
        keyOf k env t = keyOf k' env t') ∧
    (∀ (k : Kind) (env t : Nat), k.envScoped = true → keyOf k env t = env) ∧
    (∀ (k : Kind), k.envScoped = true ↔ (k = .roleEvent ∨ k = .environmentEvent ∨ k = .callEvent ∨
        k = .integratedServiceEvent ∨ k = .runEvent)) ∧
    (∀ (env t : Nat), keyOf .taskEvent env t = if t = 0 then 0 else 1000 + t) ∧
    (∀ (k : Kind) (env t : Nat), keySel k = .none → keyOf k env t = 0) := by
  refine ⟨?_, ?_, ?_, ?_, ?_⟩
  · intro k k' env t t' h h'
    cases k <;> cases k' <;> simp_all [Kind.envScoped, keySel, keyOf]
  · intro k env t h; cases k <;> simp_all [Kind.envScoped, keySel, keyOf]
  · intro k; cases k <;> simp [Kind.envScoped, keySel]
  · intro env t; simp [keyOf, keySel]
  · intro k env t h; cases k <;> simp_all [keySel, keyOf]

/-! ## flush on shutdown -/

/-- FULL-STRENGTH statement: whenever Close has returned, everything accepted has been handed
    to the write function. TRUE of the code as it is (`C19_flush_code`), false of the code
    before the repair (`C19_finding_close_drops_buffered`). -/
def C19_flush_full (c : Cfg) : Prop :=
  ∀ sched : List Step, let s := run c init sched
    s.closeCompleted = true → delivered s = s.pubs

/-- What IS proved for the code as it is, for every schedule: when Close has returned, both
    loops are gone, the channel and the batching loop's hand are empty and no write call is
    in flight, so the ONLY place an accepted event can be left behind is the FIFO buffer:
    `delivered ++ buf = pubs`; if the buffer is empty at that point, everything was flushed. -/
theorem C19_flush_partial (c : Cfg) (hsr : c.selfRegister = false) (sched : List Step) :
    let s := run c init sched
    s.closeCompleted = true →
      s.chan = [] ∧ s.hand = none ∧ s.wpc = .exited ∧ s.bpc = .exited ∧
      delivered s ++ s.buf = s.pubs ∧ (s.buf = [] → delivered s = s.pubs) := by
  intro s hc
  have h := inv_reach c sched
  obtain ⟨_, hw, hb⟩ := (invW_reach c hsr sched).completed hc
  obtain ⟨hch, hh, _⟩ := h.batcherGone (by rw [hb]; simp)
  have hcons := h.cons
  have hs : s = run c init sched := rfl
  rw [← hs] at hcons
  rw [hch, hh] at hcons
  simp only [Option.toList_none, List.append_nil] at hcons
  refine ⟨hch, hh, hw, hb, hcons, ?_⟩
  intro hbuf; rw [hbuf] at hcons; simpa using hcons

/-- The only shutdown the code flushes reliably is a quiescent one: if, when Close is
    called, channel, hand and buffer are empty (everything already handed over), then after
    ANY continuation everything accepted is delivered. -/
theorem C19_flush_quiescent (c : Cfg) (pre post : List Step) :
    let s0 := run c init pre
    s0.chan = [] → s0.hand = none → s0.buf = [] →
    let s := run c init (pre ++ [.close] ++ post)
    delivered s = s.pubs ∧ s.buf = [] := by
  intro s0 h1 h2 h3 s
  -- after `close` nothing can be published, so pubs is frozen and already delivered
  have hinv0 := inv_reach c pre
  have hd0 : delivered s0 = s0.pubs := by
    have := hinv0.cons
    have hs0 : s0 = run c init pre := rfl
    rw [← hs0, h1, h2, h3] at this
    simpa using this
  have hs : s = run c (step c s0 .close) post := by
    show run c init (pre ++ [.close] ++ post) = _
    rw [List.append_assoc, run_append]; rfl
  have hclosed : (step c s0 .close).closed = true := by
    unfold step; split
    · rfl
    · rename_i hne; simpa [enabled, started, ready] using hne
  have hsame : (step c s0 .close).pubs = s0.pubs := by unfold step; split <;> rfl
  -- pubs never changes once closed
  have frozen : ∀ (t : State) (l : List Step), t.closed = true → (run c t l).pubs = t.pubs := by
    intro t l
    induction l generalizing t with
    | nil => intro _; rfl
    | cons st rest ih =>
      intro ht
      have hp : (step c t st).pubs = t.pubs := by
        unfold step; split
        · rename_i hen
          cases st <;> simp only [fire] <;> (try split) <;> (try split) <;> simp_all [enabled, started, ready]
        · rfl
      show (run c (step c t st) rest).pubs = t.pubs
      rw [ih _ (step_closed c t st ht), hp]
  have hp : s.pubs = s0.pubs := by rw [hs, frozen _ _ hclosed, hsame]
  -- delivered only grows, and stays a prefix of pubs
  have hinv := inv_reach c (pre ++ [.close] ++ post)
  have hcons := hinv.cons
  have hss : s = run c init (pre ++ [.close] ++ post) := rfl
  rw [← hss] at hcons
  -- delivered s0 is a prefix of delivered s (written only grows)
  have mono : ∀ (t : State) (l : List Step), delivered t <+: delivered (run c t l) := by
    intro t l
    induction l generalizing t with
    | nil => exact List.prefix_refl _
    | cons st rest ih =>
      have hstep : delivered t <+: delivered (step c t st) := by
        unfold step; split
        · cases st <;> simp only [fire] <;> (try split) <;> (try split) <;>
            first
              | exact List.prefix_refl _
              | (unfold popBatch; split <;> simp [delivered])
        · exact List.prefix_refl _
      exact List.IsPrefix.trans hstep (ih _)
  have hpre : delivered s0 <+: delivered s := by
    have h1 : delivered s0 <+: delivered (step c s0 .close) := by
      unfold step; split <;> exact List.prefix_refl _
    rw [hs]; exact List.IsPrefix.trans h1 (mono _ _)
  -- lengths: delivered s ≤ pubs = delivered s0 ≤ delivered s
  have hlen1 : (delivered s).length + s.buf.length + s.hand.toList.length + s.chan.length = s.pubs.length := by
    rw [← hcons]; simp [List.length_append]; omega
  have hlen2 := hpre.length_le
  rw [hd0, ← hp] at hlen2
  have hbuf : s.buf = [] := by
    apply List.eq_nil_of_length_eq_zero; omega
  have hch : s.chan = [] := by
    apply List.eq_nil_of_length_eq_zero; omega
  have hh : s.hand.toList = [] := by
    apply List.eq_nil_of_length_eq_zero; omega
  rw [hbuf, hch, hh] at hcons
  exact ⟨by simpa using hcons, hbuf⟩

/-- The known finding, machine-checked on the faithful model: two events accepted, moved to
    the buffer, Close called, the batching loop posts its done token, the writing loop's next
    `select` takes it and returns, Close returns — nothing was written. -/
theorem C19_finding_close_drops_buffered : ¬ C19_flush_full legacyCfg := by
  intro h
  have := h [.writerStart, .batchStart, .publish 0, .publish 0, .batchRecv, .batchPush, .batchRecv, .batchPush,
             .close, .batchDone, .broadcast, .writerSelect, .closeReturn]
  revert this; decide

/-- The same on the schedule the harness replays on the real writer ("published, first write
    parked, Close, batching loop done, release"): three events, the first one is in the parked
    write call; when it returns the writing loop sees the token and leaves two in the buffer. -/
theorem C19_finding_close_drops_buffered_replay :
    let s := run legacyCfg init
      [.writerStart, .batchStart,                                               -- both workers are running
       .publish 0, .batchRecv, .batchPush, .writerSelect, .writerPop,          -- first write parked with 1 event
       .publish 0, .publish 0, .batchRecv, .batchPush, .batchRecv, .batchPush,   -- two more accepted and buffered
       .close, .batchDone, .broadcast,                                            -- Close; batching loop done
       .writeDone, .writerSelect, .closeReturn]                                   -- release; writer sees done
    s.closeCompleted = true ∧ s.written = [[(0, 0)]] ∧ s.buf = [(0, 1), (0, 2)] ∧ s.pubs.length = 3 := by
  decide

/-- With the drain repair (notes/C19.fix.patch, `drainOnDone`) the full statement holds, for
    every capacity, batch size and schedule. -/
theorem C19_flush_fixed (c : Cfg) (hd : c.drainOnDone = true) (hsr : c.selfRegister = false) (sched : List Step) :
    let s := run c init sched
    s.closeCompleted = true → delivered s = s.pubs := by
  intro s hc
  have h := inv_reach c sched
  have hp := C19_flush_partial c hsr sched hc
  exact hp.2.2.2.2.2 (h.drained hd hp.2.2.1)

/-- **Flush on shutdown, in full, for the code as it is** (`codeCfg` has the drain; tied to the
    source by `C19_constants_are_code`). -/
theorem C19_flush_code : C19_flush_full codeCfg :=
  fun sched => C19_flush_fixed codeCfg rfl rfl sched

/-! ## worker start-up: Close() waits for workers that have not run yet

  The constructor only spawns the two workers; events can be accepted and Close() can be called
  before the scheduler has run either of them for the first time (`writerStart`, `batchStart` are
  steps of the schedule like any other).  "Flushed on shutdown" means: at the instant Close()
  RETURNS everything accepted has been handed to the write function — not eventually. -/

/-- The model's counting is the code's (go/ast, writer.go): the only `runningWorkers.Add` of the
    file is `Add(2)` in Close(), executed before `close(toBatchMessagesChan)`, which comes before
    `Wait()`, which comes before the kafka.Writer is closed; no worker registers itself; there are
    exactly two `Done()` calls — the statement before the `return` of the writing loop's done clause
    and the last statement of the batching loop —; the constructor spawns exactly the two workers,
    each once (and so does the verification hook), and a worker that has been scheduled is at its
    loop at once (no statement in front of the `for` / `range`). -/
theorem C19_worker_count_is_code :
    codeCfg.selfRegister = Gen.C19.workersSelfRegister ∧ Gen.C19.wgAddCalls = 1 ∧ Gen.C19.wgCloseAdd = 2 ∧
    Gen.C19.wgCloseOrder = true ∧ Gen.C19.wgDoneCalls = 2 ∧ Gen.C19.wgWriterDoneLast = true ∧
    Gen.C19.wgBatcherDoneLast = true ∧ Gen.C19.workerGoStmts = 2 ∧ Gen.C19.workersSpawned = true ∧
    Gen.C19.loopPrologue = 0 ∧ Gen.C19.hookSpawnsWorkers = true := by
  decide

/-- **Close() returns only after both workers have finished**, for every schedule — the ones in
    which Close() is called before a worker was scheduled for the first time included — of every
    configuration in which Close() counts the workers itself: (1) once Close() has been called
    the WaitGroup counter is exactly the number of workers that have not finished, started or not
    (0 before); (2) when Close() has returned both workers HAVE been scheduled and have finished
    and the counter is 0; (3) as long as a worker has not been scheduled `Wait()` cannot return. -/
theorem C19_close_waits_for_both_workers (c : Cfg) (hsr : c.selfRegister = false) (sched : List Step) :
    let s := run c init sched
    (s.wg = if s.closed then liveW s.wpc + liveB s.bpc else 0) ∧
    (s.closeCompleted = true →
      s.wStarted = true ∧ s.bStarted = true ∧ s.wpc = .exited ∧ s.bpc = .exited ∧ s.wg = 0) ∧
    (s.closed = true → (s.wStarted = false ∨ s.bStarted = false) → enabled c s .closeReturn = false) := by
  intro s
  have hw : InvW s := invW_reach c hsr sched
  refine ⟨hw.counted, ?_, ?_⟩
  · intro hc
    obtain ⟨hcl, hwp, hbp⟩ := hw.completed hc
    refine ⟨?_, ?_, hwp, hbp, ?_⟩
    · cases hx : s.wStarted with
      | true => rfl
      | false => have := hw.wUn hx; rw [hwp] at this; cases this
    · cases hx : s.bStarted with
      | true => rfl
      | false => have := hw.bUn hx; rw [hbp] at this; cases this
    · rw [hw.counted, hwp, hbp]; simp [liveW, liveB]
  · intro hcl hun
    have hpos : s.wg ≠ 0 := by
      rw [hw.counted]
      rcases hun with hx | hx
      · simp [hcl, liveW, hw.wUn hx]
      · simp [hcl, liveB, hw.bUn hx]
    simp [enabled, started, ready, hpos]

/-- **Flushed at the instant Close() returns**, for every schedule `pre` after which Close() has
    returned (code: drain repair, workers counted by Close()): everything accepted has been handed
    to the write function (as lists and as counts — the snapshot a caller takes right after
    Close()), no write call is in progress, and NOTHING happens afterwards: whatever is scheduled
    later (`post`) leaves the state as it is, in particular no write call begins after Close()
    has returned. -/
theorem C19_flushed_when_close_returns (c : Cfg) (hd : c.drainOnDone = true) (hsr : c.selfRegister = false)
    (pre post : List Step) :
    let s := run c init pre
    s.closeCompleted = true →
      delivered s = s.pubs ∧ (delivered s).length = s.pubs.length ∧ s.wpc ≠ .writing ∧
      run c s post = s ∧ (run c init (pre ++ post)).written = s.written := by
  intro s hc
  have hw : InvW s := invW_reach c hsr pre
  have hfl : delivered s = s.pubs := C19_flush_fixed c hd hsr pre hc
  have hq : run c s post = s := run_after_return c s hw hc post
  refine ⟨hfl, by rw [hfl], ?_, hq, ?_⟩
  · rw [(hw.completed hc).2.1]; simp
  · rw [run_append]; exact congrArg State.written hq

/-- The same for the code as it is. -/
theorem C19_flushed_when_close_returns_code (pre post : List Step) :
    let s := run codeCfg init pre
    s.closeCompleted = true →
      delivered s = s.pubs ∧ (delivered s).length = s.pubs.length ∧ s.wpc ≠ .writing ∧
      run codeCfg s post = s ∧ (run codeCfg init (pre ++ post)).written = s.written :=
  C19_flushed_when_close_returns codeCfg rfl rfl pre post

/-- The self-registering variant (every worker does `Add(1)` when it starts running, Close() adds
    nothing) is NOT the code and does not have the property: (1) the full flush statement fails;
    (2) two events accepted, Close() called before either worker was scheduled: the counter is 0,
    `Wait()` returns at once, Close() has returned with both events still in the hand-over channel;
    (3) the workers start afterwards and the event reaches the write function AFTER Close() has
    returned (in production: a closed kafka.Writer); (4) with only the batching loop started the
    counter goes 1 → 0 when it finishes and Close() returns with the event in the buffer. -/
theorem C19_self_registering_workers_lose_events :
    ¬ C19_flush_full selfRegisterCfg ∧
    (let s := run selfRegisterCfg init [.publish 0, .publish 0, .close, .closeReturn]
     s.closeCompleted = true ∧ delivered s = [] ∧ s.chan = [(0, 0), (0, 1)] ∧ s.wg = 0) ∧
    (let s0 := run selfRegisterCfg init [.publish 0, .close, .closeReturn]
     let s := run selfRegisterCfg s0 [.batchStart, .writerStart, .batchRecv, .batchPush, .writerSelect, .writerPop]
     s0.closeCompleted = true ∧ s0.written = [] ∧ s.written = [[(0, 0)]]) ∧
    (let s := run selfRegisterCfg init
       [.batchStart, .publish 0, .close, .batchRecv, .batchPush, .batchDone, .broadcast, .closeReturn]
     s.closeCompleted = true ∧ s.wStarted = false ∧ s.buf = [(0, 0)] ∧ delivered s = []) := by
  refine ⟨?_, by decide, by decide, by decide⟩
  intro h
  have := h [.publish 0, .close, .closeReturn]
  revert this; decide

/-! ## Close terminates -/

/-- FULL-STRENGTH statement (TRUE of the code as it is: `C19_close_terminates_code`; false of
    the code before the repair: `C19_finding_close_lost_wakeup`): once Close has been called, every run that keeps
    taking enabled steps (fairness: nothing enabled is postponed for ever; the write
    function returns) is finite, and when nothing more can happen Close has returned. -/
def C19_close_terminates_full (c : Cfg) : Prop :=
  ∀ sched more : List Step,
    let s := run c init sched
    let s' := run c s more
    s.closed = true → allEnabled c s more = true →
      more.length ≤ rank s ∧ (canProgress c s' = false → s'.closeCompleted = true)

/-- What IS proved, for every configuration with a positive batch size and every schedule:
    after Close is called every enabled step strictly decreases `rank`, so at most `rank s`
    further steps can happen (no livelock, whatever the interleaving), and a state in which
    nothing can happen is either "Close has returned" or the lost wake-up: the writing loop
    inside `cond.Wait()` with the batching loop — the only goroutine that signals — gone. -/
theorem C19_close_terminates_partial (c : Cfg) (hb : 0 < c.batchMax) (hsr : c.selfRegister = false)
    (sched more : List Step) :
    let s := run c init sched
    let s' := run c s more
    s.closed = true → allEnabled c s more = true →
      more.length ≤ rank s ∧
      (canProgress c s' = false → lostWakeup s' = false → s'.closeCompleted = true) := by
  intro s s' hcl hen
  have h2 := inv2_reach c sched
  have hbound := run_bounded c hb s more h2 hcl hen
  refine ⟨by omega, ?_⟩
  intro hnp hnl
  cases hcc : s'.closeCompleted with
  | true => rfl
  | false =>
    have hcl' : s'.closed = true := by
      have : ∀ (t : State) (l : List Step), t.closed = true → (run c t l).closed = true := by
        intro t l
        induction l generalizing t with
        | nil => intro h; exact h
        | cons st rest ih => intro h; exact ih _ (step_closed c t st h)
      exact this s more hcl
    have hw' : InvW s' := by
      have : s' = run c init (sched ++ more) := by
        show run c (run c init sched) more = _
        rw [run_append]
      rw [this]; exact invW_reach c hsr _
    have hwg : s'.wpc = .exited → s'.bpc = .exited → s'.wg = 0 := by
      intro h1 h2
      have := hw'.counted
      rw [this, h1, h2]; simp [liveW, liveB]
    have := stuck_is_lostWakeup c s' hcl' hcc hwg hnp
    rw [this] at hnl; cases hnl

/-- The known finding, machine-checked on the faithful model — no event needed: the writing
    loop takes `default` in its select; Close closes the channel; the batching loop posts the
    token and broadcasts (nobody is waiting yet) and returns; the writing loop now locks, finds
    the buffer empty and waits — for ever; Close never returns. -/
theorem C19_finding_close_lost_wakeup : ¬ C19_close_terminates_full legacyCfg := by
  intro h
  have := h [.writerStart, .batchStart, .writerSelect, .close, .batchDone, .broadcast, .writerPop] [] (by decide) (by decide)
  revert this; decide

/-- With the sticky-release repair (`releaseSticky`) the full statement holds for every
    capacity, positive batch size and schedule: bounded, and stuck only when Close returned. -/
theorem C19_close_terminates_fixed (c : Cfg) (hs : c.releaseSticky = true) (hb : 0 < c.batchMax)
    (hsr : c.selfRegister = false) (sched more : List Step) :
    let s := run c init sched
    let s' := run c s more
    s.closed = true → allEnabled c s more = true →
      more.length ≤ rank s ∧ (canProgress c s' = false → s'.closeCompleted = true) := by
  intro s s' hcl hen
  obtain ⟨h1, h2⟩ := C19_close_terminates_partial c hb hsr sched more hcl hen
  refine ⟨h1, fun hnp => h2 hnp ?_⟩
  have hinv : Inv c s' := by
    have : s' = run c init (sched ++ more) := by
      show run c (run c init sched) more = _
      rw [run_append]
    rw [this]; exact inv_reach c _
  cases hl : lostWakeup s' with
  | false => rfl
  | true =>
    simp only [lostWakeup, Bool.and_eq_true, beq_iff_eq] at hl
    exact absurd hl.2 (hinv.noOrphan hs hl.1)

/-- **Close terminates, in full, for the code as it is.** -/
theorem C19_close_terminates_code : C19_close_terminates_full codeCfg :=
  fun sched more => C19_close_terminates_fixed codeCfg rfl (by decide) rfl sched more

/-- Both repairs together: after any schedule of the repaired model, if Close was called and
    nothing more can happen, Close has returned and everything accepted was delivered. -/
theorem C19_fixed_model_flushes_and_terminates (sched : List Step) :
    let s := run fixedCfg init sched
    s.closed = true → canProgress fixedCfg s = false → s.closeCompleted = true ∧ delivered s = s.pubs := by
  intro s hcl hnp
  have h := C19_close_terminates_fixed fixedCfg rfl (by decide) rfl sched [] hcl rfl
  have hc := h.2 hnp
  exact ⟨hc, C19_flush_fixed fixedCfg rfl rfl sched hc⟩


/-! ## the registry of the core: per writer = per topic

  `the.EventWriterWithTopic(t)` hands every publisher of topic `t` a writer, `the.ClearEventWriters()`
  closes the registered writers at shutdown (core/the/eventwriter.go, Model/Registry.lean).  The
  statements above are about ONE writer; they are statements about a topic because, for every
  interleaving of any number of callers, all callers of a topic are handed the same writer between
  two shutdowns and every writer ever handed out is closed by the next shutdown. -/

/-- The registry model's exclusive section is the code's: one mutex (a `sync.Mutex`, nothing in
    core/the takes it in shared or try mode), `createOrGetWriter` takes it with `Lock` as its first
    statement and releases it by a deferred `Unlock` — the lookup (`if w, ok := writers[topic]; ok
    { return w }`, the first statement that touches the map), the creation and the registration
    (`writers[topic] = <constructor>`; `return writers[topic]`) are one critical section; every
    function of the package that touches the map has that shape and the map is not mentioned
    outside functions; `ClearEventWriters` holds the mutex too, ranges over the map calling
    `Close()` on every value, nothing leaves the loop early, and then empties the map. -/
theorem C19_registry_is_code :
    Registry.codeCfg = { exclusive := Gen.C19.regGetHoldsLock && Gen.C19.regPlainMutex &&
                                      (Gen.C19.regSharedLockCalls == 0) } ∧
    Gen.C19.regMutexVars = 1 ∧ Gen.C19.regMapUsersLocked = Gen.C19.regMapUsers ∧
    Gen.C19.regMapUsesOutside = 0 ∧ Gen.C19.regGetLookupFirst = true ∧ Gen.C19.regGetRegisters = true ∧
    Gen.C19.regClearHoldsLock = true ∧ Gen.C19.regClearClosesEach = true ∧ Gen.C19.regClearEmpties = true := by
  decide

/-- Mutual exclusion, for every schedule: two callers that are inside `createOrGetWriter` /
    `ClearEventWriters` are the same caller — a call of either function is atomic for all others. -/
theorem C19_registry_get_is_atomic (sched : List Registry.Step) (c c' : Registry.Caller) :
    let s := Registry.run Registry.codeCfg Registry.init sched
    s.pc c ≠ .idle → s.pc c' ≠ .idle → c = c' := by
  intro s hc hc'
  exact (Registry.inv_reach sched).one hc hc'

/-- **One writer per topic between two shutdowns**, for every interleaving of any number of callers,
    topics and shutdowns: two results handed out for the same topic since the last shutdown are the
    same writer, it is the one the map holds for the topic (so every later look-up returns it and the
    next shutdown closes it); `allSame` / at most one pipeline per topic. -/
theorem C19_registry_one_writer_per_topic (sched : List Registry.Step) (t : Registry.Topic) :
    let s := Registry.run Registry.codeCfg Registry.init sched
    (∀ c c' w w', (c, t, w) ∈ s.handed → (c', t, w') ∈ s.handed → w = w') ∧
    (∀ c w, (c, t, w) ∈ s.handed → Registry.find s.reg t = some w) ∧
    Registry.allSame (Registry.handedFor s t) = true ∧ (Registry.writersOf s t).length ≤ 1 := by
  intro s
  have h := Registry.inv_reach sched
  have hreg : ∀ c w, (c, t, w) ∈ s.handed → Registry.find s.reg t = some w :=
    fun c w hm => h.handedReg (c, t, w) hm
  have hsame : ∀ w w', w ∈ Registry.handedFor s t → w' ∈ Registry.handedFor s t → w = w' := by
    intro w w' hw hw'
    obtain ⟨c, hc⟩ := Registry.handedFor_mem hw
    obtain ⟨c', hc'⟩ := Registry.handedFor_mem hw'
    have a := hreg c w hc
    have b := hreg c' w' hc'
    rw [a] at b; exact Option.some.inj b
  refine ⟨?_, hreg, ?_, ?_⟩
  · intro c c' w w' hm hm'
    have a := hreg c w hm
    have b := hreg c' w' hm'
    rw [a] at b; exact Option.some.inj b
  · cases hl : Registry.handedFor s t with
    | nil => rfl
    | cons a rest =>
      simp only [Registry.allSame, List.headD_cons, List.all_eq_true, beq_iff_eq]
      intro x hx
      exact hsame x a (by rw [hl]; exact hx) (by rw [hl]; simp)
  · cases hl : Registry.handedFor s t with
    | nil => simp [Registry.writersOf, hl]
    | cons a rest =>
      have := Registry.eraseDups_of_all_eq (Registry.handedFor s t) a
        (fun x hx => hsame x a hx (by rw [hl]; simp))
      simp only [Registry.writersOf]
      rcases this with h1 | h1 <;> simp [h1]

/-- **No writer is orphaned**, for every interleaving: every writer ever handed to a caller has
    been closed by a shutdown or is still registered; the loop of the next shutdown closes every
    registered writer, so after it EVERY writer ever handed out is closed; and whenever the map is
    empty (right after a shutdown) nothing that was handed out is still open. -/
theorem C19_registry_no_orphan (sched : List Registry.Step) :
    let s := Registry.run Registry.codeCfg Registry.init sched
    (∀ w ∈ s.everHanded, w ∈ s.closed ∨ w ∈ Registry.vals s.reg) ∧
    (∀ k, Registry.enabled Registry.codeCfg s (.closeAll k) = true →
        ∀ w ∈ (Registry.step Registry.codeCfg s (.closeAll k)).everHanded,
          w ∈ (Registry.step Registry.codeCfg s (.closeAll k)).closed) ∧
    (s.reg = [] → ∀ w ∈ s.everHanded, w ∈ s.closed) := by
  intro s
  have h := Registry.inv_reach sched
  refine ⟨h.noOrphan, ?_, ?_⟩
  · intro k hen w hw
    simp only [Registry.step, hen, if_true, Registry.fire] at hw ⊢
    rcases h.noOrphan w hw with h1 | h1
    · exact List.mem_append.mpr (Or.inl h1)
    · exact List.mem_append.mpr (Or.inr h1)
  · intro hreg w hw
    rcases h.noOrphan w hw with h1 | h1
    · exact h1
    · rw [hreg] at h1; exact absurd h1 (by simp [Registry.vals])

/-- No writer is closed twice (a second `Close` would close a closed channel), and a registered
    writer — the one publishers are being handed — is never a closed one; for every configuration
    and every schedule. -/
theorem C19_registry_closes_once (cfg : Registry.Cfg) (sched : List Registry.Step) :
    let s := Registry.run cfg Registry.init sched
    s.closed.Nodup ∧ (∀ w ∈ Registry.vals s.reg, w ∉ s.closed) ∧ (Registry.vals s.reg).Nodup := by
  intro s
  have h := Registry.fresh_reach cfg sched
  exact ⟨h.closedNodup, h.disjoint, h.regNodup⟩

/-- The exclusive section is needed: in a registry whose callers can be between their lookup and
    their registration at the same time (`sharedCfg`: a shared-mode or unlocked lookup), two callers
    asking for one fresh topic together are handed two writers, the second registration overwrites
    the first, and after a complete shutdown the first writer — handed to a publisher — is neither
    closed nor registered: both statements above fail. -/
theorem C19_registry_needs_exclusive_section :
    (¬ ∀ (sched : List Registry.Step) (t : Registry.Topic),
        Registry.allSame (Registry.handedFor (Registry.run Registry.sharedCfg Registry.init sched) t) = true) ∧
    (¬ ∀ (sched : List Registry.Step),
        let s := Registry.run Registry.sharedCfg Registry.init sched
        ∀ w ∈ s.everHanded, w ∈ s.closed ∨ w ∈ Registry.vals s.reg) := by
  refine ⟨?_, ?_⟩
  · intro h
    have := h [.enter 0 7, .enter 1 7, .look 0, .look 1, .create 0, .create 1, .ret 0, .ret 1] 7
    revert this; decide
  · intro h
    have := h ([.enter 0 7, .enter 1 7, .look 0, .look 1, .create 0, .create 1, .ret 0, .ret 1] ++
               Registry.clearCall 2) 0
    revert this; decide

/-- **The per-writer statements lifted to a topic.**  For every interleaving of registry calls and
    whatever the writers do (`wsched w` = any schedule of writer `w`: any producers, broker latency,
    Close instant): the events of topic `t` in the current epoch go through `writersOf s t`, which
    is at most ONE pipeline; so what the broker gets for the topic is a prefix of what was accepted
    for it, every producer's events once and in order; and when the `Close` calls of the shutdown
    have returned for the topic's writers, everything accepted for the topic has been delivered. -/
theorem C19_topic_order_and_flush (sched : List Registry.Step) (wsched : Registry.WId → List Step)
    (t : Registry.Topic) :
    let s := Registry.run Registry.codeCfg Registry.init sched
    let ws := Registry.writersOf s t
    let st := fun w => run codeCfg init (wsched w)
    let topicDelivered := (ws.map fun w => delivered (st w)).flatten
    let topicPubs := (ws.map fun w => (st w).pubs).flatten
    ws.length ≤ 1 ∧ topicDelivered <+: topicPubs ∧ orderedOnce topicDelivered = true ∧
    ((∀ w ∈ ws, (st w).closeCompleted = true) → topicDelivered = topicPubs) := by
  intro s ws st topicDelivered topicPubs
  have hlen : ws.length ≤ 1 := (C19_registry_one_writer_per_topic sched t).2.2.2
  refine ⟨hlen, ?_⟩
  match hws : ws, hlen with
  | [], _ =>
    simp only [topicDelivered, topicPubs, hws, List.map_nil, List.flatten_nil]
    exact ⟨List.prefix_refl _, by decide, fun _ => trivial⟩
  | [w], _ =>
    have hn := C19_no_dup_no_reorder codeCfg (wsched w)
    simp only [topicDelivered, topicPubs, hws, List.map_cons, List.map_nil, List.flatten_cons, List.flatten_nil,
      List.append_nil]
    refine ⟨hn.2.2.2.1, hn.2.2.2.2.2.2, ?_⟩
    intro hc
    exact C19_flush_code (wsched w) (hc w (by simp))
  | _ :: _ :: _, h => simp at h

/-! ## non-vacuity -/

set_option maxRecDepth 8192 in
/-- The hypotheses above are met by a realistic run: two producers interleave five events,
    the writing loop waits, is signalled, writes two batches, a quiescent Close returns with
    everything delivered in order. -/
example :
    let s := run codeCfg init
      [.batchStart, .writerStart,                                   -- both workers get to run
       .writerSelect, .writerPop,                                   -- writing loop waits on the empty buffer
       .publish 0, .publish 1, .publish 0, .batchRecv, .batchPush,   -- first push signals it
       .batchRecv, .batchPush, .writerWake,                          -- it wakes with two buffered: batch of 2
       .batchRecv, .batchPush, .publish 1, .publish 1, .writeDone,
       .batchRecv, .batchPush, .batchRecv, .batchPush,
       .writerSelect, .writerPop, .writeDone,                        -- batch of 3
       .writerSelect, .writerPop,                                    -- waits again
       .close, .batchDone, .broadcast, .writerWake, .writerSelect, .closeReturn]
    s.closeCompleted = true ∧ s.written = [[(0, 0), (1, 0)], [(0, 1), (1, 1), (1, 2)]] ∧ delivered s = s.pubs := by
  decide

/-- Worker start-up is not vacuous: three events are accepted and Close() is called before either
    worker has been scheduled; `Wait()` cannot return (counter 2); the workers start, move and write
    everything, finish, the counter reaches 0 and Close() returns with everything delivered. -/
example :
    let pre : List Step := [.publish 0, .publish 1, .publish 0, .close]
    let s0 := run codeCfg init pre
    let s := run codeCfg s0
      [.closeReturn,                                                  -- not enabled: nothing happens
       .writerStart, .writerSelect, .batchStart,
       .batchRecv, .batchPush, .batchRecv, .batchPush, .writerPop,     -- batch of 2
       .batchRecv, .batchPush, .batchDone, .broadcast, .writeDone,
       .writerSelect,                                                  -- done token seen: drains the third event
       .writeDone, .writerSelect, .closeReturn]
    s0.wg = 2 ∧ enabled codeCfg s0 .closeReturn = false ∧
    s.closeCompleted = true ∧ s.written = [[(0, 0), (1, 0)], [(0, 1)]] ∧ delivered s = s.pubs ∧ s.wg = 0 := by
  decide

/-- The hand-over theorems are not vacuous: with a channel of two slots, one message in the
    batching loop's hand and the batching loop held up, the fourth and fifth `publish` do not
    happen (both producers wait), the snapshot says so and satisfies `snapOk`; an observation
    in which those calls HAD returned with the channel full is rejected by `snapOk`. -/
example :
    let c : Cfg := { codeCfg with cap := 2 }
    let s := run c init [.batchStart, .publish 0, .batchRecv, .publish 0, .publish 1, .publish 1, .publish 0]
    s.pubs = [(0, 0), (0, 1), (1, 0)] ∧ s.chan = [(0, 1), (1, 0)] ∧ s.hand = some (0, 0) ∧
    snapOf c s 2 [0, 1] = { acc := [2, 1], chan := 2, hand := 1, buf := 0, written := 0, blocked := [0, 1] } ∧
    snapOk c.cap (snapOf c s 2 [0, 1]) = true ∧
    snapOk 2 { acc := [3, 2], chan := 2, hand := 1, buf := 0, written := 0, blocked := [] } = false := by
  decide

/-- The registry theorems are not vacuous: callers 0 and 1 ask for the fresh topic 7 together — the
    second `enter` does not happen while the first caller holds the mutex — and caller 2 for topic 8;
    0 creates writer 0, 1 is handed the same writer on its hit, 2 gets writer 1; the shutdown by
    caller 3 closes both; then topic 7 is looked up again and gets a NEW writer, which is open. -/
example :
    let s := Registry.run Registry.codeCfg Registry.init
      ([.enter 0 7, .enter 1 7, .look 0, .create 0, .enter 2 8, .ret 0] ++ Registry.getCall 1 7 ++
       Registry.getCall 2 8)
    let s' := Registry.run Registry.codeCfg s (Registry.clearCall 3 ++ Registry.getCall 1 7)
    s.handed = [(0, 7, 0), (1, 7, 0), (2, 8, 1)] ∧ Registry.writersOf s 7 = [0] ∧ s.reg = [(7, 0), (8, 1)] ∧
    s'.closed = [0, 1] ∧ s'.everHanded = [0, 0, 1, 2] ∧ s'.handed = [(1, 7, 2)] ∧ s'.reg = [(7, 2)] := by
  decide
