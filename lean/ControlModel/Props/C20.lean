/-
  Props/C20 — "Configuration lookups return the most specific existing entry".

  Property theorems only (`C20_*` = the proof obligations counted in the evidence file); lemmas live in
  Proofs/Query.lean, the model in Model/Query.lean, the decidable property predicates in Spec/C20.lean.

  Tie to /repo. `Gen.C20.*` (lean/ControlModel/Gen/QueryTables.lean) is rewritten on every run by `vh gen`:
    * the three regexp pattern texts, by go/ast from configuration/componentcfg/query.go;
    * the character class at every position of every pattern, by EVALUATING the linked IsStringValid… recognisers on
      every Unicode scalar value (and the set of characters NewQuery trims);
    * apricotpb.RunType_name / RunType_value, FALLBACK_RUNTYPE, FALLBACK_ROLENAME, ConfigComponentsPath, SEPARATOR;
    * for each of the 16 existence patterns, the sequence of Exists probes and the result of the linked
      local.Service.ResolveComponentQuery on a recording backend;
    * the names template.MakeUtilFuncMap binds;
    * what the linked local.Service writes into a payload for a supplied value (every ASCII character by itself, some
      realistic values; plainly and inside an explicit `{% autoescape on %}` block), and every call of pongo2's
      process-wide `SetAutoescape` in the repository (go/ast).
  The `…_is_code` theorems identify the hand-written model with those tables, so every theorem below is about what
  the code computes now; a changed table breaks a theorem. Model functions that are not tables (recogniser, trim,
  resolve, YAML walk, template fragment) are tied by the correspondence run.
-/
import ControlModel.Gen.QueryTables
import ControlModel.Proofs.Query
import ControlModel.Proofs.QueryConc

open Query Spec.C20

/-! ## the model is the code's tables -/

/-- The pattern texts the recognisers were written from are the literals in query.go. -/
theorem C20_regex_sources_are_code :
    inputFullRegexSrc = Gen.C20.inputFullRegexSrc ∧ inputEntriesRegexSrc = Gen.C20.inputEntriesRegexSrc ∧
    inputParametersRegexSrc = Gen.C20.inputParametersRegexSrc := by decide

/-- The model's character classes are, at every position of the three patterns, exactly the sets of Unicode scalar
    values the linked recognisers accept there; the blanks are the characters NewQuery trims. -/
theorem C20_charclasses_are_code :
    componentClass = Gen.C20.fullComponentClass ∧ runTypeClass = Gen.C20.fullRunTypeClass ∧
    roleClass = Gen.C20.fullRoleClass ∧ entryClass = Gen.C20.fullEntryClass ∧
    componentClass = Gen.C20.entriesComponentClass ∧ runTypeClass = Gen.C20.entriesRunTypeClass ∧
    roleClass = Gen.C20.entriesRoleClass ∧
    paramKeyClass = Gen.C20.paramKeyClass ∧ paramValueClass = Gen.C20.paramValueClass ∧
    paramKeyClass = Gen.C20.paramKey2Class ∧ paramValueClass = Gen.C20.paramValue2Class ∧
    spaceClass = Gen.C20.spaceClass := by decide

/-- Run-type names/numbers and the fallback constants are the code's. -/
theorem C20_runtypes_are_code :
    runTypes = Gen.C20.runTypeName ∧ runTypes.map (fun e => (e.2, e.1)) = Gen.C20.runTypeValue ∧
    fallbackRunType = Gen.C20.fallbackRunType ∧ fallbackRoleName = Gen.C20.fallbackRoleName ∧
    configComponentsPath = Gen.C20.configComponentsPath ∧ ['/'] = Gen.C20.separator := by decide

/-- THE FALLBACK ORDER: for every one of the 16 existence patterns the model's walk (which keys it probes, in which
    order, and which candidate it returns) is what the real resolveComponentQuery did on the recording backend. -/
theorem C20_fallback_order_is_code : (List.range 16).map walkPattern = Gen.C20.resolveTable := by decide

/-- The names the service binds on top of the supplied variables are the ones the model treats as reserved. -/
theorem C20_reserved_names_are_code : reservedNames = Gen.C20.utilFuncNames := by decide

set_option maxRecDepth 16384 in
/-- SUBSTITUTION IS THE CODE'S: for every probed value — each ASCII character by itself (`& < > " '` among them), a
    non-ASCII one, realistic JSON/HTML-looking values — the payload the linked GetAndProcessComponentConfiguration
    returned for the entry `{{ v }}` is what the model's configuration of the code as it is (`codeCfg`) writes; the five
    characters pongo2 would rewrite were all probed; and the only place of the repository that touches pongo2's
    process-wide autoescape switch is `init()` of apricot/local, which turns it off. (Reverting the repair of finding
    `autoescape_html` breaks all three parts.) -/
theorem C20_substitution_is_code :
    Gen.C20.substProbes.map (fun p => codeCfg.subst p.1) = Gen.C20.substProbes.map (fun p => p.2) ∧
    escapedChars.all (fun c => Gen.C20.substProbes.any (fun p => p.1 == [c])) = true ∧
    autoescapeSwitches = Gen.C20.autoescapeSwitches := by decide

set_option maxRecDepth 16384 in
/-- The legacy configuration is pongo2 with autoescaping on: inside an explicit `{% autoescape on %}` block the linked
    service writes for every probed value what `legacyCfg` (the model's `escape`) writes. So the refutation
    `C20_finding_autoescape_html` is about what the code did before the repair — and an entry that asks for escaping
    still gets it. -/
theorem C20_escape_is_pongo2 :
    Gen.C20.escapeProbes.map (fun p => legacyCfg.subst p.1) = Gen.C20.escapeProbes.map (fun p => p.2) := by decide

/-! ## resolution -/

/-- For EVERY existence predicate and EVERY query: the code's four-step walk returns the first candidate, in the order
    exact → any run type with that role → that run type with any role → any/any, that exists; `none` (the error)
    iff none of the four exists. -/
theorem C20_first_existing (ex : Str → Bool) (q : Query) :
    resolve ex q = (specCandidates q).find? (fun c => ex (absRaw c)) :=
  resolve_eq_firstExisting ex q

/-- A resolved path always exists, and it is one of the four candidates. -/
theorem C20_resolved_exists (ex : Str → Bool) (q r : Query) (h : resolve ex q = some r) :
    ex (absRaw r) = true ∧ r ∈ specCandidates q :=
  ⟨(resolve_mem ex q r h).2, (resolve_mem ex q r h).1⟩

/-- Most specific: every candidate that precedes the resolved one in the order does not exist. -/
theorem C20_most_specific (ex : Str → Bool) (q r : Query) (h : resolve ex q = some r) :
    ∃ before after, specCandidates q = before ++ r :: after ∧ ∀ c ∈ before, ex (absRaw c) = false := by
  rw [C20_first_existing, List.find?_eq_some_iff_append] at h
  obtain ⟨_, before, after, hsplit, hb⟩ := h
  exact ⟨before, after, hsplit, fun c hc => by simpa using hb c hc⟩

/-- Resolution fails exactly when none of the four candidates exists. -/
theorem C20_unresolved_iff (ex : Str → Bool) (q : Query) :
    resolve ex q = none ↔ ∀ c ∈ specCandidates q, ex (absRaw c) = false := by
  rw [C20_first_existing, List.find?_eq_none]
  constructor <;> intro h c hc <;> simpa using h c hc

/-- The existence probes are exactly the candidates in order, up to and including the first that exists. -/
theorem C20_probe_order (ex : Str → Bool) (q : Query) :
    probes ex q = match ((specCandidates q).map absRaw).findIdx? ex with
      | some i => ((specCandidates q).map absRaw).take (i + 1)
      | none => (specCandidates q).map absRaw :=
  probes_eq ex q

/-- Resolution of a well-formed query yields a well-formed query (so it can be printed and re-parsed). -/
theorem C20_resolved_wellformed (ex : Str → Bool) (q r : Query) (hq : wf q = true) (h : resolve ex q = some r) :
    wf r = true :=
  resolve_wf ex q r hq h


/-- Entries that are not among the query's four candidates have no influence on its resolution: two backends that
    agree on the four candidate keys resolve the query alike (for any other difference between them). -/
theorem C20_resolve_depends_only_on_candidates (ex ex' : Str → Bool) (q : Query)
    (h : ∀ c ∈ specCandidates q, ex (absRaw c) = ex' (absRaw c)) : resolve ex q = resolve ex' q := by
  rw [C20_first_existing, C20_first_existing]
  generalize specCandidates q = l at h
  induction l with
  | nil => rfl
  | cons a l ih =>
    have ha := h a (by simp)
    simp only [List.find?_cons, ha]
    cases ex' (absRaw a) with
    | true => rfl
    | false => exact ih (fun c hc => h c (List.mem_cons_of_mem _ hc))

/-- Adding entries never loses a resolution and never makes it less specific: if every key that exists in `ex` exists in
    `ex'` and `q` resolves to `r` in `ex`, it resolves in `ex'` to a candidate at or before `r` in the order. -/
theorem C20_resolve_monotone (ex ex' : Str → Bool) (q r : Query) (hsub : ∀ k, ex k = true → ex' k = true)
    (h : resolve ex q = some r) :
    ∃ r' before after, resolve ex' q = some r' ∧ specCandidates q = before ++ r :: after ∧ r' ∈ before ++ [r] := by
  obtain ⟨before, after, hsplit, hb⟩ := C20_most_specific ex q r h
  have hr : ex' (absRaw r) = true := hsub _ (C20_resolved_exists ex q r h).1
  cases h' : resolve ex' q with
  | none =>
    have := (C20_unresolved_iff ex' q).1 h' r (by rw [hsplit]; simp)
    rw [hr] at this; cases this
  | some r' =>
    refine ⟨r', before, after, rfl, hsplit, ?_⟩
    obtain ⟨b', a', hsplit', hb'⟩ := C20_most_specific ex' q r' h'
    -- r' is the FIRST existing candidate in ex'; r exists in ex'; so r' is not after r
    rw [C20_first_existing] at h'
    have hfind := h'
    rw [hsplit, List.find?_append] at hfind
    cases hfb : before.find? (fun c => ex' (absRaw c)) with
    | some x =>
      rw [hfb] at hfind; simp at hfind; subst hfind
      exact List.mem_append_left _ (List.mem_of_find?_eq_some hfb)
    | none =>
      rw [hfb] at hfind; simp [hr] at hfind; subst hfind; simp

/-- What the walk returns is a fixed point: asking again for the resolved query returns it unchanged. -/
theorem C20_resolve_idempotent (ex : Str → Bool) (q r : Query) (h : resolve ex q = some r) : resolve ex r = some r := by
  have he := (C20_resolved_exists ex q r h).1
  rw [C20_first_existing]
  simp [specCandidates, he]

/-- The hypotheses are met by a real situation: only the any/any entry exists, the query resolves to it; with the
    role-specific entry added the same query resolves to that one, which precedes any/any in the order. -/
example :
    let q : Query := ⟨['q', 'c'], 1, ['f', 'l', 'p'], ['t', 'p', 'c']⟩
    let anyAny := absRaw { q with runType := fallbackRunType, role := fallbackRoleName }
    let anyRt := absRaw { q with runType := fallbackRunType }
    resolve (fun k => k == anyAny) q = some { q with runType := fallbackRunType, role := fallbackRoleName } ∧
    resolve (fun k => k == anyAny || k == anyRt) q = some { q with runType := fallbackRunType } := by decide

/-! ## query strings -/

/-- NewQuery accepts exactly the denotation of the anchored pattern on the trimmed string, with a known run-type name,
    and returns exactly the four spelled parts. -/
theorem C20_parse_characterised (s : Str) (q : Query) :
    parse s = some q ↔
      ∃ rt, FullLang (trim s) q.component rt q.role q.entry ∧ runTypeValue rt = some q.runType :=
  parse_some_iff s q

/-- Malformed strings are rejected: `parse s = none` iff the trimmed string is NOT a concatenation
    component "/" RUNTYPE "/" role "/" entry of non-empty class runs with a known run-type name. -/
theorem C20_malformed_rejected (s : Str) :
    parse s = none ↔ ¬ ∃ c rt role e n, FullLang (trim s) c rt role e ∧ runTypeValue rt = some n := by
  constructor
  · rintro h ⟨c, rt, role, e, n, hl, hv⟩
    have := (parse_some_iff s ⟨c, n, role, e⟩).mpr ⟨rt, hl, hv⟩
    rw [h] at this; cases this
  · intro h
    cases hp : parse s with
    | none => rfl
    | some q =>
      obtain ⟨rt, hl, hv⟩ := (parse_some_iff s q).mp hp
      exact absurd ⟨q.component, rt, q.role, q.entry, q.runType, hl, hv⟩ h

/-- Round trip 1: what NewQuery returns prints back to the input, surrounding blanks aside. -/
theorem C20_roundtrip_print (s : Str) (q : Query) (h : parse s = some q) : print q = trim s ∧ wf q = true :=
  ⟨print_of_parse s q h, parse_wf s q h⟩

/-- Round trip 2: every well-formed query re-parses from its printed form to itself. -/
theorem C20_roundtrip_parse (q : Query) (h : wf q = true) : parse (print q) = some q :=
  parse_print q h

/-- Parsing is insensitive to surrounding blanks and to nothing else: two accepted strings denote the same query iff
    they are equal after trimming. -/
theorem C20_parse_injective (s s' : Str) (q : Query) (h : parse s = some q) (h' : parse s' = some q) :
    trim s = trim s' := by
  rw [← print_of_parse s q h, ← print_of_parse s' q h']

/-- Non-vacuity: a realistic query string with surrounding blanks. -/
example : parse [' ', 'q', 'c', '/', 'P', 'H', 'Y', 'S', 'I', 'C', 'S', '/', 'f', 'l', 'p', '0', '0', '1', '/', 't', 'p', 'c', '-', 'r', 'a', 'w', '/', 's', 'u', 'b', '\n']
    = some ⟨['q', 'c'], 1, ['f', 'l', 'p', '0', '0', '1'], ['t', 'p', 'c', '-', 'r', 'a', 'w', '/', 's', 'u', 'b']⟩ := by decide
example : parse ['q', 'c', '/', 'p', 'h', 'y', 's', 'i', 'c', 's', '/', 'f', 'l', 'p', '0', '0', '1', '/', 't', 'p', 'c', '-', 'r', 'a', 'w'] = none := by decide
example : parse ['q', 'c', '/', 'P', 'H', 'Y', 'S', 'I', 'C', 'S', '/', 'f', 'l', 'p', '0', '0', '1'] = none := by decide
example : wf ⟨['q', 'c'], 300, ['a', 'n', 'y'], ['a', '/', 'b']⟩ = true := by decide

/-! ## payload -/

/-- An entry that can be read as a value exists (YAML backend). -/
theorem C20_yaml_value_exists (t : List Leaf) (key v : Str) (h : yamlGet t key = some v) : yamlExists t key = true :=
  yamlGet_exists t key v h

/-- The template loader fetches exactly the entry the (resolved) query names: for a well-formed query the re-parse of
    the printed path is the identity, so the processed payload is that entry's content with every `{{ name }}` replaced
    by the value supplied for `name`, as supplied. -/
theorem C20_processed_reads_named_entry (t : List Leaf) (q : Query) (vars : List (Str × Str)) (hq : wf q = true) :
    processComponent t q vars =
      match yamlGet t (absRaw q) with
      | none => .err "load"
      | some content =>
        match lexTemplate content with
        | none => .unmodelled
        | some segs =>
          if (bindings vars).all (fun kv => validIdent kv.1) then
            .ok (renderSegs (fun n => lookup (bindings vars) n) segs)
          else .err "badident" :=
  processComponent_wf t q vars hq

/-- Content without any `{` is returned unchanged, whatever the variables (and whatever the configuration). -/
theorem C20_render_plain (c : Cfg) (content : Str) (vars : List (Str × Str)) (h : '{' ∉ content) :
    renderWith c content vars = some content ∧ renderVerbatim content vars = some content := by
  obtain ⟨segs, h1, h2⟩ := lex_text_no_brace content h
  simp [renderWith, renderVerbatim, lexTemplate, h1, h2]

/-- Exactly the variables supplied: the rendering depends on the variables only through the values of the names that
    occur in the template (unused variables are irrelevant, two variable sets agreeing on the used names render alike). -/
theorem C20_render_exact (c : Cfg) (content : Str) (segs : List Seg) (vars vars' : List (Str × Str))
    (hl : lexTemplate content = some segs)
    (h : ∀ n ∈ varNames segs, lookup (bindings vars) n = lookup (bindings vars') n) :
    renderWith c content vars = renderWith c content vars' ∧ renderVerbatim content vars = renderVerbatim content vars' := by
  simp only [renderWith, renderVerbatim, hl, Option.map_some, Option.some.injEq]
  exact ⟨renderSegs_congr _ _ segs (fun n hn => by simp [h n hn]), renderSegs_congr _ _ segs h⟩

/-- FULL-STRENGTH substitution clause of a configuration: every `{{ name }}` is replaced by the value supplied for
    `name`, verbatim — all templates of the fragment, all variables, all values. -/
def C20_substitution_full (c : Cfg) : Prop :=
  ∀ (content : Str) (vars : List (Str × Str)), renderWith c content vars = renderVerbatim content vars

/-- THE CODE AS IT IS substitutes verbatim: for every template of the fragment and ALL variables and values — `& < > " '`
    included — the rendering is the content with every `{{ name }}` replaced by the supplied value itself
    (`render` = `renderWith codeCfg`; `codeCfg` is tied to the linked code by `C20_substitution_is_code`). -/
theorem C20_substitution_code : C20_substitution_full codeCfg := by
  intro content vars
  simp only [renderWith, renderVerbatim, subst_code]

/-- …in the vocabulary of the model's `render`. -/
theorem C20_render_is_verbatim (content : Str) (vars : List (Str × Str)) :
    render content vars = renderVerbatim content vars :=
  C20_substitution_code content vars

/-- Whatever the configuration (the legacy one included): substitution is verbatim whenever the values of the names the
    template mentions contain none of `& < > " '` — for every template of the fragment, any number of occurrences, any
    variables. -/
theorem C20_substitution_partial (c : Cfg) (content : Str) (segs : List Seg) (vars : List (Str × Str))
    (hl : lexTemplate content = some segs)
    (hesc : ∀ n ∈ varNames segs, escapeFree (lookup (bindings vars) n) = true) :
    renderWith c content vars = renderVerbatim content vars := by
  simp only [renderWith, renderVerbatim, hl, Option.map_some, Option.some.injEq]
  exact renderSegs_congr _ _ segs (fun n hn => subst_of_escapeFree c _ (hesc n hn))

/-- The finding (repaired in the code as it is), machine-checked on the model of the code AS IT WAS: with pongo2's
    default autoescaping substituted values are HTML-escaped, so `{{ a }}` with a = `"x"&` yields `&quot;x&quot;&amp;`. -/
theorem C20_finding_autoescape_html : ¬ C20_substitution_full legacyCfg := by
  intro h
  have := h ['{', '{', ' ', 'a', ' ', '}', '}'] [(['a'], ['"', 'x', '"', '&'])]
  revert this; decide

/-! ## the model satisfies the Spec the harness evaluates on the implementation -/

/-- For every configuration, every tree, every query and all variables, the model's observation satisfies every clause
    of Spec.C20 except (possibly) verbatim substitution. -/
theorem C20_model_meets_spec_but_substitution (c : Cfg) (t : List Leaf) (q : Query) (vars : List (Str × Str)) :
    lookupOkButSubstitution t q vars (modelLookupObsWith c t q vars) = true := by
  unfold lookupOkButSubstitution modelLookupObsWith
  have hr := resolutionOk_model (yamlExists t) q
  cases h : resolve (yamlExists t) q with
  | none => simp only [h] at hr ⊢; simp [hr, payloadOk_getComponent]
  | some r => simp only [h] at hr ⊢; simp [hr, payloadOk_getComponent]

/-- THE CODE AS IT IS MEETS THE WHOLE OF Spec.C20, substitution included: for every tree, every well-formed query and
    ALL variables and values, the model's observation satisfies every clause the harness evaluates on the implementation. -/
theorem C20_model_meets_spec_code (t : List Leaf) (q : Query) (vars : List (Str × Str)) (hq : wf q = true) :
    lookupOk t q vars (modelLookupObs t q vars) = true := by
  unfold lookupOk modelLookupObs modelLookupObsWith
  have hr := resolutionOk_model (yamlExists t) q
  cases h : resolve (yamlExists t) q with
  | none => simp only [h] at hr ⊢; simp [hr, payloadOk_getComponent]
  | some r =>
    simp only [h] at hr ⊢
    have hw := resolve_wf (yamlExists t) q r hq h
    have hp := processedOk_model t r vars hw
    unfold processComponent at hp
    simp [hr, payloadOk_getComponent, hp]

/-- Whatever the configuration (the legacy one included), the whole of Spec.C20 holds when the values the resolved
    entry's template mentions are free of the five characters autoescaping rewrites. -/
theorem C20_model_meets_spec_partial (c : Cfg) (t : List Leaf) (q : Query) (vars : List (Str × Str)) (hq : wf q = true)
    (hesc : ∀ r, resolve (yamlExists t) q = some r → valuesEscapeFree t r vars = true) :
    lookupOk t q vars (modelLookupObsWith c t q vars) = true := by
  unfold lookupOk modelLookupObsWith
  have hr := resolutionOk_model (yamlExists t) q
  cases h : resolve (yamlExists t) q with
  | none => simp only [h] at hr ⊢; simp [hr, payloadOk_getComponent]
  | some r =>
    simp only [h] at hr ⊢
    have hw := resolve_wf (yamlExists t) q r hq h
    simp [hr, payloadOk_getComponent, processedOk_modelWith c t r vars hw (hesc r h)]

/-- The Spec tells the two configurations apart: on the finding's witness (`hosts={{ hosts }}` with
    hosts = `["flp1","flp2"]`) the observation of the code as it was FAILS `lookupOk` — were the repair reverted, the
    harness would report this input as a plain violation — while the code as it is returns `hosts=["flp1","flp2"]`. -/
theorem C20_legacy_violates_spec :
    let t : List Leaf := [⟨[['o', '2'], ['c', 'o', 'm', 'p', 'o', 'n', 'e', 'n', 't', 's'], ['q', 'c'], ['P', 'H', 'Y', 'S', 'I', 'C', 'S'], ['f', 'l', 'p', '0', '0', '1'], ['e']],
                           some ['h', 'o', 's', 't', 's', '=', '{', '{', ' ', 'h', 'o', 's', 't', 's', ' ', '}', '}']⟩]
    let q : Query := ⟨['q', 'c'], 1, ['f', 'l', 'p', '0', '0', '1'], ['e']⟩
    let vars := [(['h', 'o', 's', 't', 's'], ['[', '"', 'f', 'l', 'p', '1', '"', ',', '"', 'f', 'l', 'p', '2', '"', ']'])]
    wf q = true ∧ lookupOk t q vars (modelLookupObsWith legacyCfg t q vars) = false ∧
    (modelLookupObs t q vars).proc =
      .ok ['h', 'o', 's', 't', 's', '=', '[', '"', 'f', 'l', 'p', '1', '"', ',', '"', 'f', 'l', 'p', '2', '"', ']'] := by decide

/-- Query strings: the model's NewQuery satisfies Spec.C20.parseOk on every string. -/
theorem C20_parse_meets_spec (s : Str) : parseOk s (modelFullObs s) = true := by
  unfold parseOk modelFullObs
  cases h : parse s with
  | none => simp
  | some q => simp [parse_wf s q h, print_of_parse s q h, absRaw]

/-- Non-vacuity of the partial theorems: a tree where only ANY/any exists, a well-formed query, a templated entry. -/
example :
    let t : List Leaf := [⟨[['o', '2'], ['c', 'o', 'm', 'p', 'o', 'n', 'e', 'n', 't', 's'], ['q', 'c'], ['A', 'N', 'Y'], ['a', 'n', 'y'], ['e']],
                           some ['h', 'o', 's', 't', '=', '{', '{', ' ', 'h', 'o', 's', 't', ' ', '}', '}']⟩]
    let q : Query := ⟨['q', 'c'], 1, ['f', 'l', 'p', '0', '0', '1'], ['e']⟩
    let vars := [(['h', 'o', 's', 't'], ['f', 'l', 'p', '0', '0', '1'])]
    wf q = true ∧ resolve (yamlExists t) q = some ⟨['q', 'c'], 300, ['a', 'n', 'y'], ['e']⟩ ∧
    valuesEscapeFree t ⟨['q', 'c'], 300, ['a', 'n', 'y'], ['e']⟩ vars = true ∧
    processComponent t ⟨['q', 'c'], 300, ['a', 'n', 'y'], ['e']⟩ vars = .ok ['h', 'o', 's', 't', '=', 'f', 'l', 'p', '0', '0', '1'] ∧
    processComponentWith legacyCfg t ⟨['q', 'c'], 300, ['a', 'n', 'y'], ['e']⟩ vars = .ok ['h', 'o', 's', 't', '=', 'f', 'l', 'p', '0', '0', '1'] := by decide

/-! ## histories: many requests on one service (the per-base-path template cache)

  `Svc` = backend + the service's only cross-request state, the map path ↦ compiled template; `step`/`run` answer a
  history of GetAndProcess… (direct or after ResolveComponentQuery), GetComponentConfiguration,
  InvalidateComponentTemplateCache and backend changes; templates may `include`/`extend` other entries. -/

/-- What the request path does with the cached template set is what the model assumes: it only asks it for the
    compiled template (`FromCache`) — nothing of a request is stored in it — and the map of sets is touched only by the
    lookup-or-create and by the invalidation (go/ast over apricot/local, re-extracted on every run). -/
theorem C20_template_set_use_is_code :
    tplSetUses = Gen.C20.tplSetUses ∧ tplSetOtherRefs = Gen.C20.tplSetOtherRefs ∧
    templateSetsUsers = Gen.C20.templateSetsUsers := by decide

/-- The state a history leaves behind (backend and cache) does not depend on the variables its requests supplied. -/
theorem C20_seq_state_ignores_vars (s : Svc) (pre pre' : List Op) (h : sameButVars pre pre' = true) :
    after s pre = after s pre' :=
  after_sameButVars s pre pre' h

/-- EXACTLY THE VARIABLES SUPPLIED, over histories: the answer to a request is the same whatever variables the earlier
    requests of the history supplied (any service state, any history, any mix of operations). -/
theorem C20_seq_payload_own_vars (s : Svc) (pre pre' : List Op) (h : sameButVars pre pre' = true) (op : Op) :
    (run s (pre ++ [op])).getLast? = (run s (pre' ++ [op])).getLast? := by
  rw [run_append_singleton, run_append_singleton, after_sameButVars s pre pre' h]
  simp

/-- FULL-STRENGTH history clause (kept visible; FALSE of the code, see `C20_finding_stale_template_cache`): one service
    answers every request of every history as a fresh service over the backend of that moment would. -/
def C20_seq_fresh_full : Prop :=
  ∀ (t : List Leaf) (ops : List Op), run (freshSvc t) ops = runFresh t ops

/-- What IS proved: it does, for every history in which no request is processed between a backend change and the next
    InvalidateComponentTemplateCache (changes before anything was compiled do not count). -/
theorem C20_seq_fresh_partial (t : List Leaf) (ops : List Op) (h : noStale ops = true) :
    run (freshSvc t) ops = runFresh t ops :=
  run_eq_runFresh (freshSvc t) false false (fun _ => rfl) (fun _ e he => by simp [freshSvc] at he) ops h

/-- The finding, machine-checked on the model: a compiled template outlives a change of its entry. Request, change the
    entry, request again: the second answer is still rendered from the old content. -/
theorem C20_finding_stale_template_cache : ¬ C20_seq_fresh_full := by
  intro h
  have := h [⟨[['o', '2'], ['c', 'o', 'm', 'p', 'o', 'n', 'e', 'n', 't', 's'], ['q', 'c'], ['A', 'N', 'Y'], ['a', 'n', 'y'], ['e']], some ['v', '1']⟩]
    [.proc ⟨['q', 'c'], 300, ['a', 'n', 'y'], ['e']⟩ [],
     .put ['o', '2', '/', 'c', 'o', 'm', 'p', 'o', 'n', 'e', 'n', 't', 's', '/', 'q', 'c', '/', 'A', 'N', 'Y', '/', 'a', 'n', 'y', '/', 'e'] ['v', '2'],
     .proc ⟨['q', 'c'], 300, ['a', 'n', 'y'], ['e']⟩ []]
  revert this; decide

/-- An invalidation always restores exactness, whatever happened before: the request after it is answered as by a fresh
    service over the backend of that moment. -/
theorem C20_seq_inval_restores (s : Svc) (pre : List Op) (q : Query) (vars : List (Str × Str)) :
    (step (after s (pre ++ [.inval])) (.proc q vars)).2 = .pay (processT (treeAfter s.tree pre) q vars) := by
  rw [after_append]
  simp only [after, step, processT, freshSvc, after_tree]

/-- THE PAYLOAD OF REQUEST n: in a history without stale requests, the answer to a well-formed request is the entry it
    names, linked (includes, extends) against the backend of that moment, executed with the variables of THIS request —
    an expression in which neither the earlier requests nor their variables occur. -/
theorem C20_seq_payload_exact (t : List Leaf) (pre : List Op) (q : Query) (vars : List (Str × Str))
    (hq : wf q = true) (h : noStale (pre ++ [.proc q vars]) = true) :
    (run (freshSvc t) (pre ++ [.proc q vars])).getLast? =
      some (.pay (match linkedEntry (treeAfter t pre) q with
                  | .ok segs => execT segs vars
                  | .err c => .err c
                  | .unmodelled => .unmodelled)) := by
  rw [C20_seq_fresh_partial t _ h, runFresh_append_singleton]
  simp only [List.getLast?_append, List.getLast?_singleton, Option.some_or, step]
  have := processT_eq (treeAfter t pre) q vars
  unfold processT at this
  rw [← compileP_wf _ q hq, this]
  rfl

/-- The extended template fragment contains the plain one: an entry made of text and `{{ name }}` only is answered by a
    fresh service exactly as the single-request model says, so `C20_render_exact`, `C20_substitution_partial` … apply. -/
theorem C20_seq_fresh_plain (t : List Leaf) (q : Query) (vars : List (Str × Str)) (hq : wf q = true)
    (content : Str) (segs : List Seg) (hg : yamlGet t (absRaw q) = some content)
    (hl : lexTemplate content = some segs) (hb : blockKw ∉ varNames segs) :
    processT t q vars = processComponent t q vars :=
  processT_plain t q vars hq content segs hg hl hb

/-- The model's answers to a whole history satisfy the Spec the harness evaluates on the implementation — every
    request judged against the backend of its moment and its own variables — for all histories without stale requests,
    with well-formed queries; ALL variables and values (the code as it is substitutes them as supplied). -/
theorem C20_seq_model_meets_spec_partial (t : List Leaf) (ops : List Op) (hs : noStale ops = true)
    (hwf : opsWf ops = true) :
    seqOk t ops (modelSeqObs t ops) = true := by
  unfold modelSeqObs
  rw [C20_seq_fresh_partial t ops hs]
  exact seqOk_runFresh t ops hwf

/-- Non-vacuity: an entry that includes a snippet and a child that extends a base, asked three times with shrinking
    variable sets on one service; a variable that is no longer supplied renders empty. -/
example :
    let dir : List Str := [['o', '2'], ['c', 'o', 'm', 'p', 'o', 'n', 'e', 'n', 't', 's'], ['q', 'c'], ['A', 'N', 'Y'], ['a', 'n', 'y']]
    let t : List Leaf := [
      ⟨dir ++ [['g']], some ['[', '{', '{', ' ', 'w', ' ', '}', '}', ']', '{', '%', ' ', 'i', 'n', 'c', 'l', 'u', 'd', 'e', ' ', '"', 't', '"', ' ', '%', '}']⟩,
      ⟨dir ++ [['t']], some ['t', '=', '{', '{', 'm', '}', '}']⟩,
      ⟨dir ++ [['b']], some ['<', '{', '%', ' ', 'b', 'l', 'o', 'c', 'k', ' ', 'p', ' ', '%', '}', 'd', '{', '%', ' ', 'e', 'n', 'd', 'b', 'l', 'o', 'c', 'k', ' ', '%', '}', '>']⟩,
      ⟨dir ++ [['c']], some ['x', '{', '%', ' ', 'e', 'x', 't', 'e', 'n', 'd', 's', ' ', '"', 'b', '"', ' ', '%', '}', '{', '%', 'b', 'l', 'o', 'c', 'k', ' ', 'p', '%', '}', '{', '{', 'w', '}', '}', '{', '%', 'e', 'n', 'd', 'b', 'l', 'o', 'c', 'k', ' ', 'p', '%', '}']⟩]
    let g : Query := ⟨['q', 'c'], 300, ['a', 'n', 'y'], ['g']⟩
    let c : Query := ⟨['q', 'c'], 300, ['a', 'n', 'y'], ['c']⟩
    let ops : List Op := [.proc g [(['w'], ['A']), (['m'], ['f'])], .proc g [(['w'], ['B'])], .proc c [(['w'], ['C'])], .proc c []]
    noStale ops = true ∧ opsWf ops = true ∧
    run (freshSvc t) ops = [.pay (.ok ['[', 'A', ']', 't', '=', 'f']), .pay (.ok ['[', 'B', ']', 't', '=']),
                            .pay (.ok ['<', 'C', '>']), .pay (.ok ['<', '>'])] := by decide

/-! ## concurrent requests on one service over an unchanged configuration

  The front-ends run many lookups at once on ONE `Service`, hence on one backend object and one set of template sets.
  `Prog` = a request as a program of atomic steps (an existence probe, a value read, the template-set step under its
  mutex); `Conf.run c sched` = the pool of requests in flight executed under the schedule `sched` (which thread moves
  next) — any interleaving. The backend is a tree that does not change; that this is what the file backend offers when
  nobody modifies the file is pinned on the source by `C20_refresh_publishes_complete_trees_is_code`. -/

/-- What the model assumes about the file backend is what yamlsource.go does (go/ast, re-extracted on every run): inside
    `refresh` the shared snapshot `yc.data` is cleared only in blocks that leave with an error, and a tree is assigned to
    it exactly once, outside those blocks, after the file has been read, parsed and converted — so a concurrent reader
    finds the previous complete tree or the new complete tree, never an empty or half-built one; and no function of the
    lookup path writes into a tree. -/
theorem C20_refresh_publishes_complete_trees_is_code :
    refreshDataWrites = Gen.C20.refreshDataWrites ∧ readPathElemWrites = Gen.C20.readPathElemWrites ∧
    publishesOnlyCompleteTrees Gen.C20.refreshDataWrites = true ∧ Gen.C20.readPathElemWrites = 0 := by decide

/-- A request's program, run alone to its end, computes the request's sequential answer: the four existence probes are
    `resolve`, Exists + Get is `getComponent`, the template-set step on a service without cached templates followed by
    the execution is `processT`. -/
theorem C20_conc_program_is_sequential_answer (t : List Leaf) (rq : Req) : Prog.eval t (progOf rq) = rq.answer t :=
  eval_progOf t rq

/-- …and the sequential answer is the answer of the history model to the one-request history on a fresh service (the
    model the `seq` class ties to the code). -/
theorem C20_conc_answer_is_history_answer (t : List Leaf) (q : Query) (vars : List (Str × Str)) :
    run (freshSvc t) [.get q] = [(Req.get q).answer t] ∧
    run (freshSvc t) [.proc q vars] = [(Req.proc q vars).answer t] ∧
    run (freshSvc t) [.rproc q vars] = [(Req.rproc q vars).answer t] := by
  refine ⟨rfl, rfl, ?_⟩
  simp only [run, step, Req.answer, freshSvc]
  cases resolve (yamlExists t) q <;> rfl

/-- CONCURRENCY IS INVISIBLE. For every tree, every multiset of requests accepted at once by a service, EVERY schedule of
    their atomic steps and every request of the pool: whenever the request has finished, its answer is its sequential
    answer — the answer it gets when issued alone on a fresh service. -/
theorem C20_conc_answer_is_sequential (t : List Leaf) (reqs : List Req) (sched : List Nat) (i : Nat) (r : Resp)
    (h : ((startConf t reqs).run sched).answer? i = some r) :
    ∃ rq, reqs[i]? = some rq ∧ r = rq.answer t := by
  have ha := ((ConcInv.start t reqs).run sched).answer i r h
  rw [List.getElem?_map] at ha
  cases hq : reqs[i]? with
  | none => simp [hq] at ha
  | some rq => exact ⟨rq, rfl, by simpa [hq] using ha.symm⟩

/-- The schedule does not matter: two runs of the same pool under any two schedules give a request the same answer. -/
theorem C20_conc_schedule_irrelevant (t : List Leaf) (reqs : List Req) (sched sched' : List Nat) (i : Nat) (r r' : Resp)
    (h : ((startConf t reqs).run sched).answer? i = some r)
    (h' : ((startConf t reqs).run sched').answer? i = some r') : r = r' := by
  obtain ⟨rq, hq, rfl⟩ := C20_conc_answer_is_sequential t reqs sched i r h
  obtain ⟨rq', hq', rfl⟩ := C20_conc_answer_is_sequential t reqs sched' i r' h'
  rw [hq] at hq'
  cases hq'
  rfl

/-- The company does not matter: the answer to a request is the same whatever other requests are in flight with it
    (another pool, another position, another schedule). -/
theorem C20_conc_independent_of_other_requests (t : List Leaf) (reqs reqs' : List Req) (sched sched' : List Nat)
    (i i' : Nat) (rq : Req) (r r' : Resp) (hi : reqs[i]? = some rq) (hi' : reqs'[i']? = some rq)
    (h : ((startConf t reqs).run sched).answer? i = some r)
    (h' : ((startConf t reqs').run sched').answer? i' = some r') : r = r' := by
  obtain ⟨q, hq, rfl⟩ := C20_conc_answer_is_sequential t reqs sched i r h
  obtain ⟨q', hq', rfl⟩ := C20_conc_answer_is_sequential t reqs' sched' i' r' h'
  rw [hi] at hq
  rw [hi'] at hq'
  cases hq
  cases hq'
  rfl

/-- Lookups leave the backend as it was, and every template the service has cached by then is the compilation of its
    entry against that backend — under every schedule. -/
theorem C20_conc_backend_untouched (t : List Leaf) (reqs : List Req) (sched : List Nat) :
    ((startConf t reqs).run sched).svc.tree = t ∧
    ∀ e ∈ ((startConf t reqs).run sched).svc.cache, compileP t e.1 = .ok e.2 := by
  have h := (ConcInv.start t reqs).run sched
  refine ⟨h.tree, fun e he => ?_⟩
  have := h.current e he
  rwa [h.tree] at this

/-- Every request is answered: under any schedule that lets each thread move six times (four existence probes, then the
    two reads of the payload or the template-set step), whatever the other threads do in between, every request of the
    pool has finished — with its sequential answer. -/
theorem C20_conc_all_answered (t : List Leaf) (reqs : List Req) (sched : List Nat)
    (hfair : ∀ i, i < reqs.length → 6 ≤ sched.count i) (i : Nat) (rq : Req) (hi : reqs[i]? = some rq) :
    ((startConf t reqs).run sched).answer? i = some (rq.answer t) := by
  have hlt : i < reqs.length := by
    rcases Nat.lt_or_ge i reqs.length with hl | hl
    · exact hl
    · rw [List.getElem?_eq_none hl] at hi; cases hi
  have hp : (startConf t reqs).pool[i]? = some (progOf rq) := by simp [startConf, hi]
  have hs := Conf.run_finishes sched i (startConf t reqs) 6 (progOf rq) hp (doneWithin_progOf rq) (hfair i hlt)
  cases ha : ((startConf t reqs).run sched).answer? i with
  | none => simp [ha] at hs
  | some r =>
    obtain ⟨rq', hq', rfl⟩ := C20_conc_answer_is_sequential t reqs sched i r ha
    rw [hi] at hq'
    cases hq'
    rfl

/-- …in particular under the round-robin schedule (every thread in turn, six times over). -/
theorem C20_conc_round_robin_answers_all (t : List Leaf) (reqs : List Req) :
    reqs.mapIdx (fun i _ => ((startConf t reqs).run (roundRobin reqs.length 6)).answer? i) =
      reqs.map (fun rq => some (rq.answer t)) := by
  apply List.ext_getElem?
  intro i
  simp only [List.getElem?_mapIdx, List.getElem?_map]
  cases hi : reqs[i]? with
  | none => rfl
  | some rq =>
    simp only [Option.map_some]
    rw [C20_conc_all_answered t reqs _ (fun j hj => by rw [count_roundRobin _ _ _ hj]; exact Nat.le_refl 6) i rq hi]

/-- The backend assumption is needed, not decoration: if ONE probe of a request reads a cleared snapshot (an empty tree)
    instead of the configuration, the request's answer can differ from its sequential answer — a less specific entry
    than the one that exists. (`Prog.step ⟨[], []⟩` = one step against the cleared snapshot, `Prog.eval t` = the rest
    against the real tree.) -/
theorem C20_conc_cleared_snapshot_is_visible :
    ∃ (t : List Leaf) (rq : Req), Prog.eval t ((progOf rq).step ⟨[], []⟩).2 ≠ rq.answer t := by
  let dir : List Str := [['o', '2'], ['c', 'o', 'm', 'p', 'o', 'n', 'e', 'n', 't', 's'], ['q', 'c']]
  refine ⟨[⟨dir ++ [['P', 'H', 'Y', 'S', 'I', 'C', 'S'], ['r'], ['e']], some ['x']⟩,
           ⟨dir ++ [['A', 'N', 'Y'], ['a', 'n', 'y'], ['e']], some ['y']⟩],
          .res ⟨['q', 'c'], 1, ['r'], ['e']⟩, ?_⟩
  decide

/-- The model's observation of a concurrent case satisfies the Spec the harness evaluates on the implementation: every
    answer — alone or under concurrency — names the most specific existing entry, returns the named entry's content,
    templates it with the request's own variables, as supplied (well-formed queries; ALL variables and values). -/
theorem C20_conc_model_meets_spec_partial (t : List Leaf) (reqs : List Req) (hwf : reqs.all reqWf = true) :
    concOk t reqs (modelConcObs t reqs) = true :=
  concOk_model t reqs hwf

/-- Non-vacuity: three requests on a tree where the exact entry and ANY/any exist, under a schedule that interleaves
    their probes; each finishes with its sequential answer. -/
example :
    let dir : List Str := [['o', '2'], ['c', 'o', 'm', 'p', 'o', 'n', 'e', 'n', 't', 's'], ['q', 'c']]
    let t : List Leaf := [⟨dir ++ [['P', 'H', 'Y', 'S', 'I', 'C', 'S'], ['r'], ['e']], some ['x', '=', '{', '{', 'a', '}', '}']⟩,
                          ⟨dir ++ [['A', 'N', 'Y'], ['a', 'n', 'y'], ['e']], some ['y']⟩]
    let q : Query := ⟨['q', 'c'], 1, ['r'], ['e']⟩
    let q2 : Query := ⟨['q', 'c'], 2, ['s'], ['e']⟩
    let reqs : List Req := [.rget q2, .rproc q [(['a'], ['1'])], .res q]
    let c := (startConf t reqs).run [0, 1, 2, 0, 1, 0, 2, 0, 1, 0, 0, 2]
    reqs.all reqWf = true ∧
    c.answer? 0 = some (.res (some ⟨['q', 'c'], 300, ['a', 'n', 'y'], ['e']⟩) (.ok ['y'])) ∧
    c.answer? 1 = some (.res (some q) (.ok ['x', '=', '1'])) ∧
    c.answer? 2 = some (.res (some q) .dash) := by decide
