/-
  Spec/C01 — "Environment state changes only along the documented graph, one at a time",
  as a decidable predicate over what the harness observed (an `ITrace`) and over
  model runs (`List (St × Req × Result × St)`).
-/
import ControlModel.Spec.EnvTrace

namespace EnvM

/-- Events a client can request through ControlEnvironment (MakeTransition). -/
def Ev.isApi : Ev → Bool
  | .DEPLOY | .CONFIGURE | .RESET | .START_ACTIVITY | .STOP_ACTIVITY => true
  | _ => false

def St.live : St → Bool
  | .STANDBY | .DEPLOYED | .CONFIGURED | .RUNNING => true
  | _ => false

/-- The documented graph: the five requestable transitions, GO_ERROR from any live
    state, teardown to DONE from anywhere but DONE; staying put is always allowed. -/
def docEdge (s s' : St) : Bool :=
  s == s' ||
  Ev.all.any (fun e => e.isApi && dst? e s == some s') ||
  (s.live && s' == .ERROR) ||
  (s != .DONE && s' == .DONE)

/-- Requests the property quantifies over: API control requests, teardowns, and
    the internal GO_ERROR (workflow watcher, auto-stop failure). EXIT and RECOVER
    are in the FSM table but nothing in the core ever requests them. -/
def Req.inScope : Req → Bool
  | .control e _ _ => e.isApi
  | .try_ e _ _ => e.isApi || e == .GO_ERROR
  | .teardown .. => true

/-- One request as the property sees it. -/
structure ReqObs where
  req : Req
  before : St
  after : St
  okResult : Bool
  notFound : Bool
  ranOwnHooksOrBody : Bool     -- a before_<e> step or the body of the requested event was observed
  gone : Bool

def reqOk (o : ReqObs) : Bool :=
  docEdge o.before o.after &&
  (o.before != .DONE || o.after == .DONE) &&
  (match o.req with
   | .control e _ _ =>
     (dst? e o.before != none || (!o.ranOwnHooksOrBody && !o.okResult)) &&   -- illegal ⇒ inert and refused
     -- failed API request ⇒ ERROR; a request that finds the environment DONE (it looked it up while a
     -- teardown was in progress) is refused like any illegal one and — second clause above — leaves it DONE
     (o.okResult || o.notFound || o.after == .ERROR || o.before == .DONE)
   | .try_ e _ _ => dst? e o.before != none || (!o.ranOwnHooksOrBody && !o.okResult && o.after == o.before)
   | .teardown f _ _ =>
     -- a teardown is legal from STANDBY / DEPLOYED, with force from anywhere but DONE; an illegal one is refused and inert
     (o.notFound || (o.before != .DONE && (f || o.before == .STANDBY || o.before == .DEPLOYED)) ||
        (!o.okResult && o.after == o.before)) &&
     (!o.okResult || (o.after == .DONE && o.gone) || o.notFound)) &&
  (!o.gone || o.after == .DONE)

/-- Split an observed trace into per-request segments (each ends with its reqEnd). -/
def segments : ITrace → List IEv → List (List IEv)
  | [], _ => []        -- probe records of floating calls after the last request belong to no request
  | e :: rest, acc =>
    match e with
    | .reqEnd .. => (e :: acc).reverse :: segments rest []
    | _ => segments rest (e :: acc)

def evOf : Req → Option Ev
  | .control e _ _ => some e
  | .try_ e _ _ => some e
  | .teardown .. => none

def obsOf (q : Req) (before : St) (seg : List IEv) : Option ReqObs :=
  match seg.getLast? with
  | some (.reqEnd res st _ _ _ gone) =>
    match St.parse? st with
    | none => none
    | some after =>
      let own := match evOf q with
        | some e => seg.any fun
            | .mark n _ => n == "before_" ++ e.name || n == "tasks_" ++ e.name
            | .body b => b == e.name
            | _ => false
        | none => false
      some { req := q, before := before, after := after, okResult := res == .ok,
             notFound := (match res with | .err "notfound" _ => true | _ => false),
             ranOwnHooksOrBody := own, gone := gone }
  | _ => none

def specSegs : List Req → St → List (List IEv) → Bool
  | [], _, [] => true
  | q :: qs, s, seg :: segs =>
    match obsOf q s seg with
    | none => false
    | some o => reqOk o && specSegs qs o.after segs
  | _, _, _ => false

/-- Spec.C01 on an observed trace: vacuous outside the property's scope. -/
def specC01 (reqs : List Req) (tr : ITrace) : Bool :=
  !reqs.all Req.inScope || specSegs reqs .STANDBY (segments tr [])

/-! ### overlapping pairs: one at a time

  For a pair `(P a b)` the harness parks `a` INSIDE its critical section (it holds the transition mutex),
  issues `b` from a second caller and records — while `a` is still in there — what `b` was seen doing and
  the state the environment reported before `b` was issued and after (`IEv.overlap how st0 st1`). "One at a
  time" on that observation:

  * the reported state does not move while `a` is in progress (`st1 = st0`): whatever moved it was carried
    out concurrently with `a`, on the state `a` started from and not on the one it leaves. In the model no
    move of a caller that has not yet been inside the mutex is enabled while another caller holds it
    (`C01_nothing_happens_while_held`), and the only state write outside a critical section — the glue's
    forced ERROR — is made by a caller that has been through two critical sections of its own before
    (`C01_forced_write_needs_own_sections`): it cannot come from a request that has just arrived;
  * a request that RETURNED while `a` was in progress was not carried out: none of its own hooks or body
    ran and it reports the state it found; `a` is then judged on the state before the pair;
  * otherwise (`b` queued) the two are judged one after the other, `b` on the state `a` left.

  A pair may keep `a` in its TASK PHASE for a while — `(P a b holdMs)`: the command `a` sent to the tasks stays
  unanswered — and take a second sighting before the answer comes (`IEv.held first second st`). While the
  command is unanswered the transition is in progress, however long the tasks take and whatever the
  environment was configured with:

  * `a` has not returned to its caller (`first = inside`): a caller that is told "failed" goes on — the
    API glue with GO_ERROR — as if the transition were over;
  * `b` has not got into its critical section (`second ≠ inside`) — if it has returned meanwhile it is judged
    as above (inert);
  * the state is still the one `a` found (`st = st0`);
  * and no command of a transition body ever reaches the tasks while an earlier one of the same environment
    is unanswered (`IEv.bodyOverlap`, anywhere in a trace): at most one task phase at a time
    (`C01_task_phases_never_overlap`, `C01_task_phase_is_synchronous_is_code`).
-/

def overlapOf (seg : List IEv) : Option (String × String × String) :=
  seg.findSome? fun
    | .overlap how a b => some (how, a, b)
    | _ => none

/-- the part of a segment recorded after the overlap record -/
def afterOverlap (seg : List IEv) : List IEv := (seg.dropWhile (fun e => !e.isOverlap)).drop 1

/-- the part of a segment recorded before the overlap record -/
def beforeOverlap (seg : List IEv) : List IEv := seg.takeWhile (fun e => !e.isOverlap)

/-- the second sightings of a segment are those of a first request still in its task phase, a second one
    that is not being carried out, and a state that has not moved since the pair was issued -/
def heldOk (seg : List IEv) (st0 : String) : Bool :=
  seg.all fun
    | .held first second st => first == "inside" && second != "inside" && st == st0
    | _ => true

/-- the second request was seen to have returned at the second sighting -/
def heldReturned (seg : List IEv) : Bool :=
  seg.any fun
    | .held _ second _ => second == "returned"
    | _ => false

/-- no second command in flight, anywhere -/
def noBodyOverlap (tr : ITrace) : Bool :=
  tr.all fun
    | .bodyOverlap .. => false
    | _ => true

/-- a request that was not carried out: nothing of its own ran and the state it reports is the one it found -/
def ReqObs.inert (o : ReqObs) : Bool := !o.ranOwnHooksOrBody && o.after == o.before

def specPSegs : List PReq → St → List (List IEv) → Bool
  | [], _, [] => true
  | .one q :: qs, s, seg :: segs =>
    (match obsOf q s seg with
     | none => false
     | some o => reqOk o && specPSegs qs o.after segs)
  | .par a b :: qs, s, seg1 :: seg2 :: segs =>
    (match overlapOf seg1 with
     | some (how, st0, st1) =>
       -- nothing is carried out while `a` is inside its critical section
       st1 == st0 && heldOk seg1 st0 &&
       (if how == "returned" || heldReturned seg1 then
          -- `b` returned while `a` was in progress: seg1 ends with b's record, a's is the next
          match obsOf b s (afterOverlap seg1), obsOf a s (beforeOverlap seg1 ++ seg2) with
          | some ob, some oa => ob.inert && reqOk ob && reqOk oa && specPSegs qs oa.after segs
          | _, _ => false
        else
          match obsOf a s seg1 with
          | none => false
          | some oa =>
            reqOk oa &&
            (match obsOf b oa.after seg2 with
             | none => false
             | some ob => reqOk ob && specPSegs qs ob.after segs))
     | none =>
       -- `a` returned before it got as far as a gate point: the two ran one after the other
       match obsOf a s seg1 with
       | none => false
       | some oa =>
         reqOk oa &&
         (match obsOf b oa.after seg2 with
          | none => false
          | some ob => reqOk ob && specPSegs qs ob.after segs))
  | _, _, _ => false

def PReq.allInScope : PReq → Bool
  | .one q => q.inScope
  | .par a b => a.inScope && b.inScope

/-- Spec.C01 for request lists with overlapping pairs. No hypothesis is excluded: since the repair
    "ControlEnvironment does not force ERROR on an environment that is DONE" the graph clause is proved
    for every list (`C01_graph_par_code`), so a DONE → ERROR report is a plain violation. -/
def specC01P (preqs : List PReq) (tr : ITrace) : Bool × String :=
  (!preqs.all PReq.allInScope || (noBodyOverlap tr && specPSegs preqs .STANDBY (segments tr [])), "-")

end EnvM
