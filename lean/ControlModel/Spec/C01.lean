/-
  Spec/C01 — "Environment state changes only along the documented graph, one at a time",
  as a decidable predicate over what the harness observed (an `ITrace`) and over
  model runs (`List (St × Req × Result × St)`).
-/
import ControlModel.Spec.EnvTrace

namespace EnvM

/-- Events a client can request through ControlEnvironment (MakeTransition). -/
def Ev.isApi : Ev → Bool
  | .DEPLOY | .CONFIGURE | .RESET | .START_ACTIVITY | .STOP_ACTIVITY => true
  | _ => false

def St.live : St → Bool
  | .STANDBY | .DEPLOYED | .CONFIGURED | .RUNNING => true
  | _ => false

/-- The documented graph: the five requestable transitions, GO_ERROR from any live
    state, teardown to DONE from anywhere but DONE; staying put is always allowed. -/
def docEdge (s s' : St) : Bool :=
  s == s' ||
  Ev.all.any (fun e => e.isApi && dst? e s == some s') ||
  (s.live && s' == .ERROR) ||
  (s != .DONE && s' == .DONE)

/-- Requests the property quantifies over: API control requests, teardowns, and
    the internal GO_ERROR (workflow watcher, auto-stop failure). EXIT and RECOVER
    are in the FSM table but nothing in the core ever requests them. -/
def Req.inScope : Req → Bool
  | .control e _ _ => e.isApi
  | .try_ e _ _ => e.isApi || e == .GO_ERROR
  | .teardown .. => true

/-- One request as the property sees it. -/
structure ReqObs where
  req : Req
  before : St
  after : St
  okResult : Bool
  notFound : Bool
  ranOwnHooksOrBody : Bool     -- a before_<e> step or the body of the requested event was observed
  gone : Bool

def reqOk (o : ReqObs) : Bool :=
  docEdge o.before o.after &&
  (o.before != .DONE || o.after == .DONE) &&
  (match o.req with
   | .control e _ _ =>
     (dst? e o.before != none || (!o.ranOwnHooksOrBody && !o.okResult)) &&   -- illegal ⇒ inert and refused
     (o.okResult || o.notFound || o.after == .ERROR)                            -- failed API request ⇒ ERROR
   | .try_ e _ _ => dst? e o.before != none || (!o.ranOwnHooksOrBody && !o.okResult && o.after == o.before)
   | .teardown f _ _ =>
     -- a teardown is legal from STANDBY / DEPLOYED, with force from anywhere but DONE; an illegal one is refused and inert
     (o.notFound || (o.before != .DONE && (f || o.before == .STANDBY || o.before == .DEPLOYED)) ||
        (!o.okResult && o.after == o.before)) &&
     (!o.okResult || (o.after == .DONE && o.gone) || o.notFound)) &&
  (!o.gone || o.after == .DONE)

/-- Split an observed trace into per-request segments (each ends with its reqEnd). -/
def segments : ITrace → List IEv → List (List IEv)
  | [], _ => []        -- probe records of floating calls after the last request belong to no request
  | e :: rest, acc =>
    match e with
    | .reqEnd .. => (e :: acc).reverse :: segments rest []
    | _ => segments rest (e :: acc)

def evOf : Req → Option Ev
  | .control e _ _ => some e
  | .try_ e _ _ => some e
  | .teardown .. => none

def obsOf (q : Req) (before : St) (seg : List IEv) : Option ReqObs :=
  match seg.getLast? with
  | some (.reqEnd res st _ _ _ gone) =>
    match St.parse? st with
    | none => none
    | some after =>
      let own := match evOf q with
        | some e => seg.any fun
            | .mark n _ => n == "before_" ++ e.name || n == "tasks_" ++ e.name
            | .body b => b == e.name
            | _ => false
        | none => false
      some { req := q, before := before, after := after, okResult := res == .ok,
             notFound := (match res with | .err "notfound" _ => true | _ => false),
             ranOwnHooksOrBody := own, gone := gone }
  | _ => none

def specSegs : List Req → St → List (List IEv) → Bool
  | [], _, [] => true
  | q :: qs, s, seg :: segs =>
    match obsOf q s seg with
    | none => false
    | some o => reqOk o && specSegs qs o.after segs
  | _, _, _ => false

/-- The first request (by index in mutex order) whose observation `reqOk` rejects, with that observation. -/
def firstBad : List Req → St → List (List IEv) → Nat → Option (Nat × Option ReqObs)
  | [], _, [], _ => none
  | q :: qs, s, seg :: segs, n =>
    match obsOf q s seg with
    | none => some (n, none)
    | some o => if reqOk o then firstBad qs o.after segs (n + 1) else some (n, some o)
  | _, _, _, n => some (n, none)

/-- Indices (in mutex order) of the requests that arrived while their predecessor was in progress. -/
def heldIdx : List PReq → Nat → List Nat
  | [], _ => []
  | .one _ :: qs, n => heldIdx qs (n + 1)
  | .par _ _ :: qs, n => (n + 1) :: heldIdx qs (n + 2)

/-- Excluded hypothesis of `C01_graph_par_partial` (finding control_overlaps_teardown): the rejected
    request is an API control request that arrived while a teardown was in progress and found the
    environment in DONE when it got the mutex. -/
def overlapHyp (preqs : List PReq) (bad : Nat × Option ReqObs) : Bool :=
  (heldIdx preqs 0).contains bad.1 &&
  (match bad.2 with
   | some o => (match o.req with | .control .. => true | _ => false) && o.before == .DONE
   | none => false)

/-- Spec.C01 on an observed trace: vacuous outside the property's scope. -/
def specC01 (reqs : List Req) (tr : ITrace) : Bool :=
  !reqs.all Req.inScope || specSegs reqs .STANDBY (segments tr [])

/-- The same for request lists with overlapping pairs, with the excluded hypothesis (known
    finding) a rejected observation falls under, if any. -/
def specC01P (preqs : List PReq) (tr : ITrace) : Bool × String :=
  let reqs := (preqs.map PReq.flat).flatten
  if !reqs.all Req.inScope then (true, "-")
  else match firstBad reqs .STANDBY (segments tr []) 0 with
    | none => (true, "-")
    | some bad => (false, if overlapHyp preqs bad then "control_overlaps_teardown" else "-")

end EnvM
