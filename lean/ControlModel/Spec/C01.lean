/-
  Spec/C01 — "Environment state changes only along the documented graph, one at a time",
  as a decidable predicate over what the harness observed (an `ITrace`) and over
  model runs (`List (St × Req × Result × St)`).
-/
import ControlModel.Spec.EnvTrace

namespace EnvM

/-- Events a client can request through ControlEnvironment (MakeTransition). -/
def Ev.isApi : Ev → Bool
  | .DEPLOY | .CONFIGURE | .RESET | .START_ACTIVITY | .STOP_ACTIVITY => true
  | _ => false

def St.live : St → Bool
  | .STANDBY | .DEPLOYED | .CONFIGURED | .RUNNING => true
  | _ => false

/-- The documented graph: the five requestable transitions, GO_ERROR from any live
    state, teardown to DONE from anywhere but DONE; staying put is always allowed. -/
def docEdge (s s' : St) : Bool :=
  s == s' ||
  Ev.all.any (fun e => e.isApi && dst? e s == some s') ||
  (s.live && s' == .ERROR) ||
  (s != .DONE && s' == .DONE)

/-- Requests the property quantifies over: API control requests, teardowns, and
    the internal GO_ERROR (workflow watcher, auto-stop failure). EXIT and RECOVER
    are in the FSM table but nothing in the core ever requests them. -/
def Req.inScope : Req → Bool
  | .control e _ _ => e.isApi
  | .try_ e _ _ => e.isApi || e == .GO_ERROR
  | .teardown .. => true

/-- One request as the property sees it. -/
structure ReqObs where
  req : Req
  before : St
  after : St
  okResult : Bool
  notFound : Bool
  ranOwnHooksOrBody : Bool     -- a before_<e> step or the body of the requested event was observed
  gone : Bool

def reqOk (o : ReqObs) : Bool :=
  docEdge o.before o.after &&
  (o.before != .DONE || o.after == .DONE) &&
  (match o.req with
   | .control e _ _ =>
     (dst? e o.before != none || (!o.ranOwnHooksOrBody && !o.okResult)) &&   -- illegal ⇒ inert and refused
     -- failed API request ⇒ ERROR; a request that finds the environment DONE (it looked it up while a
     -- teardown was in progress) is refused like any illegal one and — second clause above — leaves it DONE
     (o.okResult || o.notFound || o.after == .ERROR || o.before == .DONE)
   | .try_ e _ _ => dst? e o.before != none || (!o.ranOwnHooksOrBody && !o.okResult && o.after == o.before)
   | .teardown f _ _ =>
     -- a teardown is legal from STANDBY / DEPLOYED, with force from anywhere but DONE; an illegal one is refused and inert
     (o.notFound || (o.before != .DONE && (f || o.before == .STANDBY || o.before == .DEPLOYED)) ||
        (!o.okResult && o.after == o.before)) &&
     (!o.okResult || (o.after == .DONE && o.gone) || o.notFound)) &&
  (!o.gone || o.after == .DONE)

/-- Split an observed trace into per-request segments (each ends with its reqEnd). -/
def segments : ITrace → List IEv → List (List IEv)
  | [], _ => []        -- probe records of floating calls after the last request belong to no request
  | e :: rest, acc =>
    match e with
    | .reqEnd .. => (e :: acc).reverse :: segments rest []
    | _ => segments rest (e :: acc)

def evOf : Req → Option Ev
  | .control e _ _ => some e
  | .try_ e _ _ => some e
  | .teardown .. => none

def obsOf (q : Req) (before : St) (seg : List IEv) : Option ReqObs :=
  match seg.getLast? with
  | some (.reqEnd res st _ _ _ gone) =>
    match St.parse? st with
    | none => none
    | some after =>
      let own := match evOf q with
        | some e => seg.any fun
            | .mark n _ => n == "before_" ++ e.name || n == "tasks_" ++ e.name
            | .body b => b == e.name
            | _ => false
        | none => false
      some { req := q, before := before, after := after, okResult := res == .ok,
             notFound := (match res with | .err "notfound" _ => true | _ => false),
             ranOwnHooksOrBody := own, gone := gone }
  | _ => none

def specSegs : List Req → St → List (List IEv) → Bool
  | [], _, [] => true
  | q :: qs, s, seg :: segs =>
    match obsOf q s seg with
    | none => false
    | some o => reqOk o && specSegs qs o.after segs
  | _, _, _ => false

/-- Spec.C01 on an observed trace: vacuous outside the property's scope. -/
def specC01 (reqs : List Req) (tr : ITrace) : Bool :=
  !reqs.all Req.inScope || specSegs reqs .STANDBY (segments tr [])

/-- The same for request lists with overlapping pairs (judged in the order in which the requests got
    the mutex). No hypothesis is excluded any more: since the repair "ControlEnvironment does not force
    ERROR on an environment that is DONE" the graph clause is proved for every list
    (`C01_graph_par_code`), so a DONE → ERROR report is a plain violation. -/
def specC01P (preqs : List PReq) (tr : ITrace) : Bool × String :=
  (specC01 ((preqs.map PReq.flat).flatten) tr, "-")

end EnvM
