/-
  Spec/C02 — "a transition succeeds iff every critical task acknowledged it", as decidable predicates
  over (scenario, what was observed at the API).

  For every request: let `acked` = every critical task of the workflow that is alive got there
  (DEPLOY: became active; otherwise: answered the command without error). Then
    acked   ⇒ the request answers OK, with the destination state, and the environment is in it;
    ¬acked  ⇒ the request answers with an error, the destination is not reported, and the environment
              ends in ERROR (NewEnvironment: is not left in the destination — it is torn down).
  Failures of non-critical tasks and the absence of tasks do not enter `acked`: they must not matter.
  Neither does the loss of a target's executor or agent while the command is outstanding — except through what the
  task then does: a reply that never left is not an acknowledgement (`effOuts`). When a critical live task is lost and
  the transition nevertheless succeeds (it had acknowledged before), the request still answers OK; the environment is
  then taken to ERROR by its watcher, which may show in the reply's state already.
-/
import ControlModel.Model.Transition
import ControlModel.Model.DeployAttempts
import ControlModel.Model.Deadline

namespace Trans
open EnvM

/-- Every commanded critical task acknowledged the command without error. -/
def allCriticalAcked (ts : List Target) : Bool := ts.all (fun t => !t.1 || t.2 = .ok)

/-- The task did start in time. -/
def Launch.started : Launch → Bool
  | .ok => true
  | .okEarly => true
  | _ => false

/-- Every critical task became active. -/
def allCriticalLaunched (ls : List (Bool × Launch)) : Bool := ls.all (fun l => !l.1 || l.2.started)

/-! The corners where the code (and so the faithful model) departs or departed from the property: each is the excluded
    hypothesis of a `…_partial` theorem and the id of a finding (or, for deploy_misses_active, of one of its mechanisms).
    Repaired in /repo: single_target_ignores_critical, zero_targets_error, configure_nothing_hangs,
    rpc_ok_on_failed_transition, deploy_empty_workflow and the dropped "root is ACTIVE" notification (mechanism (b) of
    deploy_misses_active, named deploy_notification_lost here): the verdict `judge` no longer names them
    (`openCorner`), so a regression is a plain violation. -/

/-- The command goes to nobody. -/
def noTargets (ts : List Target) : Bool := ts.isEmpty

/-- The command goes to exactly one task, which is not critical and does not acknowledge. -/
def singleNoncritFail (ts : List Target) : Bool :=
  match ts with
  | [t] => !t.1 && t.2 ≠ .ok
  | _ => false

/-- Some non-critical task does not become active at DEPLOY. -/
def noncritLaunchFail (ls : List (Bool × Launch)) : Bool := ls.any (fun l => !l.1 && !l.2.started)

/-- Some task's TASK_RUNNING update overtook the roster. -/
def earlyRunning (ls : List (Bool × Launch)) : Bool := ls.any (fun l => l.2 = .okEarly)

/-- The workflow has no role at all. -/
def emptyWorkflow (wf : Workflow) : Bool := wf.tasks.isEmpty && wf.calls = 0

/-- What the property demands of one request's observation. `cl`: a critical live task was lost during the request. -/
def reqOk (acked : Bool) (dst : St) (isNew : Bool) (o : Obs) (cl : Bool := false) : Bool :=
  if acked then
    if cl then o.rpc = .ok && (o.state = some dst || o.state = some .ERROR) && o.after = some .ERROR
    else o.rpc = .ok && o.state = some dst && o.after = some dst
  else o.rpc = .err && o.state ≠ some dst && (if isNew then o.after ≠ some dst else o.after = some .ERROR)

def reached (dst : St) (o : Obs) : Bool := o.rpc = .ok && o.state = some dst

/-- Verdict on one ControlEnvironment observation: `none` = as demanded, `some id` = violated, `id` being the
    excluded corner the input lies in (or "-"). -/
def judgeCtl (e : Ev) (dst : St) (ts : List Target) (o : Obs) (cl : Bool := false) : Option String :=
  let acked := allCriticalAcked ts
  if reqOk acked dst false o cl then none
  else if acked then
    if reached dst o then some "-"          -- reported, but the state afterwards is not the destination
    else if noTargets ts then some (if e = .CONFIGURE then "configure_nothing_hangs" else "zero_targets_error")
    else if singleNoncritFail ts then some "single_target_ignores_critical"
    else some "-"
  else
    if !reached dst o && o.rpc = .ok && o.after = some .ERROR then some "rpc_ok_on_failed_transition"
    else some "-"

/-- Verdict on the NewEnvironment observation. -/
def judgeNew (wf : Workflow) (ts : List Target) (o : Obs) : Option String :=
  let acked := allCriticalLaunched wf.tasks && allCriticalAcked ts
  if reqOk acked .CONFIGURED true o then none
  else if acked then
    if reached .CONFIGURED o then some "-"
    else if emptyWorkflow wf then some "deploy_empty_workflow"
    else if earlyRunning wf.tasks then some "deploy_misses_active"
    else if noncritLaunchFail wf.tasks then some "deploy_noncritical_blocks"
    else if wf.notifyLost then some "deploy_notification_lost"
    else if noTargets ts then some "configure_nothing_hangs"
    else if singleNoncritFail ts then some "single_target_ignores_critical"
    else some "-"
  else some "-"

/-- The requests the property speaks about (besides the DEPLOY inside NewEnvironment): those whose body commands the tasks. -/
def commands (e : Ev) : Bool :=
  e = .CONFIGURE || e = .START_ACTIVITY || e = .STOP_ACTIVITY || e = .RESET

/-- Walk the observed requests along the scenario, keeping the books the property needs (which tasks are alive,
    which state the environment was last reported in). -/
def judgeSteps (st : St) (tasks : List Task) : List SStep → List Obs → Option String
  | [], _ => none
  | _, [] => none
  | .die outs :: rest, os => judgeSteps st (afterCommand tasks outs) rest os
  | .ctl e outs _ ls :: rest, o :: os =>
    if !commands e then none else
    match dst? e st with
    | none => none          -- not a request the property speaks about
    | some d =>
      -- what the targets did, losses taken into account: a reply that never left is no acknowledgement
      let outs' := effOuts ls outs
      match judgeCtl e d (targets (pair tasks outs')) o (critLost ls tasks) with
      | some h => some h
      | none =>
        if reached d o && !critLost ls tasks then judgeSteps d (loseTasks ls (afterCommand tasks outs')) rest os else none

/-- The verdict with EVERY corner named, the repaired ones too (the analysis of the code as it was: `Cfg.legacy`). -/
def judgeAll (sc : Scenario) : List Obs → Option String
  | [] => none
  | o :: os =>
    let tasks : List Task := sc.wf.tasks.map (fun t => { critical := t.1, active := t.2 = .ok })
    match judgeNew sc.wf (targets (pair tasks sc.configure)) o with
    | some h => some h
    | none => if reached .CONFIGURED o then judgeSteps .CONFIGURED (afterCommand tasks sc.configure) sc.steps os else none

/-- The corners that are still open findings (both in DEPLOY): a TASK_RUNNING update that overtakes the roster (what is
    left of deploy_misses_active) and a non-critical task that does not start. -/
def openCorner (h : String) : Bool :=
  h == "deploy_misses_active" || h == "deploy_noncritical_blocks"

/-- Spec.C02 on an observed run: `none` = as demanded; `some id` = violated inside the open corner `id`;
    `some "-"` = violated elsewhere (which includes the four repaired corners). -/
def judge (sc : Scenario) (os : List Obs) : Option String :=
  (judgeAll sc os).map (fun h => if openCorner h then h else "-")

/-! ### DEPLOY with offers that come late

  The offers rounds are part of the environment, like the tasks' scripts. The deployment is decided on the LAST round
  that took place (one round per attempt the master saw): a task whose machine's offer is missing from that round had no
  machine to start on — for the property exactly a task whose role names a machine that no agent has (`nohost`). So the
  clauses above are evaluated on the workflow "as offered" in that round: every critical task's machine on offer and
  every critical task coming up ⇒ DEPLOYED must be reported, and a NON-critical task's missing machine must not matter
  (where it does: corner deploy_noncritical_blocks). On top of that the attempts themselves must make sense: no more
  than the limit; the whole deployment is requested again only after a round in which a critical task's machine was
  missing (a repeated request launches every task a second time); and the core does not give up before the limit while
  a critical task's machine is still missing. (The core used to give up early when the verdict of a round was lost on its
  way to acquireTasks: the former finding deploy_verdict_lost, `judgeOAll`.) -/

/-- The tasks launched in the last attempt. -/
def lastAttempt (att : List (List Nat)) : List Nat := att.getLast?.getD []

/-- The attempt that launched `l` left a critical descriptor unlaunched. -/
def critUnlaunched (ds : List Desc) (l : List Nat) : Bool :=
  (indexed ds).any (fun p => p.2.critical && !l.contains p.1)

/-- Every attempt but the last left a critical descriptor unlaunched. -/
def retriesJustified (ds : List Desc) : List (List Nat) → Bool
  | [] => true
  | [_] => true
  | l :: l' :: rest => critUnlaunched ds l && retriesJustified ds (l' :: rest)

/-- The last of `n` offers rounds. -/
def lastRound (rs : List Round) (n : Nat) : Round := rs.getD (n - 1) []

/-- `n` attempts were made on the rounds `rs`. -/
def attemptsOk (ds : List Desc) (rs : List Round) (n : Nat) : Bool :=
  decide (n ≤ attemptLimit) &&
  (List.range (n - 1)).all (fun i => critMissing ds (rs.getD i [])) &&
  (!critMissing ds (lastRound rs n) || n == attemptLimit)

/-- The workflow as offered in the last of `n` rounds: a task whose machine's offer is missing has no machine. -/
def OWorkflow.asOffered (w : OWorkflow) (n : Nat) : Workflow :=
  { calls := w.calls,
    tasks := w.tasks.map (fun t => (t.critical, if t.desc.offered (lastRound w.rounds n) then t.launch else .nohost)),
    notifyLost := w.notifyLost }

/-- Spec.C02 on an observed run of a scenario with scripted offers rounds: the attempts must make sense, and the clauses
    of `judge` hold on the workflow as offered in the last round that took place. (The former corner deploy_verdict_lost
    is repaired — `fix: acquireTasks cannot miss the verdict of its offers round` — and no longer named: a return of it is
    a violation outside every open corner, i.e. "-" or the plain corner it falls into by its scripts.) -/
def judgeO (sc : OScenario) : List Obs → Option String
  | [] => none
  | o :: os =>
    match o.att with
    | none => some "-"
    | some att =>
      if attemptsOk sc.wf.descs sc.wf.rounds att.length then
        judge { wf := sc.wf.asOffered att.length, configure := sc.configure, steps := sc.steps } (o :: os)
      else some "-"

/-- In the environment of the workflow the last of `n` attempts finds acquireTasks not listening. -/
def lostLast (w : OWorkflow) (n : Nat) : Bool :=
  match w.notListening with
  | some k => k + 1 == n
  | none => false

/-- The analysis of the code as it was (`AcqCfg.legacy`, unbuffered channel): a violation in a scenario whose environment
    has the last attempt made find no receiver is attributed to the dropped verdict (the former finding
    deploy_verdict_lost). -/
def judgeOAll (sc : OScenario) (os : List Obs) : Option String :=
  match judgeO sc os with
  | none => none
  | some h =>
    match os with
    | [] => some h
    | o :: _ =>
      match o.att with
      | none => some h
      | some att => if lostLast sc.wf att.length then some "deploy_verdict_lost" else some h

/-! ### WHEN an acknowledgement counts

  "Acknowledged" means: within the time the transition allows its tasks. A transition allows every commanded task the same
  time — 90 s, CONFIGURE 120 s ("we need more time for the tasks to configure") — and a task that answers within it HAS
  acknowledged, whatever the command queue did with the command on its way to the task. So (1) the scripted outcomes of a
  request are read against `allowed`: an answer after `d` ms is an acknowledgement iff `d < allowed e` (`TScenario.settle
  allowed`), and the clauses above are evaluated on that; (2) every commanded target must have been waited for with exactly
  `allowed e` — otherwise there is a delay for which (1) fails (`C02_wrong_deadline_refutes`), whether or not a task of the
  run at hand happened to answer in the gap. The time-out given to a target is observable: the per-target command is sent
  to the executor with its `ResponseTimeout`. -/

/-- The time (ms) a transition allows each of its tasks to answer the command of event `e`. -/
def allowed : Ev → Nat
  | .CONFIGURE => 120000
  | _ => 90000

/-- Every commanded target of every observed request was given exactly the time its transition allows. -/
def deadlinesOk (os : List TObs) : Bool :=
  os.all (fun o => o.dl == o.obs.cmd.map (fun _ => allowed o.obs.commandEv))

/-- A verdict on timed observations: the time-outs given must be the times allowed, and then `j` on the rest. -/
def judgeDl (j : List Obs → Option String) (os : List TObs) : Option String :=
  if deadlinesOk os then j (os.map (·.obs)) else some "-"

/-- Spec.C02 on an observed run of a scenario with timed outcomes. -/
def judgeT (sc : TScenario) (os : List TObs) : Option String := judgeDl (judge (sc.settle allowed)) os

/-- …with scripted offers rounds. -/
def judgeOT (sc : OTScenario) (os : List TObs) : Option String := judgeDl (judgeO (sc.settle allowed)) os

end Trans
