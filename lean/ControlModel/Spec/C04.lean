/-
  Spec/C04 — "a task or detector belongs to at most one environment", as
  decidable predicates over what can be observed (Spec/OwnView).

    exclusiveTasks   every task is referenced by at most one live environment and
                     a task an environment references is owned by it or by nobody
    exclusiveDets    no detector is part of two listed environments
    killsUnowned     a task that got a KILL call during a round is not one a live
                     environment still references afterwards (ownership only goes
                     none → E → none, so such a task was owned at the instant of the KILL)
    frameOk K        whatever was done to the environments in K (control, destroy,
                     a creation — successful or refused —, cleanup with K = ∅):
                     every other listed environment, every task locked by another
                     environment and its row at the master are exactly as before
-/
import ControlModel.Spec.OwnView

namespace Own

def exclusiveTasks (v : View) : Bool :=
  v.envs.all (fun E1 => E1.tearing || v.envs.all (fun E2 =>
    E2.tearing || decide (E1.env = E2.env) || E1.tasks.all (fun x => decide (x ∉ E2.tasks))))
  && v.envs.all (fun E => E.tearing || v.roster.all (fun r =>
    decide (r.task ∉ E.tasks) || decide (r.owner = none) || decide (r.owner = some E.env)))

def exclusiveDets (v : View) : Bool :=
  v.envs.all (fun E1 => v.envs.all (fun E2 =>
    decide (E1.env = E2.env) || E1.dets.all (fun d => decide (d ∉ E2.dets))))

def killedIn (v : View) (x : TaskId) : Bool := v.master.any (fun m => decide (m.task = x) && m.killed)

def killsUnowned (b a : View) : Bool :=
  a.master.all (fun m => !(m.killed && !killedIn b m.task) ||
    a.envs.all (fun E => E.tearing || decide (m.task ∉ E.tasks)))

def frameOk (K : List EnvId) (b a : View) : Bool :=
  !a.crashed
  && b.envs.all (fun E => decide (E.env ∈ K) || decide (E ∈ a.envs))
  && b.roster.all (fun r => !r.locked ||
      match r.owner with
      | none => true
      | some e => decide (e ∈ K) || (decide (r ∈ a.roster) &&
          b.master.all (fun m => decide (m.task ≠ r.task) || decide (m ∈ a.master))))

/-- One round: the view before, the environments the round's operations name, the view after. -/
def specC04Round (K : List EnvId) (b a : View) : Bool :=
  frameOk K b a && (a.crashed || (exclusiveTasks a && exclusiveDets a && killsUnowned b a))

end Own
