/-
  Spec/C05 — what "placed only where constraints and resources allow" demands,
  as decidable predicates over an input and what the implementation did with it.

  "A task is launched only on an agent whose attributes satisfy every constraint
   that applies to it (task template and all enclosing roles, a nearer
   definition of the same attribute overriding a farther one) and whose offered
   CPU, memory and ports cover what the template asks for. Ports handed to tasks
   — static ranges exactly as written in the template, one dynamic port per
   inbound TCP channel, one control port per task — come from the offer and are
   pairwise distinct on an agent, and what is requested for all tasks launched on
   one offer does not exceed that offer. Offers that are not used are declined."
-/
import ControlModel.Model.Placement

namespace Placement

/-! ## constraints -/

/-- A positive answer of Satisfy must mean: every constraint holds. -/
def specSat (as : Attrs) (cts : Constraints) (answer : Bool) : Bool :=
  !answer || cts.all (holds as)

/-- The nearest definition of an attribute along a chain of roles (nearest
    first, last = root, whose list is taken as written). -/
def nearestDef : List Constraints → String → Option Constraint
  | [], _ => none
  | [root], a => lookupC root a
  | own :: rest, a => match lastDef own a with
    | some c => some c
    | none => nearestDef rest a

def attrsOf (m : Constraints) : List String := m.map (·.attr)

/-- `merged` decides every attribute the way the child does, else the parent. -/
def specMerge (child parent merged : Constraints) : Bool :=
  (attrsOf (child ++ parent ++ merged)).all fun a =>
    lookupC merged a = (match lastDef child a with | some c => some c | none => lookupC parent a)

/-- No attribute twice. -/
def noDupAttr : Constraints → Bool
  | [] => true
  | c :: rest => !(rest.any (fun d => d.attr = c.attr)) && noDupAttr rest

/-- What getConstraints returned for a chain: for every attribute the nearest
    definition is the one that decides; and if no role lists an attribute twice,
    nothing else about that attribute survives. -/
def specEffective (chain : List Constraints) (got : Constraints) : Bool :=
  ((attrsOf (chain.flatten ++ got)).all fun a => lookupC got a = nearestDef chain a) &&
  (!(chain.all noDupAttr) || noDupAttr got)

/-! ## resources -/

/-- port `q` is in the (possibly absent) ports resource -/
def omem (q : Nat) : Option Ranges → Bool
  | none => false
  | some ps => mem q ps

/-- every range of the ports resource has begin ≤ end -/
def OValid : Option Ranges → Bool
  | none => true
  | some ps => Valid ps

def osize : Option Ranges → Nat
  | none => 0
  | some ps => size (normalize ps)

/-- every port of `r` is in `ps` -/
def rangeInside (ps : Ranges) (r : Range) : Bool :=
  (List.range' r.1 (r.2 + 1 - r.1)).all (fun p => mem p ps)

/-- The offer's resources cover what the template asks for: scalars, every
    static port, and as many further ports as there are inbound channels
    (the code counts IPC channels too; the static ports being inside the offer,
    the difference of the two sizes is the number of other ports). -/
def covers (r : Res) (w : Wants) : Bool :=
  match r.cpu, r.mem, r.ports with
  | some c, some m, some ps =>
    decide (w.cpu ≤ c) && decide (w.mem ≤ m) && w.static.all (rangeInside ps) &&
    decide (w.inbound.length ≤ size (normalize ps) - size (normalize w.static))
  | _, _, _ => false

def specRes (r : Res) (w : Wants) (answer : Bool) : Bool := !answer || covers r w

/-- Input well-formedness assumed by the theorems about a round: every range of
    every offer and of every template has begin ≤ end. -/
def offersValid (os : List Offer) : Bool := os.all (fun o => OValid o.res.ports)

def staticValid (m : Mode) (ds : List Desc) : Bool :=
  ds.all fun d => match d.cls with
    | some c => Valid (c.wants m).static
    | none => true

def validInputs (m : Mode) (descs : List Desc) (order : List Offer) : Bool :=
  offersValid order && staticValid m descs

/-! ## ports of launched tasks -/

def nodupNat : List Nat → Bool
  | [] => true
  | x :: xs => !(xs.contains x) && nodupNat xs

def expand (rs : Ranges) : List Nat := rs.flatMap fun r => List.range' r.1 (r.2 + 1 - r.1)

/-- dynamic and control ports of one task -/
def Task.drawn (t : Task) : List Nat := t.dyn ++ [t.ctrl]

/-- every port the task claims: its static ranges (as a set), dynamic, control -/
def Task.claims (t : Task) : List Nat := (expand (normalize t.static)) ++ t.drawn

def tcpCount (inb : List Bool) : Nat := (inb.filter id).length

/-- Drawn ports of the tasks of one offer: from the offer, distinct, data ≥ 9000, control ≥ 30000. -/
def drawnOk (offerPorts : Ranges) (ts : List Task) : Bool :=
  let all := ts.flatMap Task.drawn
  all.all (fun p => mem p offerPorts) && nodupNat all &&
  ts.all (fun t => t.dyn.all (fun p => decide (9000 ≤ p)) && decide (30000 ≤ t.ctrl))

/-- All claims of the tasks of one offer (static included): from the offer and distinct. -/
def claimsOk (offerPorts : Ranges) (ts : List Task) : Bool :=
  let all := ts.flatMap Task.claims
  all.all (fun p => mem p offerPorts) && nodupNat all

/-- Scalars requested on one offer stay within it. -/
def sumOk (r : Res) (ts : List Task) : Bool :=
  match r.cpu, r.mem with
  | some c, some m => decide ((ts.map (·.cpu)).sum ≤ c) && decide ((ts.map (·.mem)).sum ≤ m)
  | _, _ => ts.isEmpty

/-- What was handed to the task is what its template (read with the INTENDED
    grammar) asks for: scalars, static ranges as written, one port per TCP channel. -/
def asTemplate (c : Class) (t : Task) : Bool :=
  decide (t.cpu = c.cpu) && decide (t.mem = c.mem) &&
  decide (some t.static = parseRanges true c.portsExpr) &&
  decide (t.dyn.length = tcpCount c.inbound)

/-- Spec of one launch on offer `o` -/
def launchOk (o : Offer) (l : Launch) : Bool :=
  l.desc.cts.all (holds o.attrs) &&
  (match l.desc.cls with
   | none => false
   | some c => asTemplate c l.task &&
       covers o.res { cpu := c.cpu, mem := c.mem, static := (parseRanges true c.portsExpr).getD [], inbound := c.inbound })

def findOffer (offers : List Offer) (oid : Nat) : Option Offer := offers.find? (fun o => o.oid = oid)

/-- The clauses of the property for one whole round, each separately (the
    driver names the excluded hypothesis after the first one that fails). -/
structure RoundVerdict where
  noCrash : Bool
  constraintsOk : Bool     -- every launch: all constraints hold on the agent
  templateOk : Bool        -- every launch: as the template asks, and the offer covers it
  drawn : Bool             -- dynamic/control ports from the offer, distinct per offer
  claims : Bool            -- … static ranges included
  sums : Bool              -- cpu/mem requested on one offer within the offer
  declines : Bool          -- every offer is declined or answered by an ACCEPT; offers with launches are not declined
  deriving Repr

def roundVerdict (offers : List Offer) (out : Outcome) : RoundVerdict :=
  let perOffer (f : Offer → List Launch → Bool) : Bool :=
    out.accepts.all fun a => match findOffer offers a.oid with
      | some o => f o a.launches
      | none => false
  { noCrash := !out.crashed,
    constraintsOk := perOffer fun o ls => ls.all fun l => l.desc.cts.all (holds o.attrs),
    templateOk := perOffer fun o ls => ls.all fun l =>
      match l.desc.cls with
      | none => false
      | some c => asTemplate c l.task &&
          covers o.res { cpu := c.cpu, mem := c.mem, static := (parseRanges true c.portsExpr).getD [], inbound := c.inbound },
    drawn := perOffer fun o ls => drawnOk (o.res.ports.getD []) (ls.map (·.task)),
    claims := perOffer fun o ls => claimsOk (o.res.ports.getD []) (ls.map (·.task)),
    sums := perOffer fun o ls => sumOk o.res (ls.map (·.task)),
    declines := out.crashed ||
      (offers.all (fun o => out.declined.contains o.oid || out.accepts.any (fun a => a.oid = o.oid)) &&
       out.accepts.all (fun a => a.launches.isEmpty || !out.declined.contains a.oid)) }

def RoundVerdict.all (v : RoundVerdict) : Bool :=
  v.noCrash && v.constraintsOk && v.templateOk && v.drawn && v.claims && v.sums && v.declines

/-- Spec of one synchronous makeTask on an offer with these ports. -/
structure MkVerdict where
  noCrash : Bool
  templateOk : Bool
  drawn : Bool
  claims : Bool

def mkVerdict (ports : Option Ranges) (c : Class) (made : Option Task) (panicked : Bool) : MkVerdict :=
  match made with
  | none => { noCrash := !panicked, templateOk := true, drawn := true, claims := true }
  | some t =>
    { noCrash := true, templateOk := asTemplate c t,
      drawn := drawnOk (ports.getD []) [t], claims := claimsOk (ports.getD []) [t] }

/-! ## histories of loads and rounds: which template applies

"the constraints that apply to it (those of the task template …)" and "what the
task template asks for" mean the template AS LAST LOADED: a workflow load hands
the manager the classes it needs; a class loaded again under the same name
replaces what was held, whatever the edit touched (constraints, bind, wants,
command). The definitions below say this without any reference to the store. -/

/-- The last definition of class `k` in a sequence of loaded definitions. -/
def lastLoaded : List (Key × Class) → Key → Option Class
  | [], _ => none
  | (k', c) :: rest, k => match lastLoaded rest k with
    | some d => some d
    | none => if k' = k then some c else none

/-- The template of class `k` that applies in round `n` (0-based) of a history:
    its last definition among everything loaded up to and including round `n`'s load. -/
def latest (steps : List Step) (n : Nat) (k : Key) : Option Class :=
  lastLoaded ((steps.take (n + 1)).flatMap (·.loads)) k

/-- Round by round, the descriptors with the templates that apply (`pre` = what was loaded before). -/
def resolvedDescs (pre : List (Key × Class)) : List Step → List (List Desc)
  | [] => []
  | st :: rest => st.descs.map (resolveBy (lastLoaded (pre ++ st.loads))) :: resolvedDescs (pre ++ st.loads) rest

/-- The property over a whole history: one outcome per round, and every round
    satisfies every clause of `roundVerdict`. WHICH template a launched task is
    judged against is in the outcome's launches (`Launch.desc.cls`): the driver
    rebuilds what the implementation did over `resolvedDescs [] steps` — the
    templates as last loaded —, and `C05_history_follows_latest` shows that these
    are the descriptors of the model's outcomes. -/
def histVerdict (steps : List Step) (outs : List Outcome) : Bool :=
  decide (outs.length = steps.length) &&
  (steps.zip outs).all fun x => (roundVerdict x.1.offers x.2).all

end Placement
