/-
  Spec/C06 — "destroying or failing to create an environment leaves nothing
  behind", as decidable predicates over what can be observed (Spec/OwnView).

    cleanAfter k keep v   environment k is gone from the listing; no roster task is still
                          owned by it; unless tasks were to be kept, every task launched
                          for it was sent a KILL, or has ended, or sits unowned in the
                          roster (where the next cleanup finds it); every active detector
                          belongs to a listed environment; its pending calls were cancelled
    hooksAfterRelease     while a DESTROY hook ran, none of the other tasks was still locked
-/
import ControlModel.Spec.OwnView

namespace Own

def cleanAfter (k : EnvId) (keep : Bool) (v : View) : Bool :=
  v.envs.all (fun E => decide (E.env ≠ k))
  && v.roster.all (fun r => decide (r.owner ≠ some k))
  && (keep || v.master.all (fun m => decide (m.label ≠ k) || m.killed || decide (m.mesos = .terminal)
        || v.roster.any (fun r => decide (r.task = m.task) && decide (r.owner = none))))
  && v.dets.all (fun d => v.envs.any (fun E => decide (d ∈ E.dets)))
  && v.calls.all (fun c => decide (c.1 ≠ k) || decide (c.2.1 = c.2.2))

/-- Hypothesis excluded by finding destroy_hooks_unreleased: the DESTROY / after_DESTROY
    hooks of the environment sit at one weight at most. -/
def singleWeight (hs : List HookRef) : Bool := decide ((weightsOf hs).length ≤ 1)

/-- What a round's operation obliges the view after the round to satisfy. -/
inductive Claim where
  | clean (k : EnvId) (keep : Bool)    -- a destroy that returned success / a creation that failed
  | returned                           -- any request: it must return (ok or error)
  deriving DecidableEq, Repr, Inhabited

/-- Observations taken while a DESTROY hook task held its trigger: environment,
    hook role, number of non-hook tasks of the environment still locked. -/
def hooksAfterRelease (hk : List (EnvId × Nat × Nat)) : Bool := hk.all (fun h => decide (h.2.2 = 0))

def specC06Round (clean : List (EnvId × Bool)) (hung : Bool) (hk : List (EnvId × Nat × Nat)) (a : View) : Bool :=
  !hung && !a.crashed && clean.all (fun c => cleanAfter c.1 c.2 a) && hooksAfterRelease hk

end Own
