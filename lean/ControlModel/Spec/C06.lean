/-
  Spec/C06 — "destroying or failing to create an environment leaves nothing
  behind", as decidable predicates over what can be observed (Spec/OwnView).

    cleanAfter k keep v   environment k is gone from the listing; no roster task is still
                          owned by it; unless tasks were to be kept, every task launched
                          for it was sent a KILL, or has ended, or sits unowned in the
                          roster (where the next cleanup finds it); every active detector
                          belongs to a listed environment; its pending calls were cancelled
    destroyedClean k keep v   what a destroy request that answered SUCCESS obliges: `cleanAfter`, and — unless
                          tasks were to be kept — every task launched for k was sent a KILL (one the master
                          accepted) or has ended: a task that could not be killed and sits in the roster again
                          is enough for a creation that failed (its tasks fall to the next cleanup), not for a
                          destroy that says it succeeded ("a destroy request that cannot be honoured returns
                          an error rather than success")
    hooksAfterRelease     while a DESTROY hook ran, none of the other tasks was still locked
-/
import ControlModel.Spec.OwnView

namespace Own

def cleanAfter (k : EnvId) (keep : Bool) (v : View) : Bool :=
  v.envs.all (fun E => decide (E.env ≠ k))
  && v.roster.all (fun r => decide (r.owner ≠ some k))
  && (keep || v.master.all (fun m => decide (m.label ≠ k) || m.killed || decide (m.mesos = .terminal)
        || v.roster.any (fun r => decide (r.task = m.task) && decide (r.owner = none))))
  && v.dets.all (fun d => v.envs.any (fun E => decide (d ∈ E.dets)))
  && v.calls.all (fun c => decide (c.1 ≠ k) || decide (c.2.1 = c.2.2))

/-- Every task launched for `k` was sent a KILL call that the master accepted, or has ended. -/
def allKilled (k : EnvId) (v : View) : Bool :=
  v.master.all (fun m => decide (m.label ≠ k) || m.killed || decide (m.mesos = .terminal))

/-- What a DestroyEnvironment that answered success obliges the view afterwards to satisfy. -/
def destroyedClean (k : EnvId) (keep : Bool) (v : View) : Bool :=
  cleanAfter k keep v && (keep || allKilled k v)

/-- Part of the hypothesis excluded by finding destroy_hooks_unreleased (fixed): the DESTROY /
    after_DESTROY hooks of the environment sit at one weight at most. -/
def singleWeight (hs : List HookRef) : Bool := decide ((weightsOf hs).length ≤ 1)

/-- Well-formedness of the bookkeeping around environment `k` with task references `tasks`:
    a roster task whose parent is `k` is one of `tasks`; the roster entries of `tasks` carry `k`
    as parent (their ids need not be complete: a lost executor or agent blanks them); every task
    launched for `k` is one of `tasks` and has ended or has a roster entry; roster ids are unique;
    of the calls started for `k` every one is either pending or was cancelled, and no deleted
    environment carried the id before. -/
def envWf (s : State) (k : EnvId) (tasks : List TaskId) : Bool :=
  s.roster.all (fun t => decide (t.parent ≠ some k) || decide (t.id ∈ tasks))
  && s.roster.all (fun t => decide (t.id ∉ tasks) || decide (t.parent = some k))
  && s.master.all (fun m => decide (m.label ≠ k) || (decide (m.id ∈ tasks) &&
        (decide (m.mesos = .terminal) || s.roster.any (fun t => decide (t.id = m.id)))))
  && decide (s.roster.map (·.id)).Nodup
  && s.envs.all (fun X => decide (X.id ≠ k) || decide (X.started = X.cancelled + X.pending))
  && s.dead.all (fun d => decide (d.1 ≠ k))

/-- Hypothesis excluded by finding launch_pending_leak: a task of the environment that the core
    believes inactive has really ended. (After a successful creation it holds: the deployment
    waited for every task to become ACTIVE. It fails when a deployment is given up while tasks
    are still starting.) -/
def statusFaithful (s : State) (tasks : List TaskId) : Bool :=
  s.roster.all (fun t => decide (t.id ∉ tasks) || t.active
    || s.master.all (fun m => decide (m.id ≠ t.id) || decide (m.mesos = .terminal)))

/-- The roster entry of a task of the environment and the master's row for it name the same
    host (both are written from the same offer; neither ever changes). Needed to follow a lost
    executor / agent from the master's table to the roster. -/
def hostsAgree (s : State) (tasks : List TaskId) : Bool :=
  s.roster.all (fun t => decide (t.id ∉ tasks) ||
    s.master.all (fun m => decide (m.id ≠ t.id) || decide (m.host = t.host)))

/-- Hypothesis excluded by finding destroy_hooks_unreleased (fixed; it is still what the legacy
    configuration needs): the DESTROY / after_DESTROY hook tasks sit at one weight at most and
    their roles are ACTIVE. -/
def hooksReleasable (s : State) (hooks : List HookRef) : Bool :=
  singleWeight hooks && (effHooks hooks).all (roleActive s)

/-- What the second ReleaseTasks message of a teardown needs in order to name every DESTROY hook
    task: nothing in the code as it is (it names the hook tasks of all weights, triggered or
    not), `hooksReleasable` in a configuration with `lastWeightOnly`. -/
def hooksOk (s : State) (hooks : List HookRef) : Bool :=
  !s.cfg.lastWeightOnly || hooksReleasable s hooks

/-- Nothing refers to environment `k` yet: no roster task has it as parent, no task was launched
    with its label, no deleted environment carried the id, and if it is listed its call
    counters add up (the state in which a creation that has just been entered in the map finds
    itself: environment ids are fresh). -/
def freshEnv (s : State) (k : EnvId) : Bool :=
  s.roster.all (fun t => decide (t.parent ≠ some k))
  && s.master.all (fun m => decide (m.label ≠ k))
  && s.dead.all (fun d => decide (d.1 ≠ k))
  && s.envs.all (fun X => decide (X.id ≠ k) || decide (X.started = X.cancelled + X.pending))

/-- What a round's operation obliges the view after the round to satisfy. -/
inductive Claim where
  | clean (k : EnvId) (keep : Bool)        -- a creation that failed (`cleanAfter`)
  | destroyed (k : EnvId) (keep : Bool)    -- a destroy that returned success (`destroyedClean`)
  | returned                               -- any request: it must return (ok or error)
  deriving DecidableEq, Repr, Inhabited

/-- Observations taken while a DESTROY hook task held its trigger: environment,
    hook role, number of non-hook tasks of the environment still locked. -/
def hooksAfterRelease (hk : List (EnvId × Nat × Nat)) : Bool := hk.all (fun h => decide (h.2.2 = 0))

/-- One round: `clean` = the creations that failed in it (environment, keep = false), `destroyed` = the destroy
    requests that answered success in it (environment, keepTasks). -/
def specC06Round (clean destroyed : List (EnvId × Bool)) (hung : Bool) (hk : List (EnvId × Nat × Nat)) (a : View) : Bool :=
  !hung && !a.crashed && clean.all (fun c => cleanAfter c.1 c.2 a) && destroyed.all (fun c => destroyedClean c.1 c.2 a)
  && hooksAfterRelease hk

end Own
