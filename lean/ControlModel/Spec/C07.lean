/-
  Spec/C07 — "Run numbers are unique and strictly increasing", as decidable predicates over
  what was handed out. The same predicates are (a) proved of the model's log for all schedules
  (Props/C07.lean) and (b) evaluated by the driver on what the real code returned.
-/
import ControlModel.Model.RunNumber

namespace RunNumber

def distinctNums : List Nat → Bool
  | [] => true
  | x :: xs => !xs.contains x && distinctNums xs

/-- No number is handed out twice. -/
def uniqueB (l : List Ret) : Bool := distinctNums (l.map (·.num))

/-- Real-time order: a call that completed before another one started got the smaller number. -/
def monotoneB (l : List Ret) : Bool :=
  l.all fun a => l.all fun b => !(decide (a.ended < b.started)) || decide (a.num < b.num)

/-- Every number is larger than the counter value `L` found when the observation began
    (numbers ≤ L may have been given to earlier runs, e.g. before a restart of the core). -/
def aboveB (L : Nat) (l : List Ret) : Bool := l.all fun a => decide (L < a.num)

/-- Full-strength Spec on the numbers handed out during one schedule. -/
def Spec (L : Nat) (l : List Ret) : Bool := uniqueB l && monotoneB l && aboveB L l

/-- One call as observed from outside (harness or model). -/
structure CallObs where
  caller : Nat
  /-- the number returned with `err == nil` -/
  ok : Option Nat
  started : Nat
  ended : Nat
  /-- Consul answered `false` to this call's write -/
  refused : Bool
  /-- Consul APPLIED a write request of this very call (answered `true`) -/
  wrote : Bool := true

/-- "If the shared counter cannot be advanced atomically the start fails": a refused write
    never comes with a number. -/
def refusedIsErr (cs : List CallObs) : Bool := cs.all fun c => !c.refused || c.ok.isNone

/-- "…the start fails instead of reusing a number", seen from the other side: a number is handed
    only to a call whose OWN write Consul applied — the counter advances once per number. A call
    that is answered with a number although no write of its own was applied (it was handed somebody
    else's answer, a cached value, …) re-uses a number by construction. -/
def ownWriteB (cs : List CallObs) : Bool := cs.all fun c => c.ok.isNone || c.wrote

def retsOf (cs : List CallObs) : List Ret :=
  cs.filterMap fun c => c.ok.map fun n => { caller := c.caller, num := n, started := c.started, ended := c.ended }

/-- Spec evaluated on an observation. `fm` = the schedule satisfied `ForeignMonotone` (an
    assumption about the environment: nobody else lowers the counter — no protocol can be
    unique without it, `C07_foreign_lowering_breaks_any_counter`). -/
def SpecObs (fm : Bool) (L : Nat) (cs : List CallObs) : Bool :=
  refusedIsErr cs && ownWriteB cs && (!fm || Spec L (retsOf cs))

/-! ### start-ups as steps: what our own code does to the counter -/

/-- "The counter is never moved backwards by our own code": `own` = for every write of the code
    under test (a caller's write, or a write issued while a Service is being constructed) that
    Consul APPLIED to the counter key, the counter's level before and after it. -/
def ownNeverLowersB (own : List (Nat × Nat)) : Bool := own.all fun ba => decide (ba.1 ≤ ba.2)

/-- Spec on the observation of a schedule with start-ups: the per-call clauses and (under
    `ForeignMonotone`) uniqueness, real-time order and "above the initial level" over the WHOLE
    history — whichever instance handed a number out, whenever it came up — and no write of our own
    lowers the counter. -/
def SpecStart (fm : Bool) (L : Nat) (cs : List CallObs) (own : List (Nat × Nat)) : Bool :=
  SpecObs fm L cs && (!fm || ownNeverLowersB own)

/-! ### environment level: the numbers an ENVIRONMENT hands to its successive start attempts -/

/-- Every number is larger than every number before it in the list. -/
def increasingB : List Nat → Bool
  | [] => true
  | x :: xs => xs.all (fun y => decide (x < y)) && increasingB xs

/-- Spec on one history of requests to one environment. `pubs` = per request, the run numbers it
    published for a new run (Ev_RunEvent START_ACTIVITY/STARTED — the number assigned to
    `currentRunNumber` and to the `run_number` variable): a request obtains at most one number,
    and every number obtained is larger than every number obtained before in that history —
    whatever became of the earlier attempts (cancelled by a hook, failed, stopped, ended in ERROR). -/
def SpecEnv (pubs : List (List Nat)) : Bool :=
  pubs.all (fun l => decide (l.length ≤ 1)) && increasingB pubs.flatten

end RunNumber
