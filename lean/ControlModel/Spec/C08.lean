/-
  Spec/C08 — "Hooks run at their declared moment, in weight order, awaited where declared",
  as a decidable predicate over an observed trace (`ITrace`) and the hook definitions.

  Observable facts used (see harness/envh): per request a segment of events in
  global order: moment markers (start/finish), probe-call entry XS and exit XE,
  task-hook triggers H, scripted bodies B, the request's end R; and at the very end
  of the trace Q: how many results are still held by call goroutines (clause (f)); the
  pending list of every R record (clause (g)); how often a hook is begun between two start markers of
  its moment (clause (h)).
-/
import ControlModel.Spec.C01

namespace EnvM

def findHook (hooks : List Hook) (id : Nat) : Option Hook := hooks.find? (fun h => h.id = id)

/-- The moments of one `Sm.Event(e)` from state `s`, in the documented order. -/
def momentNames (e : Ev) (s : St) : List String :=
  match dst? e s with
  | none => []
  | some d => [(Moment.before e).name, (Moment.leave s).name, "tasks_" ++ e.name, (Moment.enter d).name, (Moment.after e).name]

def startMarks (seg : List IEv) : List String :=
  seg.filterMap fun | .mark n false => some n | _ => none

def isPrefix : List String → List String → Bool
  | [], _ => true
  | _ :: _, [] => false
  | a :: as, b :: bs => a == b && isPrefix as bs

/-- (a) moment order: the start markers of a request are a prefix of the documented
    order for its event; through the API, followed by a prefix of GO_ERROR's. -/
def momentOrderOk (q : Req) (before : St) (seg : List IEv) : Bool :=
  let ms := startMarks seg
  match q with
  | .try_ e _ _ => isPrefix ms (momentNames e before)
  | .control e _ _ =>
    let own := momentNames e before
    -- split ms into the part belonging to e and the GO_ERROR fallback
    let n := (ms.zip own).takeWhile (fun p => p.1 == p.2) |>.length
    let rest := ms.drop n
    rest.isEmpty ||
      St.all.any (fun s1 => isPrefix rest (momentNames .GO_ERROR s1))
  | .teardown .. => ms.isEmpty

/-- Positions (indices in the segment) of interesting records. -/
def indexOf? (seg : List IEv) (p : IEv → Bool) : Option Nat :=
  let rec go : List IEv → Nat → Option Nat
    | [], _ => none
    | e :: es, n => if p e then some n else go es (n + 1)
  go seg 0

def isXs (h k : Nat) : IEv → Bool | .xs a b => a == h && b == k | _ => false
def isXe (h k : Nat) : IEv → Bool | .xe a b _ _ _ => a == h && b == k | _ => false
def isMark (n : String) (f : Bool) : IEv → Bool | .mark m g => m == n && f == g | _ => false

/-- All (hook, k) pairs whose probe entry is in the list. -/
def xsOf (seg : List IEv) : List (Nat × Nat) := seg.filterMap fun | .xs h k => some (h, k) | _ => none

/-- (b) a call is never started before its trigger point: its entry is preceded — in its own
    request or an earlier one, for the goroutine that runs the call may be scheduled late — by the
    start marker of its trigger moment. Teardown publishes no step markers, so once a teardown
    has begun, leave_<state> and DESTROY hooks are not judged by this clause. `seen` = start
    markers of earlier requests, `td` = a teardown has begun. -/
def notBeforeTrigger (hooks : List Hook) (seen : List String) (td : Bool) (seg : List IEv) : Bool :=
  (xsOf seg).all fun (h, k) =>
    match findHook hooks h with
    | none => false
    | some hk =>
      td || seen.contains hk.trig.name ||
        (match indexOf? seg (isMark hk.trig.name false), indexOf? seg (isXs h k) with
         | some pm, some px => pm < px
         | _, _ => false)

/-- position of the last start marker `name` strictly before position `p` (the occurrence of the moment a record belongs to) -/
def occurrence (seg : List IEv) (name : String) (p : Nat) : Nat :=
  ((seg.take p).zipIdx.foldl (fun acc (e, i) => if isMark name false e then i + 1 else acc) 0)

/-- hooks (ids) with a failing execution recorded among the events: probe exits with `fails`, task-hook
    records with a failure -/
def failedIn (es : List IEv) : List Nat :=
  (es.map fun
    | .xe h _ true _ _ => [h]
    | .tasks is => is.filterMap (fun (h, _, f) => if f then some h else none)
    | _ => []).flatten

/-- "…unless a critical failure stopped the pass": some CRITICAL hook that is collected at moment `m` at a
    weight w with lo ≤ w < hi — a task hook triggered there, a call awaited there — has failed (its id is in
    `failed`). handleHooks stops a pass at the first weight with a critical failure, so the points above it
    are not reached in that occurrence of the moment. -/
def passStoppedBefore (hooks : List Hook) (failed : List Nat) (m : Moment) (lo hi : Int) : Bool :=
  hooks.any fun g => g.critical && failed.contains g.id &&
    (if g.isTask then decide (g.trig = m ∧ lo ≤ g.tw ∧ g.tw < hi) else decide (g.await = m ∧ lo ≤ g.aw ∧ g.aw < hi))

/-- (c) await barrier for calls whose await point lies LATER IN THE SAME MOMENT as
    their trigger (same moment, await weight ≥ trigger weight, and both weights in the
    same pass): the moment's finish marker comes after the call's exit — unless a critical
    failure at a weight from the call's trigger weight up to (not including) its await weight
    stopped the pass before the await point was reached (`passStoppedBefore`; `failed` = what
    failed in earlier requests). No hypothesis on the hooks any more: since "fix: handleHooks
    visits the await weight of a call it starts at the same trigger" the code meets this for a
    strictly later weight too (`C08_await_same_moment_code`); a violation is a plain VIOLATION. -/
def samePass (a b : Int) : Bool := (decide (a < 0)) == (decide (b < 0))

def awaitBarrierSameMoment (hooks : List Hook) (failed : List Nat) (seg : List IEv) : Bool :=
  (xsOf seg).all fun (h, k) =>
    match findHook hooks h with
    | none => false
    | some hk =>
      if hk.await = hk.trig ∧ hk.tw ≤ hk.aw ∧ samePass hk.tw hk.aw ∧ hk.trig ≠ .destroy ∧ hk.trig ≠ .afterDestroy then
        match indexOf? seg (isXs h k) with
        | none => false
        | some px =>
          -- the occurrence of the trigger moment this call belongs to: the last start marker before its
          -- entry; the call must have returned before THAT occurrence's finish marker
          let ps := occurrence seg hk.trig.name px
          if ps = 0 then false
          else
            let fin := (indexOf? (seg.drop ps) (isMark hk.trig.name true)).map (ps + ·)
            passStoppedBefore hooks (failed ++ failedIn (seg.take (fin.getD seg.length))) hk.trig hk.tw hk.aw ||
              (match indexOf? seg (isXe h k), fin with
               | some pe, some pf => pe < pf
               | some _, none => true       -- the moment did not finish (run-number failure path)
               | none, _ => false)          -- never returned within the request
      else true

/-- (d) weight order among hooks that are awaited at their own trigger point and were
    executed in the same request at the same moment: lower weight finishes before a
    higher weight begins. Task hooks take part through their H record. -/
def fixedHere (hooks : List Hook) (seg : List IEv) : List (Hook × Nat × Nat × Nat) :=
  -- (hook, occurrence of its trigger moment, entry position, exit position)
  let calls := (xsOf seg).filterMap fun (h, k) =>
    match findHook hooks h, indexOf? seg (isXs h k), indexOf? seg (isXe h k) with
    | some hk, some ps, some pe =>
      if hk.await = hk.trig ∧ hk.aw = hk.tw then some (hk, occurrence seg hk.trig.name ps, ps, pe) else none
    | _, _, _ => none
  let tasks := (seg.zipIdx.map fun (e, i) =>
    match e with
    | .tasks is => is.filterMap fun (h, _, _) => (findHook hooks h).map fun hk => (hk, occurrence seg hk.trig.name i, i, i)
    | _ => []).flatten
  calls ++ tasks

def weightOrderOk (hooks : List Hook) (seg : List IEv) : Bool :=
  let fs := fixedHere hooks seg
  fs.all fun (g, go, _, ge) => fs.all fun (h, ho, hs, _) =>
    !(g.trig = h.trig ∧ go = ho ∧ g.tw < h.tw) || ge < hs

/-- (e) every probe entry has exactly one exit, and (hook, k) pairs are unique. -/
def balanced (tr : ITrace) : Bool :=
  let xs := xsOf tr
  let xe := tr.filterMap fun | .xe h k _ _ _ => some (h, k) | _ => none
  xs.length == xe.length && xs.all (fun p => xe.contains p) &&
    xs.all (fun p => (xs.filter (· == p)).length == 1)

/-- (f) every started call is collected, or cancelled at teardown — none is left over and none is lost: when
    the case ends (all calls have returned; `Q n` record) the results still held by call goroutines
    are at most those the environment still lists as pending an await — EXACTLY those when no teardown was
    ever requested (only a teardown cancels a call: a listed call whose goroutine has let go of its result by
    itself can never be collected) — and none at all once the environment has been torn down. -/
def lastReqEnd (tr : ITrace) : Option IEv :=
  (tr.filter fun | .reqEnd .. => true | _ => false).getLast?

def noLeftover (reqs : List Req) (tr : ITrace) : Bool :=
  let anyTeardown := reqs.any fun | .teardown .. => true | _ => false
  match tr.getLast? with
  | some (.quiesce n) =>
    (match lastReqEnd tr with
     | some (.reqEnd _ _ _ _ pend gone) =>
       let listed := (pend.map (·.2.2)).foldl (· + ·) 0
       if gone then n == 0 else if anyTeardown then decide (n ≤ listed) else n == listed
     | _ => n == 0)
  | _ => false

/-- (g) collected where awaited, across moments and transitions: once a moment has run to its finish marker
    within a request — and no critical failure below weight `w` stopped its passes before they reached `w`
    (`passStoppedBelow`) — what the environment still lists as pending at (moment, w) when the request ends are
    at most the calls awaiting there that were started since that occurrence of the moment began (a call
    triggered at a later moment, or at the same moment above `w`): everything that was pending there before has
    been collected. Entry records of calls may come late (the call's goroutine writes them), so every entry
    after the occurrence's start marker counts, to the end of the trace. Teardowns publish no markers and are
    not judged here (clause (f) is theirs). -/
def passStoppedBelow (hooks : List Hook) (failed : List Nat) (m : Moment) (hi : Int) : Bool :=
  hooks.any fun g => g.critical && failed.contains g.id &&
    (if g.isTask then decide (g.trig = m ∧ g.tw < hi) else decide (g.await = m ∧ g.aw < hi))

/-- per request record: (position of the first event of its segment, its own position, its pending list) -/
def reqEnds (tr : ITrace) : List (Nat × Nat × List (String × Int × Nat)) :=
  let rec go : List IEv → Nat → Nat → List (Nat × Nat × List (String × Int × Nat))
    | [], _, _ => []
    | .reqEnd _ _ _ _ pend _ :: rest, i, s0 => (s0, i, pend) :: go rest (i + 1) (i + 1)
    | _ :: rest, i, s0 => go rest (i + 1) s0
  go tr 0 0

/-- the last occurrence of moment `name` among positions [s0, r) that ran to its finish marker: (start, finish) -/
def lastCompleteIn (tr : ITrace) (s0 r : Nat) (name : String) : Option (Nat × Nat) :=
  let seg := (tr.take r).drop s0
  match seg.zipIdx.foldl (fun acc (e, i) => if isMark name false e then some i else acc) (none : Option Nat) with
  | none => none
  | some s => (indexOf? (seg.drop (s + 1)) (isMark name true)).map fun d => (s0 + s, s0 + s + 1 + d)

def pendingSettled (hooks : List Hook) (tr : ITrace) : Bool :=
  (reqEnds tr).all fun (s0, r, pend) =>
    pend.all fun (name, w, n) =>
      match lastCompleteIn tr s0 r name with
      | none => true
      | some (s, f) =>
        let here := hooks.filter fun g => !g.isTask && g.await.name == name && g.aw == w
        match here.head? with
        | none => true
        | some g0 =>
          let started := ((tr.drop (s + 1)).filter fun | .xs h _ => here.any (·.id == h) | _ => false).length
          passStoppedBelow hooks (failedIn (tr.take f)) g0.await w || decide (n ≤ started)

/-- (h) once per occurrence of its moment: between one start marker of a moment and the next start marker of
    the same moment (or the end of the trace) a hook triggered at that moment and collected at its own trigger
    point — a call awaited where it is triggered (its entry and exit lie inside the occurrence), a task hook
    (its H record) — is begun AT MOST ONCE: the two passes of a moment split its weights between them, no
    weight belongs to both (`C08_started_once_per_moment`). Teardowns publish no markers: the hooks they run
    (leave_<state> in one pass, DESTROY) are not judged here. -/
def begunIn (seg : List IEv) (id : Nat) : Nat :=
  (seg.map fun
    | .xs h _ => if h == id then 1 else 0
    | .tasks is => (is.filter fun (h, _, _) => h == id).length
    | _ => 0).foldl (· + ·) 0

/-- the trace cut at every start marker of `name`: what follows each of them up to the next one -/
def occurrencesOf (name : String) : List IEv → List IEv → Bool → List (List IEv)
  | [], cur, inside => if inside then [cur.reverse] else []
  | e :: es, cur, inside =>
    if isMark name false e then (if inside then [cur.reverse] else []) ++ occurrencesOf name es [] true
    else occurrencesOf name es (e :: cur) inside

def oncePerOccurrence (hooks : List Hook) (reqs : List Req) (tr : ITrace) : Bool :=
  -- up to the first teardown request's segment
  let live := (segments tr []).zip reqs |>.takeWhile (fun p => match p.2 with | .teardown .. => false | _ => true)
  let tr' := (live.map (·.1)).flatten
  hooks.all fun hk =>
    !(hk.await = hk.trig ∧ hk.aw = hk.tw ∧ hk.trig ≠ .destroy ∧ hk.trig ≠ .afterDestroy) ||
      (occurrencesOf hk.trig.name tr' [] false).all fun occ => decide (begunIn occ hk.id ≤ 1)

def specC08Segs (hooks : List Hook) : List Req → St → List String → Bool → List Nat → List (List IEv) → Bool
  | [], _, _, _, _, [] => true
  | q :: qs, s, seen, td, failed, seg :: segs =>
    match obsOf q s seg with
    | none => false
    | some o =>
      -- teardown publishes no step markers: its leave_<state> and DESTROY hooks are judged by weight order only
      let isTeardown := match q with | .teardown .. => true | _ => false
      let td' := td || isTeardown
      momentOrderOk q s seg && notBeforeTrigger hooks seen td' seg && (isTeardown || awaitBarrierSameMoment hooks failed seg) &&
        weightOrderOk hooks seg && specC08Segs hooks qs o.after (seen ++ startMarks seg) td' (failed ++ failedIn seg) segs
  | _, _, _, _, _, _ => false

def specC08 (hooks : List Hook) (reqs : List Req) (tr : ITrace) : Bool :=
  balanced tr && noLeftover reqs tr && pendingSettled hooks tr && oncePerOccurrence hooks reqs tr && specC08Segs hooks reqs .STANDBY [] false [] (segments tr [])

end EnvM
