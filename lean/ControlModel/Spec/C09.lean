/-
  Spec/C09 — "Only critical hook failures affect a transition, exactly as documented",
  as a decidable predicate over an observed trace.
-/
import ControlModel.Spec.C08
import ControlModel.Model.CallWays

namespace EnvM

/-- A failing execution observed in a segment: (hook, position, is it awaited at its
    own trigger point — a task hook always is). -/
structure FailObs where
  hook : Hook
  pos : Nat
  occ : Nat
  fixed : Bool

def failuresIn (hooks : List Hook) (seg : List IEv) : List FailObs :=
  (seg.zipIdx.map fun (e, i) =>
    match e with
    | .xe h _ true _ _ =>
      match findHook hooks h with
      | some hk => [{ hook := hk, pos := i, occ := occurrence seg hk.trig.name i, fixed := hk.await = hk.trig ∧ hk.aw = hk.tw }]
      | none => []
    | .tasks is => is.filterMap fun (h, _, f) =>
        if f then (findHook hooks h).map fun hk => { hook := hk, pos := i, occ := occurrence seg hk.trig.name i, fixed := true } else none
    | _ => []).flatten

def errTriggers : IRes → List (Nat × String)
  | .err "hooks" hs => hs
  | _ => []

def isHooksErr : IRes → Bool
  | .err "hooks" _ => true
  | _ => false

def resOf (seg : List IEv) : Option IRes :=
  match seg.getLast? with
  | some (.reqEnd r ..) => some r
  | _ => none

/-- Does any record of a later moment of the same transition appear after position p? -/
def laterMoments (e : Ev) (s : St) (failing : String) : List String :=
  (momentNames e s).dropWhile (· != failing) |>.drop 1

def specTry (hooks : List Hook) (e : Ev) (s : St) (after : St) (seg : List IEv) (everCritFail : Bool) : Bool :=
  match resOf seg, dst? e s with
  | some res, some d =>
    let fs := failuresIn hooks seg
    let ets := errTriggers res
    let cancelAt := ets.filter fun (_, t) => t == (Moment.before e).name || t == (Moment.leave s).name
    let reportAt := ets.filter fun (_, t) => t == (Moment.enter d).name || t == (Moment.after e).name
    -- every reported trigger belongs to this transition, with a positive count
    ets.all (fun (n, t) => n ≥ 1 && (momentNames e s).contains t) &&
    -- (1) failure at before_/leave_: transition cancelled
    (cancelAt.isEmpty ||
      (after == s && !seg.any (fun | .body _ => true | _ => false) &&
        cancelAt.all fun (_, t) => (laterMoments e s t).all fun m => !seg.any (isMark m false))) &&
    -- (2) failure at enter_/after_: reported, state is the destination, remaining moments ran
    (reportAt.isEmpty || (cancelAt.isEmpty && after == d && seg.any (isMark (Moment.after e).name true))) &&
    -- (3) a critical hook awaited at its own trigger point that fails always makes the request fail
    (!(fs.any fun f => f.fixed && f.hook.critical) || isHooksErr res) &&
    -- (4) without any critical failure so far, hooks are never the reported reason
    (everCritFail || !isHooksErr res) &&
    -- (5) nothing of the same moment with a larger weight runs after a critical failure that cancels
    (fs.all fun f =>
      !(f.fixed && f.hook.critical && cancelAt.any (fun (_, t) => t == f.hook.trig.name)) ||
        (fixedHere hooks seg).all fun (g, go, gs, _) => !(g.trig = f.hook.trig ∧ go = f.occ ∧ g.tw > f.hook.tw ∧ gs > f.pos))
  | some res, none => !isHooksErr res     -- illegal request: hooks cannot be the reason
  | none, _ => false

def anyCritFail (hooks : List Hook) (seg : List IEv) : Bool :=
  (failuresIn hooks seg).any fun f => f.hook.critical

/-! (6) A failure is not lost by being collected late. A critical call whose await moment is another
    moment than its trigger hands its result over when the state machine reaches the await point,
    however long after the call returned (the call's own `timeout` plays no part in that). On the
    trace: such a call returned with a failure (XE … 1) while its await moment was not in progress —
    it is OWED; the first time that moment then runs to its finish marker inside a TryTransition, the
    request fails because of hooks (either this call is collected there, or a critical failure at an
    earlier weight stopped the pass). A teardown collects (leave_<state>) or cancels what is pending
    without publishing markers, so it clears the debt; through the API glue the debt is only tracked. -/

def lateHook (hooks : List Hook) (h : Nat) : Option Hook :=
  (findHook hooks h).filter fun hk => !hk.isTask && hk.critical && decide (hk.await ≠ hk.trig)

/-- …or the same moment, started in its negative-weight pass and awaited in the other pass (the
    weights of a pass are fixed when the pass begins, so the await weight is visited). -/
def passHook (hooks : List Hook) (h : Nat) : Option Hook :=
  (findHook hooks h).filter fun hk => !hk.isTask && hk.critical && decide (hk.await = hk.trig) && decide (hk.tw < 0) && decide (hk.aw ≥ 0)

/-- Walk one segment. `check`: the request is a TryTransition whose result is not a hooks error.
    Returns (no debt was dodged, debts still open). -/
def walkOwed (hooks : List Hook) (check : Bool) : List IEv → (open_ : Option String) → (owed : List Hook) → Bool × List Hook
  | [], _, owed => (true, owed)
  | .xe h _ true _ _ :: rest, op, owed =>
    (match lateHook hooks h, passHook hooks h with
     | some hk, _ => if op == some hk.await.name then walkOwed hooks check rest op owed else walkOwed hooks check rest op (hk :: owed)
     | none, some hk =>
       -- returned inside the occurrence of the moment that started it: that occurrence collects it
       let r := walkOwed hooks check rest op owed
       ((!(op == some hk.await.name) || !check || !rest.any (isMark hk.await.name true)) && r.1, r.2)
     | none, none => walkOwed hooks check rest op owed)
  | .mark m false :: rest, _, owed =>
    let due := owed.filter fun hk => hk.await.name == m
    let complete := rest.any (isMark m true)
    let r := walkOwed hooks check rest (some m) (owed.filter fun hk => hk.await.name != m)
    ((due.isEmpty || !check || !complete) && r.1, r.2)
  | .mark _ true :: rest, _, owed => walkOwed hooks check rest none owed
  | _ :: rest, op, owed => walkOwed hooks check rest op owed

def specC09Segs (hooks : List Hook) : List Req → St → Bool → List Hook → List (List IEv) → Bool
  | [], _, _, _, [] => true
  | q :: qs, s, ever, owed, seg :: segs =>
    match obsOf q s seg with
    | none => false
    | some o =>
      let ever' := ever || anyCritFail hooks seg
      let hooksErr := match resOf seg with | some r => isHooksErr r | none => true
      let isTry := match q with | .try_ .. => true | _ => false
      let wk := walkOwed hooks (isTry && !hooksErr) seg none owed
      let owed' := match q with | .teardown .. => [] | _ => wk.2
      (match q with
       | .try_ e _ _ => specTry hooks e s o.after seg ever'
       | .control .. =>
         -- through the API only clause (4) is checked here (the fallback mixes two transitions)
         (match resOf seg with | some r => ever' || !isHooksErr r | none => false)
       | .teardown .. => true) &&
      wk.1 &&
      specC09Segs hooks qs o.after ever' owed' segs
  | _, _, _, _, _ => false

def specC09 (hooks : List Hook) (reqs : List Req) (tr : ITrace) : Bool :=
  specC09Segs hooks reqs .STANDBY false [] (segments tr [])

/-! (7) Only the criticality of a hook and the moment decide what its failure does — not the WAY it
    failed. The clauses above never ask how an execution failed: they are evaluated on the hooks with the
    ways forgotten (`KHook.forget`: a failing execution is a failing execution, whether the plugin reported
    `__call_error`, ran into its timeout, had its request cancelled, returned a Go error, panicked, was
    missing its function, was not loaded at all, or the expression did not compile). What is added is that
    the trace really is a trace of those ways: every probe execution it records failed (or not) the way
    the script makes the k-th execution of that hook fail. -/

def scriptedOutcome (ks : List KHook) (h k : Nat) : Option Outcome :=
  (ks.find? (fun hk => hk.id == h)).map fun hk => hk.outcomes.getD k .ok

/-- `ws`: per XE record of the trace (hook, execution, fails, way named — `1` if none). -/
def waysFaithful (ks : List KHook) (ws : List (Nat × Nat × Bool × String)) : Bool :=
  ws.all fun (h, k, f, w) =>
    match scriptedOutcome ks h k with
    | some .ok => !f
    | some (.fail way) => f && way.name == w
    | none => false

def specC09K (ks : List KHook) (reqs : List Req) (tr : ITrace) (ws : List (Nat × Nat × Bool × String)) : Bool :=
  specC09 (ks.map KHook.forget) reqs tr && waysFaithful ks ws

end EnvM
