/-
  Spec/C09 — "Only critical hook failures affect a transition, exactly as documented",
  as a decidable predicate over an observed trace.
-/
import ControlModel.Spec.C08

namespace EnvM

/-- A failing execution observed in a segment: (hook, position, is it awaited at its
    own trigger point — a task hook always is). -/
structure FailObs where
  hook : Hook
  pos : Nat
  occ : Nat
  fixed : Bool

def failuresIn (hooks : List Hook) (seg : List IEv) : List FailObs :=
  (seg.zipIdx.map fun (e, i) =>
    match e with
    | .xe h _ true _ _ =>
      match findHook hooks h with
      | some hk => [{ hook := hk, pos := i, occ := occurrence seg hk.trig.name i, fixed := hk.await = hk.trig ∧ hk.aw = hk.tw }]
      | none => []
    | .tasks is => is.filterMap fun (h, _, f) =>
        if f then (findHook hooks h).map fun hk => { hook := hk, pos := i, occ := occurrence seg hk.trig.name i, fixed := true } else none
    | _ => []).flatten

def errTriggers : IRes → List (Nat × String)
  | .err "hooks" hs => hs
  | _ => []

def isHooksErr : IRes → Bool
  | .err "hooks" _ => true
  | _ => false

def resOf (seg : List IEv) : Option IRes :=
  match seg.getLast? with
  | some (.reqEnd r ..) => some r
  | _ => none

/-- Does any record of a later moment of the same transition appear after position p? -/
def laterMoments (e : Ev) (s : St) (failing : String) : List String :=
  (momentNames e s).dropWhile (· != failing) |>.drop 1

def specTry (hooks : List Hook) (e : Ev) (s : St) (after : St) (seg : List IEv) (everCritFail : Bool) : Bool :=
  match resOf seg, dst? e s with
  | some res, some d =>
    let fs := failuresIn hooks seg
    let ets := errTriggers res
    let cancelAt := ets.filter fun (_, t) => t == (Moment.before e).name || t == (Moment.leave s).name
    let reportAt := ets.filter fun (_, t) => t == (Moment.enter d).name || t == (Moment.after e).name
    -- every reported trigger belongs to this transition, with a positive count
    ets.all (fun (n, t) => n ≥ 1 && (momentNames e s).contains t) &&
    -- (1) failure at before_/leave_: transition cancelled
    (cancelAt.isEmpty ||
      (after == s && !seg.any (fun | .body _ => true | _ => false) &&
        cancelAt.all fun (_, t) => (laterMoments e s t).all fun m => !seg.any (isMark m false))) &&
    -- (2) failure at enter_/after_: reported, state is the destination, remaining moments ran
    (reportAt.isEmpty || (cancelAt.isEmpty && after == d && seg.any (isMark (Moment.after e).name true))) &&
    -- (3) a critical hook awaited at its own trigger point that fails always makes the request fail
    (!(fs.any fun f => f.fixed && f.hook.critical) || isHooksErr res) &&
    -- (4) without any critical failure so far, hooks are never the reported reason
    (everCritFail || !isHooksErr res) &&
    -- (5) nothing of the same moment with a larger weight runs after a critical failure that cancels
    (fs.all fun f =>
      !(f.fixed && f.hook.critical && cancelAt.any (fun (_, t) => t == f.hook.trig.name)) ||
        (fixedHere hooks seg).all fun (g, go, gs, _) => !(g.trig = f.hook.trig ∧ go = f.occ ∧ g.tw > f.hook.tw ∧ gs > f.pos))
  | some res, none => !isHooksErr res     -- illegal request: hooks cannot be the reason
  | none, _ => false

def anyCritFail (hooks : List Hook) (seg : List IEv) : Bool :=
  (failuresIn hooks seg).any fun f => f.hook.critical

def specC09Segs (hooks : List Hook) : List Req → St → Bool → List (List IEv) → Bool
  | [], _, _, [] => true
  | q :: qs, s, ever, seg :: segs =>
    match obsOf q s seg with
    | none => false
    | some o =>
      let ever' := ever || anyCritFail hooks seg
      (match q with
       | .try_ e _ _ => specTry hooks e s o.after seg ever'
       | .control .. =>
         -- through the API only clause (4) is checked here (the fallback mixes two transitions)
         (match resOf seg with | some r => ever' || !isHooksErr r | none => false)
       | .teardown .. => true) &&
      specC09Segs hooks qs o.after ever' segs
  | _, _, _, _ => false

def specC09 (hooks : List Hook) (reqs : List Req) (tr : ITrace) : Bool :=
  specC09Segs hooks reqs .STANDBY false (segments tr [])

end EnvM
