/-
  Spec/C10 — "Run number and run timestamps bracket every run exactly once",
  as a decidable predicate over an observed trace.

  A RUN, for this predicate, starts when a run number is published
  (Ev_RunEvent START_ACTIVITY/STARTED with number n) and lasts until the next
  such event or the end of the trace.
-/
import ControlModel.Spec.C09

namespace EnvM

def tvLe : TV → TV → Bool
  | .val a, .val b => a ≤ b
  | _, _ => true

def TV.isVal : TV → Bool
  | .val _ => true
  | _ => false

/-- (4) the set timestamps are ordered start ≤ start-completion ≤ end ≤ end-completion. -/
def tsOrdered (v : Vars) : Bool :=
  tvLe v.sosor v.eosor && tvLe v.sosor v.soeor && tvLe v.sosor v.eoeor &&
  tvLe v.eosor v.soeor && tvLe v.eosor v.eoeor && tvLe v.soeor v.eoeor

/-- A variable snapshot with the place it was taken. -/
inductive Sample where
  | hook (h : Hook) (v : Vars) (marksSeen : List (String × Bool))   -- a probe call awaited at its own trigger point
  | endReq (q : Req) (before after : St) (v : Vars) (rn : Nat) (forced : Bool) (stopDone : Bool)
  | runStarted (n t : Nat)
  | runEvent (tr status : String) (n t : Nat)

/-- The request went through the API glue, began in a live state and ended in ERROR without enter_ERROR ever
    starting: the requested transition failed, the GO_ERROR that follows was itself cancelled by a
    critical hook (before_GO_ERROR / leave_<state>), and the glue forced the state with `Sm.SetState("ERROR")`. -/
def forcedError (q : Req) (before after : St) (seg : List IEv) : Bool :=
  (match q with | .control .. => true | _ => false) && before != .ERROR && after == .ERROR &&
    !seg.any (isMark (Moment.enter .ERROR).name false)

/-- Flatten the trace into samples, keeping for hook samples the markers seen so far in their request. -/
def samplesOf (hooks : List Hook) : List Req → St → List (List IEv) → List Sample
  | q :: qs, s, seg :: segs =>
    let here := (seg.zipIdx.filterMap fun (e, i) =>
      match e with
      | .xe h _ _ v _ =>
        match findHook hooks h with
        | some hk => if hk.await = hk.trig ∧ hk.aw = hk.tw then
            some (Sample.hook hk v ((seg.take i).filterMap fun | .mark n f => some (n, f) | _ => none)) else none
        | none => none
      | .runEvent "START_ACTIVITY" "STARTED" n t => some (Sample.runStarted n t)
      | .runEvent tr st n t => some (Sample.runEvent tr st n t)
      | .reqEnd _ st rn v _ _ => (St.parse? st).map fun a => Sample.endReq q s a v rn (forcedError q s a seg)
          (seg.any (isMark (Moment.after .STOP_ACTIVITY).name true))
      | _ => none)
    let after := match seg.getLast? with
      | some (.reqEnd _ st ..) => (St.parse? st).getD s
      | _ => s
    here ++ samplesOf hooks qs after segs
  | _, _, _ => []

structure RunCtx where
  n : Nat := 0            -- current run number (0: no run yet)
  t0 : Nat := 0           -- its start timestamp
  active : Bool := false  -- between run start and the end of after_STOP_ACTIVITY
  last : Vars := {}       -- variables at the previous sample of this run
  seenNums : List Nat := []
  fresh : Bool := false   -- a run number has been published in the request the walk is in

def tvStable (old new : TV) : Bool :=
  match old with
  | .val a => new == .val a      -- once set, unchanged within the run
  | _ => true

/-- Walk the samples. `strict = false` leaves out clause (6) for requests that forced the state to ERROR
    (the excluded hypothesis of `C10_end_stamps_partial`, known finding `run_end_missing_after_forced_error`). -/
def walk (strict : Bool) : RunCtx → List Sample → Bool
  | _, [] => true
  | c, .runStarted n t :: rest =>
    -- numbers are fresh and increasing
    c.seenNums.all (· < n) &&
    walk strict { n := n, t0 := t, active := true, last := { rnVar := some n, sosor := .val t, eosor := .empty, soeor := .empty, eoeor := .empty },
                  seenNums := n :: c.seenNums, fresh := true } rest
  | c, .runEvent _ _ n _ :: rest =>
    -- every other run event carries the current run's number (0 once the run is over)
    (n == c.n || n == 0) && walk strict c rest
  | c, .hook h v marks :: rest =>
    let inBeforeStart := h.trig = .before .START_ACTIVITY
    -- the STOP of this run has reached the end of after_STOP_ACTIVITY earlier in this request (only the API
    -- glue goes on after that, with GO_ERROR, when the STOP reported a hook failure): the run is over
    let over := marks.contains ((Moment.after .STOP_ACTIVITY).name, true)
    -- (1) negative-weight before_START hooks do not see the new number; the others see number and SOSOR
    -- (8) a NON-NEGATIVE before_START_ACTIVITY hook belongs to the second pass of the moment: it runs only after
    -- THIS request has published its run number (and then sees that number and its start stamp: the clause below)
    (!(inBeforeStart ∧ h.tw ≥ 0) || c.fresh) &&
    -- (9) the non-negative hooks of the other moments of the run bracket see the stamp their moment writes
    -- between its two passes: the end time at before_STOP_ACTIVITY / before_GO_ERROR, the start-completion time
    -- at after_START_ACTIVITY, the end-completion time at after_STOP_ACTIVITY / after_GO_ERROR
    (!(c.active && !over && decide (h.tw ≥ 0)) ||
      ((!(h.trig = .before .STOP_ACTIVITY ∨ h.trig = .before .GO_ERROR) || v.soeor.isVal) &&
       (!(h.trig = .after .START_ACTIVITY) || v.eosor.isVal) &&
       (!(h.trig = .after .STOP_ACTIVITY ∨ h.trig = .after .GO_ERROR) || v.eoeor.isVal))) &&
    (if inBeforeStart ∧ h.tw < 0 then true
     else if c.active && over then v.rnVar == none      -- …and its number is gone
     else if c.active then
       v.rnVar == some c.n && v.sosor == .val c.t0 &&
       -- (5)/(7) stamps only ever go from empty to set within a run, and are ordered
       tvStable c.last.eosor v.eosor && tvStable c.last.soeor v.soeor && tvStable c.last.eoeor v.eoeor && tsOrdered v
     else true) &&
    walk strict (if c.active ∧ !over ∧ !(inBeforeStart ∧ h.tw < 0) then { c with last := v } else c) rest
  | c, .endReq q before after v rn forced stopDone :: rest =>
    -- the STOP went through to the end of after_STOP_ACTIVITY (state CONFIGURED — or ERROR, when the API glue
    -- answered a failure reported at enter_/after_ with GO_ERROR)
    let stopped := (match q with | .try_ .STOP_ACTIVITY .. | .control .STOP_ACTIVITY .. => true | _ => false) && before == .RUNNING &&
      (after == .CONFIGURED || stopDone)
    tsOrdered v &&
    (if c.active then
      tvStable c.last.eosor v.eosor && tvStable c.last.soeor v.soeor && tvStable c.last.eoeor v.eoeor &&
      (v.sosor == .val c.t0) &&
      -- (3) after a completed STOP the number is gone; otherwise it is still this run's
      (if stopped then v.rnVar == none && rn == 0 && v.lastRn == some c.n else (v.rnVar == some c.n)) &&
      -- (6) however the run ended, both end stamps are set once the environment has left RUNNING — or has gone
      -- to ERROR from any other live state: a run whose number and start stamp were published (STARTED) but
      -- whose tasks never got to RUNNING (START_ACTIVITY cancelled after its before_ pass: the environment is
      -- still CONFIGURED) is closed by the GO_ERROR that follows, through the same guarded writers
      (!((before == .RUNNING && after != .RUNNING) || (before != .ERROR && after == .ERROR)) ||
        (!strict && forced) || (v.soeor.isVal && v.eoeor.isVal))
     else true) &&
    walk strict (if c.active then { c with last := v, active := !stopped && c.active, fresh := false } else { c with fresh := false }) rest

def specC10 (hooks : List Hook) (reqs : List Req) (tr : ITrace) : Bool :=
  walk true {} (samplesOf hooks reqs .STANDBY (segments tr []))

/-- Spec.C10 without the end-stamp demand on requests that forced the state to ERROR. -/
def specC10Relaxed (hooks : List Hook) (reqs : List Req) (tr : ITrace) : Bool :=
  walk false {} (samplesOf hooks reqs .STANDBY (segments tr []))

/-- The class of the repaired finding `end_stamp_rewritten_after_failed_teardown` (its excluded hypothesis while
    after_STOP_ACTIVITY was unguarded): no teardown whose task release fails. No longer excused by the driver. -/
def noFailedTeardown (reqs : List Req) : Bool :=
  reqs.all fun | .teardown _ r1 r2 => r1 && r2 | _ => true

end EnvM
