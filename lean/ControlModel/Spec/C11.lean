/-
  Spec/C11 — what the property demands of a role tree, as decidable predicates.

  "every role reports the combination of its children: for state, of its
   critical descendants only (ERROR dominates, differing healthy states give
   MIXED, no critical descendant gives no opinion); for status, of all
   descendants (anything missing makes it PARTIAL, an undeployable descendant
   makes it UNDEPLOYABLE)".
-/
import ControlModel.Model.RoleTree

namespace RoleTree
open Forest TState TStatus

/-- The property's fold for state: the X-combination of the states of all
    critical leaf descendants; INVARIANT ("no opinion") when there is none.
    It looks at leaves only — cached aggregator values play no role. -/
def specState : Forest → TState
  | .nil => .INVARIANT
  | .leaf _ crit st _ next => if crit then st.X (specState next) else specState next
  | .agg _ _ kids next => (specState kids).X (specState next)

/-- The property's fold for status over a non-empty sibling list; `none` for
    an empty one. An aggregator without children is UNDEFINED. -/
def specStatus? : Forest → Option TStatus
  | .nil => none
  | .leaf _ _ _ su next =>
      match specStatus? next with
      | none => some su
      | some r => some (su.X r)
  | .agg _ _ kids next =>
      let k := (specStatus? kids).getD .UNDEFINED
      match specStatus? next with
      | none => some k
      | some r => some (k.X r)

def specStatus (kids : Forest) : TStatus := (specStatus? kids).getD .UNDEFINED

/-- Every aggregator in the forest reports the spec's state for its subtree. -/
def stateOk : Forest → Bool
  | .nil => true
  | .leaf _ _ _ _ next => stateOk next
  | .agg st _ kids next => decide (st = specState kids) && stateOk kids && stateOk next

/-- Every aggregator in the forest reports the spec's status for its subtree. -/
def statusOk : Forest → Bool
  | .nil => true
  | .leaf _ _ _ _ next => statusOk next
  | .agg _ su kids next => decide (su = specStatus kids) && statusOk kids && statusOk next

/-- Does this sibling list contain a critical task/call at any depth? -/
def hasCritical : Forest → Bool
  | .nil => false
  | .leaf _ crit _ _ next => crit || hasCritical next
  | .agg _ _ kids next => hasCritical kids || hasCritical next

/-- Excluded hypothesis of `C11_state_seq_partial` (known finding
    `barren_aggregator`): every aggregator has a critical descendant. -/
def noBarren : Forest → Bool
  | .nil => true
  | .leaf _ _ _ _ next => noBarren next
  | .agg _ _ kids next => hasCritical kids && noBarren kids && noBarren next

/-- Exchange the first two siblings of a list. -/
def swapHead : Forest → Forest
  | .leaf c1 k1 s1 u1 (.leaf c2 k2 s2 u2 n) => .leaf c2 k2 s2 u2 (.leaf c1 k1 s1 u1 n)
  | .leaf c1 k1 s1 u1 (.agg s2 u2 kids2 n) => .agg s2 u2 kids2 (.leaf c1 k1 s1 u1 n)
  | .agg s1 u1 kids1 (.leaf c2 k2 s2 u2 n) => .leaf c2 k2 s2 u2 (.agg s1 u1 kids1 n)
  | .agg s1 u1 kids1 (.agg s2 u2 kids2 n) => .agg s2 u2 kids2 (.agg s1 u1 kids1 n)
  | f => f

/-- Exchange siblings `n` and `n+1` (adjacent transpositions generate every
    reordering of a role's children). -/
def swapAt : Nat → Forest → Forest
  | 0, f => swapHead f
  | _ + 1, .nil => .nil
  | n + 1, .leaf c k s u next => .leaf c k s u (swapAt n next)
  | n + 1, .agg s u kids next => .agg s u kids (swapAt n next)

/-- Full-strength Spec for one observed tree. -/
def Spec (f : Forest) : Bool := stateOk f && statusOk f

end RoleTree
