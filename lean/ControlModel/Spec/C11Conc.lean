/-
  Spec/C11Conc — the concurrent clause of C11 as a decidable predicate on one observation:

    "an ERROR of a critical task is never lost nor invented at the root, also when updates arrive
     concurrently."

  Evaluated on the states all roles report once every `UpdateState` has returned (`st`), given the
  tree, the updates (`T.thr`) and the states before the threads started (`st0`).
-/
import ControlModel.Model.RoleTreeConc

namespace RoleTree.Conc
open RoleTree TState

/-- every task/call role reports its old state or one that was delivered to it -/
def leavesOk (T : Topo) (st0 st : Nat → TState) : Bool :=
  (List.range T.nodes.length).all (fun k =>
    T.agg k || st k == st0 k || T.thr.any (fun ls => ls.1 == k && ls.2 == st k))

/-- never lost: a critical task/call role in ERROR ⇒ the root (role 0) reports ERROR -/
def notLost (T : Topo) (st : Nat → TState) : Bool := !critLeafErr T st || st 0 == .ERROR

/-- never invented: the root reports ERROR ⇒ an ERROR was delivered to a critical role, or a role
    that counts was in ERROR before -/
def notInvented (T : Topo) (st0 st : Nat → TState) : Bool :=
  !(st 0 == .ERROR) || errUpdate T || anyErr T st0

/-- Spec for one quiescent observation. `errUp` is the local form of "never lost" (at EVERY
    aggregator, not only the root). -/
def concOk (T : Topo) (st0 st : Nat → TState) : Bool :=
  errUp T st && notLost T st && notInvented T st0 st && leavesOk T st0 st

end RoleTree.Conc
