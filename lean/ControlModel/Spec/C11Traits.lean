/-
  Spec/C11Traits — the property's predicates for role trees whose task/call roles carry their
  traits (Model/RoleTraits.lean): "the fold is over ALL critical task descendants".

  A task hook (a task role with a trigger) is a task; a critical one takes part in the fold of every
  ancestor like any other critical task, a non-critical one does not. The predicates below say this
  by NOT mentioning `tr.hook` anywhere.
-/
import ControlModel.Model.RoleTraits
import ControlModel.Spec.C11

namespace RoleTree
open TForest TState TStatus

/-- The property's fold for state: X-combination of the states of all critical task/call
    descendants, hooks included; INVARIANT when there is none. -/
def specStateT : TForest → TState
  | .nil => .INVARIANT
  | .leaf _ tr st _ next => if tr.crit then st.X (specStateT next) else specStateT next
  | .agg _ _ kids next => (specStateT kids).X (specStateT next)

/-- The property's fold for status: all descendants. -/
def specStatusT? : TForest → Option TStatus
  | .nil => none
  | .leaf _ _ _ su next =>
      match specStatusT? next with
      | none => some su
      | some r => some (su.X r)
  | .agg _ _ kids next =>
      let k := (specStatusT? kids).getD .UNDEFINED
      match specStatusT? next with
      | none => some k
      | some r => some (k.X r)

def specStatusT (kids : TForest) : TStatus := (specStatusT? kids).getD .UNDEFINED

def stateOkT : TForest → Bool
  | .nil => true
  | .leaf _ _ _ _ next => stateOkT next
  | .agg st _ kids next => decide (st = specStateT kids) && stateOkT kids && stateOkT next

def statusOkT : TForest → Bool
  | .nil => true
  | .leaf _ _ _ _ next => statusOkT next
  | .agg _ su kids next => decide (su = specStatusT kids) && statusOkT kids && statusOkT next

def hasCriticalT : TForest → Bool
  | .nil => false
  | .leaf _ tr _ _ next => tr.crit || hasCriticalT next
  | .agg _ _ kids next => hasCriticalT kids || hasCriticalT next

/-- Excluded hypothesis of the `…_partial` theorems (known finding `barren_aggregator`). -/
def noBarrenT : TForest → Bool
  | .nil => true
  | .leaf _ _ _ _ next => noBarrenT next
  | .agg _ _ kids next => hasCriticalT kids && noBarrenT kids && noBarrenT next

/-- Some critical task/call role of this sibling list, at any depth, hook or not, holds ERROR. -/
def critErrT : TForest → Bool
  | .nil => false
  | .leaf _ tr st _ next => (tr.crit && decide (st = .ERROR)) || critErrT next
  | .agg _ _ kids next => critErrT kids || critErrT next

/-- "An ERROR of a critical task is never lost": every aggregator with such a descendant reports ERROR. -/
def errKeptT : TForest → Bool
  | .nil => true
  | .leaf _ _ _ _ next => errKeptT next
  | .agg st _ kids next => (!critErrT kids || decide (st = .ERROR)) && errKeptT kids && errKeptT next

/-- Same shape, same leaves (kind, traits, state, status); aggregator values free. -/
def sameLeavesT : TForest → TForest → Bool
  | .nil, .nil => true
  | .leaf c tr st su next, .leaf c' tr' st' su' next' =>
      decide (c = c') && decide (tr = tr') && decide (st = st') && decide (su = su') && sameLeavesT next next'
  | .agg _ _ kids next, .agg _ _ kids' next' => sameLeavesT kids kids' && sameLeavesT next next'
  | _, _ => false


/-! ### Repeated reports and non-uniform presets (seed C11-7)

A role made by `NewAggregatorRole` is born with the zero values UNKNOWN/UNDEFINED, a loaded role (and a copy an
iterator generates) with STANDBY/INACTIVE: before the first update reaches it, such an aggregator is NOT the fold
of its subtree. What the code guarantees then is local and per update: after `UpdateStatus` of a leaf every
aggregator ABOVE that leaf is the fold of the values its children report — whether or not the leaf's value changed. -/

/-- Every aggregator on the path is the (one-level) fold of its children's reported status. -/
def pathStatusOkT : TForest → List Nat → Bool
  | .nil, _ => true
  | _, [] => true
  | .leaf _ _ _ _ next, (i+1) :: rest => pathStatusOkT next (i :: rest)
  | .leaf _ _ _ _ _, 0 :: _ => true
  | .agg _ su kids _, 0 :: rest => decide (su = aggregateStatusT kids) && pathStatusOkT kids rest
  | .agg _ _ _ next, (i+1) :: rest => pathStatusOkT next (i :: rest)

/-- Hypothesis on the tree before the update: every aggregator on the path either has folded nothing yet
    (zero value UNDEFINED) or is the fold of its children. -/
def pathStatusPreT : TForest → List Nat → Bool
  | .nil, _ => true
  | _, [] => true
  | .leaf _ _ _ _ next, (i+1) :: rest => pathStatusPreT next (i :: rest)
  | .leaf _ _ _ _ _, 0 :: _ => true
  | .agg _ su kids _, 0 :: rest =>
      (decide (su = .UNDEFINED) || decide (su = aggregateStatusT kids)) && pathStatusPreT kids rest
  | .agg _ _ _ next, (i+1) :: rest => pathStatusPreT next (i :: rest)

/-- (state, status) of the role at `path`. -/
def valAtT : TForest → List Nat → Option (TState × TStatus)
  | .nil, _ => none
  | _, [] => none
  | .leaf _ _ st su _, [0] => some (st, su)
  | .leaf _ _ _ _ _, 0 :: _ :: _ => none
  | .leaf _ _ _ _ next, (i+1) :: rest => valAtT next (i :: rest)
  | .agg st su _ _, [0] => some (st, su)
  | .agg _ _ kids _, 0 :: r :: rest => valAtT kids (r :: rest)
  | .agg _ _ _ next, (i+1) :: rest => valAtT next (i :: rest)

/-- All roles born with the loader's presets (what every tree built from YAML looks like). -/
def uniformInitT : TForest → Bool
  | .nil => true
  | .leaf _ _ st su next => decide (st = .STANDBY) && decide (su = .INACTIVE) && uniformInitT next
  | .agg st su kids next => decide (st = .STANDBY) && decide (su = .INACTIVE) && uniformInitT kids && uniformInitT next


/-- Every aggregator has folded nothing yet (zero value UNDEFINED) or is the fold of what its children report.
    Holds of every tree the harness builds (loaded roles: INACTIVE everywhere; `NewAggregatorRole`: UNDEFINED). -/
def zeroOrFoldT : TForest → Bool
  | .nil => true
  | .leaf _ _ _ _ next => zeroOrFoldT next
  | .agg _ su kids next =>
      (decide (su = .UNDEFINED) || decide (su = aggregateStatusT kids)) && zeroOrFoldT kids && zeroOrFoldT next

/-- The update addresses a task/call role. -/
def reachesLeafT : TForest → List Nat → Bool
  | .nil, _ => false
  | _, [] => false
  | .leaf _ _ _ _ _, [0] => true
  | .leaf _ _ _ _ _, 0 :: _ :: _ => false
  | .leaf _ _ _ _ next, (i+1) :: rest => reachesLeafT next (i :: rest)
  | .agg _ _ kids _, 0 :: rest => reachesLeafT kids rest
  | .agg _ _ _ next, (i+1) :: rest => reachesLeafT next (i :: rest)


/-- Every update of the sequence addresses a task/call role of the tree it meets. -/
def reachAllT (f : TForest) : List Update → Bool
  | [] => true
  | .state p s :: us => reachesLeafT f (0 :: p) && reachAllT (updStateT f (0 :: p) s).1 us
  | .status p s :: us => reachesLeafT f (0 :: p) && reachAllT (updStatusT f (0 :: p) s).1 us

/-- Spec for one step `g --u--> g'` observed on a tree with non-uniform presets. -/
def stepOkT (g' : TForest) : Update → Bool
  | .status p s => pathStatusOkT g' (0 :: p) && decide ((valAtT g' (0 :: p)).map (·.2) = some s)
  | .state p s => decide ((valAtT g' (0 :: p)).map (·.1) = some s)

/-- Spec for a whole observation `g0, g1, …` of updates `us` (pairs each update with the tree AFTER it). -/
def stepsOkT : List TForest → List Update → Bool
  | _ :: g' :: gs, u :: us => stepOkT g' u && stepsOkT (g' :: gs) us
  | _, _ => true

/-- The variant "a report that does not change the leaf is not handed upward" — NOT the code
    (taskRole/callRole.updateStatus call `t.parent.updateStatus(s)` unconditionally). -/
def updStatusSkipT : TForest → List Nat → TStatus → TForest × Option TStatus
  | .nil, _, _ => (.nil, none)
  | f, [], _ => (f, none)
  | .leaf c tr st su next, [0], s => (.leaf c tr st s next, if su = s then none else some s)
  | .leaf c tr st su next, 0 :: _ :: _, _ => (.leaf c tr st su next, none)
  | .leaf c tr st su next, (i+1) :: rest, s =>
      let r := updStatusSkipT next (i :: rest) s
      (.leaf c tr st su r.1, r.2)
  | .agg st su kids next, 0 :: rest, s =>
      let r := updStatusSkipT kids rest s
      match r.2 with
      | none => (.agg st su r.1 next, none)
      | some v =>
        let su' := mergeStatusT su v r.1
        (.agg st su' r.1 next, some su')
  | .agg st su kids next, (i+1) :: rest, s =>
      let r := updStatusSkipT next (i :: rest) s
      (.agg st su kids r.1, r.2)

/-- Full-strength Spec for one observed tree. -/
def SpecT (f : TForest) : Bool := stateOkT f && statusOkT f

end RoleTree
