/-
  Spec/C11Traits — the property's predicates for role trees whose task/call roles carry their
  traits (Model/RoleTraits.lean): "the fold is over ALL critical task descendants".

  A task hook (a task role with a trigger) is a task; a critical one takes part in the fold of every
  ancestor like any other critical task, a non-critical one does not. The predicates below say this
  by NOT mentioning `tr.hook` anywhere.
-/
import ControlModel.Model.RoleTraits
import ControlModel.Spec.C11

namespace RoleTree
open TForest TState TStatus

/-- The property's fold for state: X-combination of the states of all critical task/call
    descendants, hooks included; INVARIANT when there is none. -/
def specStateT : TForest → TState
  | .nil => .INVARIANT
  | .leaf _ tr st _ next => if tr.crit then st.X (specStateT next) else specStateT next
  | .agg _ _ kids next => (specStateT kids).X (specStateT next)

/-- The property's fold for status: all descendants. -/
def specStatusT? : TForest → Option TStatus
  | .nil => none
  | .leaf _ _ _ su next =>
      match specStatusT? next with
      | none => some su
      | some r => some (su.X r)
  | .agg _ _ kids next =>
      let k := (specStatusT? kids).getD .UNDEFINED
      match specStatusT? next with
      | none => some k
      | some r => some (k.X r)

def specStatusT (kids : TForest) : TStatus := (specStatusT? kids).getD .UNDEFINED

def stateOkT : TForest → Bool
  | .nil => true
  | .leaf _ _ _ _ next => stateOkT next
  | .agg st _ kids next => decide (st = specStateT kids) && stateOkT kids && stateOkT next

def statusOkT : TForest → Bool
  | .nil => true
  | .leaf _ _ _ _ next => statusOkT next
  | .agg _ su kids next => decide (su = specStatusT kids) && statusOkT kids && statusOkT next

def hasCriticalT : TForest → Bool
  | .nil => false
  | .leaf _ tr _ _ next => tr.crit || hasCriticalT next
  | .agg _ _ kids next => hasCriticalT kids || hasCriticalT next

/-- Excluded hypothesis of the `…_partial` theorems (known finding `barren_aggregator`). -/
def noBarrenT : TForest → Bool
  | .nil => true
  | .leaf _ _ _ _ next => noBarrenT next
  | .agg _ _ kids next => hasCriticalT kids && noBarrenT kids && noBarrenT next

/-- Some critical task/call role of this sibling list, at any depth, hook or not, holds ERROR. -/
def critErrT : TForest → Bool
  | .nil => false
  | .leaf _ tr st _ next => (tr.crit && decide (st = .ERROR)) || critErrT next
  | .agg _ _ kids next => critErrT kids || critErrT next

/-- "An ERROR of a critical task is never lost": every aggregator with such a descendant reports ERROR. -/
def errKeptT : TForest → Bool
  | .nil => true
  | .leaf _ _ _ _ next => errKeptT next
  | .agg st _ kids next => (!critErrT kids || decide (st = .ERROR)) && errKeptT kids && errKeptT next

/-- Same shape, same leaves (kind, traits, state, status); aggregator values free. -/
def sameLeavesT : TForest → TForest → Bool
  | .nil, .nil => true
  | .leaf c tr st su next, .leaf c' tr' st' su' next' =>
      decide (c = c') && decide (tr = tr') && decide (st = st') && decide (su = su') && sameLeavesT next next'
  | .agg _ _ kids next, .agg _ _ kids' next' => sameLeavesT kids kids' && sameLeavesT next next'
  | _, _ => false

/-- Full-strength Spec for one observed tree. -/
def SpecT (f : TForest) : Bool := stateOkT f && statusOkT f

end RoleTree
