/-
  Spec/C12 — "each control command gets exactly one answer per target, never
  someone else's", as decidable predicates over what is observable at the
  Enqueue callback channel and at the injected send function.

  The same predicates are (a) proved of every model execution in Props/C12.lean
  and (b) evaluated by the driver on what the REAL code did (harness trace).
-/
import ControlModel.Model.CmdQueue

namespace CmdQueue

/-- The map entry for target `t` of command `c` is `t`'s own reply (addressed
    by command id AND sender), or an error response synthesised for this
    command (could not be sent / did not answer). -/
def ownOrError (c : Cmd) (t : Nat) : TResp → Bool
  | .own r => r.id == c.id && r.sender == t
  | .synth id _ => id == c.id

/-- Shape of the consolidated result: nil for no target, the single response
    for one target, a multi-response holding exactly one own-or-error entry per
    target for two or more. -/
def shapeOk (c : Cmd) : Result → Bool
  | .nil => c.targets.isEmpty
  | .single v =>
    match c.targets with
    | [t] => ownOrError c t v
    | _ => false
  | .multi id m =>
    id == c.id && decide (2 ≤ c.targets.length) && m.length == c.targets.length &&
      c.targets.all (fun t =>
        match mget m t with
        | some v => ownOrError c t v
        | none => false)

/-- The entry a result holds for target `t` (`GetResponses()[t]`, or the single response). -/
def entryOf (c : Cmd) (res : Result) (t : Nat) : Option TResp :=
  match res with
  | .nil => none
  | .single v => if c.targets = [t] then some v else none
  | .multi _ m => mget m t

/-- `Errors()` of a multi-response: the targets whose entry has `Err() != nil`. -/
def errTargets : Result → List Nat
  | .multi _ m => (m.filter (fun e => e.2.isErr)).map (·.1)
  | _ => []

/-- Events the harness records (one total order, taken under one mutex). -/
inductive Ev where
  /-- the injected send function was called for (command index, target) and returned ok / an error -/
  | send (c : Nat) (t : Nat) (ok : Bool)
  /-- `ProcessResponse(r, sender)` was issued -/
  | resp (r : Resp)
  /-- a value arrived on the callback channel of command `c` -/
  | done (c : Nat) (res : Result)
deriving DecidableEq, Repr

def isDone (c : Nat) : Ev → Bool
  | .done c' _ => c' == c
  | _ => false

/-- Why an entry may be what it is, given what happened BEFORE the callback:
    an own reply must have been issued; "could not be sent" only if the send to
    that target failed; "did not answer" only if it was sent. -/
def causeOk (before : List Ev) (ci : Nat) (t : Nat) : TResp → Bool
  | .own r => before.contains (.resp r)
  | .synth _ .send => before.contains (.send ci t false)
  | .synth _ .timeout => before.contains (.send ci t true)

/-- All callbacks in a trace are well-shaped, own-or-error and caused. -/
def donesOk (cmds : List Cmd) : List Ev → List Ev → Bool
  | _, [] => true
  | before, .done ci res :: rest =>
    (match cmds[ci]? with
     | some c => shapeOk c res && c.targets.all (fun t =>
         match entryOf c res t with
         | some e => causeOk before ci t e
         | none => false)
     | none => false) && donesOk cmds (before ++ [.done ci res]) rest
  | before, e :: rest => donesOk cmds (before ++ [e]) rest

/-- Every command of the scenario (all are enqueued and awaited by the harness)
    completed exactly once. -/
def onceOk (n : Nat) (evs : List Ev) : Bool :=
  (List.range n).all (fun c => (evs.filter (isDone c)).length == 1)

/-- Results read again at the very end (after late / duplicate / foreign
    replies) are what was delivered. -/
def finalOk (evs : List Ev) (final : List (Nat × Result)) : Bool :=
  final.all (fun (c, res) => evs.contains (.done c res))

/-- Spec.C12 on one observed scenario. Vacuous outside the property's domain
    (ids and per-command targets distinct). -/
def Spec (cmds : List Cmd) (evs : List Ev) (final : List (Nat × Result)) : Bool :=
  !wfCfg cmds || (onceOk cmds.length evs && donesOk cmds [] evs && finalOk evs final)

end CmdQueue
