/-
  Spec/C12 — "each control command gets exactly one answer per target, never
  someone else's", as decidable predicates over what is observable at the
  Enqueue callback channel, at the injected send function (including the command
  object it is handed) and at the calls of / returns from ProcessResponse.

  The same predicates are (a) proved of every model execution in Props/C12.lean
  and (b) evaluated by the driver on what the REAL code did (harness trace).
-/
import ControlModel.Model.CmdQueue
import ControlModel.Model.CmdHandover
import ControlModel.Model.CmdLock

namespace CmdQueue

/-- Where a goroutine dump finds the consumer goroutine of a queue with respect
    to a command `c` whose `Enqueue` has returned: `held` — blocked in the send on
    `c`'s callback channel; `idle` — parked in its receive on the queue channel;
    `passed` — already working on a command enqueued behind `c`. -/
inductive Where where
  | held
  | idle
  | passed
deriving DecidableEq, Repr

/-- The map entry for target `t` of command `c` is `t`'s own reply (addressed
    by command id AND sender), or an error response synthesised for this
    command (could not be sent / did not answer). -/
def ownOrError (c : Cmd) (t : Nat) : TResp → Bool
  | .own r => r.id == c.id && r.sender == t
  | .synth id _ => id == c.id

/-- Shape of the consolidated result: nil for no target, the single response
    for one target, a multi-response holding exactly one own-or-error entry per
    target for two or more. -/
def shapeOk (c : Cmd) : Result → Bool
  | .nil => c.targets.isEmpty
  | .single v =>
    match c.targets with
    | [t] => ownOrError c t v
    | _ => false
  | .multi id m =>
    id == c.id && decide (2 ≤ c.targets.length) && m.length == c.targets.length &&
      c.targets.all (fun t =>
        match mget m t with
        | some v => ownOrError c t v
        | none => false)

/-- The entry a result holds for target `t` (`GetResponses()[t]`, or the single response). -/
def entryOf (c : Cmd) (res : Result) (t : Nat) : Option TResp :=
  match res with
  | .nil => none
  | .single v => if c.targets = [t] then some v else none
  | .multi _ m => mget m t

/-- `Errors()` of a multi-response: the targets whose entry has `Err() != nil`. -/
def errTargets : Result → List Nat
  | .multi _ m => (m.filter (fun e => e.2.isErr)).map (·.1)
  | _ => []

/-- Events the harness records (one total order, taken under one mutex). -/
inductive Ev where
  /-- the injected send function was ENTERED for (command index, target) — it
      later returned ok / an error — and the command object it was handed (the
      one `RunCommand` registers, sends and arms its timer with) has response
      timeout `tmo` and arguments `arg` -/
  | send (c : Nat) (t : Nat) (ok : Bool) (tmo : Nat) (arg : Nat)
  /-- `ProcessResponse(r, sender)` was issued (recorded BEFORE the call) -/
  | resp (r : Resp)
  /-- that `ProcessResponse(r, sender)` returned (recorded AFTER the return);
      `early` = it returned less than the call's response timeout after the send
      function for `r`'s key had been entered, i.e. before the caller's timer —
      armed only after the send function returned — could have fired -/
  | ret (r : Resp) (early : Bool)
  /-- a value arrived on the callback channel of command `c` -/
  | done (c : Nat) (res : Result)
  /-- the caller of command `c` starts to receive on `c`'s callback channel
      (recorded BEFORE; a command without this event is listened to from the start) -/
  | listen (c : Nat)
  /-- a goroutine dump found the consumer goroutine of `c`'s queue there -/
  | probe (c : Nat) (w : Where)
  /-- two identical goroutine dumps PROVE that command `c` — enqueued, its caller
      listening — will never complete: every goroutine inside the Servent is parked,
      per-target callers of `c`'s queue among them in `s.mu.Lock()`, the others in
      `ProcessResponse`'s blocking hand-over, none in `RunCommand`'s select: the
      servent mutex is held by a goroutine that can never release it -/
  | stuck (c : Nat)
deriving DecidableEq, Repr

def isDone (c : Nat) : Ev → Bool
  | .done c' _ => c' == c
  | _ => false

def isSend (c t : Nat) (ok : Bool) : Ev → Bool
  | .send c' t' ok' _ _ => c' == c && t' == t && ok' == ok
  | _ => false

/-- Why an entry may be what it is, given what happened BEFORE the callback:
    an own reply must have been issued; "could not be sent" only if the send to
    that target failed; "did not answer" only if it was sent. -/
def causeOk (before : List Ev) (ci : Nat) (t : Nat) : TResp → Bool
  | .own r => before.contains (.resp r)
  | .synth _ .send => before.any (isSend ci t false)
  | .synth _ .timeout => before.any (isSend ci t true)

/-- The servent waits for target `t` with the command's OWN response timeout
    and sends it ITS OWN arguments: the per-target command that reaches the send
    function (and `time.After(cmd.GetResponseTimeout())`) is the command
    restricted to that target. -/
def sendOk1 (cmds : List Cmd) : Ev → Bool
  | .send c t _ tmo arg =>
    match cmds[c]? with
    | some cmd => cmd.targets.contains t && tmo == cmd.tmo && arg == argOf cmd t
    | none => false
  | _ => true

def sendsOk (cmds : List Cmd) (evs : List Ev) : Bool := evs.all (sendOk1 cmds)

/-- What the injected send function observes when caller `i` of the MODEL does
    its send step: the single-target command `commit` made for it. -/
def sendView (cmds : List Cmd) (i : Ref) (ok : Bool) : Option Ev :=
  (callCmd cmds i).map (fun x => .send i.1 x.2 ok x.1.tmo (argOf x.1 x.2))

def emitSend (cmds : List Cmd) (s : State) : Step → Option Ev
  | .sendOk i => if (s.call i).pc = .registered then sendView cmds i true else none
  | .sendFail i => if (s.call i).pc = .registered then sendView cmds i false else none
  | _ => none

/-- The send events of a model execution. -/
def sendTrace (cmds : List Cmd) : State → List Step → List Ev
  | _, [] => []
  | s, st :: rest => (emitSend cmds s st).toList ++ sendTrace cmds (step cmds s st) rest

/-- What follows the (first) successful send of command `ci` to target `t`. -/
def afterSend (ci t : Nat) : List Ev → Option (List Ev)
  | [] => none
  | .send c t' true _ _ :: rest => if c == ci && t' == t then some rest else afterSend ci t rest
  | _ :: rest => afterSend ci t rest

/-- The first reply addressed to (id, t) in `l` whose `ProcessResponse` later
    returned early (before the caller's timer could have fired). -/
def firstWitness (id t : Nat) : List Ev → Option Resp
  | [] => none
  | .resp r :: rest =>
    if r.id == id && r.sender == t && rest.contains (.ret r true) then some r
    else firstWitness id t rest
  | _ :: rest => firstWitness id t rest

/-- The trace up to and including the issue of `r`. -/
def uptoResp (r : Resp) : List Ev → List Ev
  | [] => []
  | e :: rest => if e = .resp r then [e] else e :: uptoResp r rest

/-- A reply is never silently lost. If, after the send function for (command,
    t) was entered (the pending call is registered BEFORE the send), a reply
    `r` addressed to (command id, t) was issued and its `ProcessResponse`
    returned before the call's timer could have fired, then `r` found the
    pending call — unless an earlier reply for the same key had taken it — and
    the caller received what was handed over: the entry for `t` is `r` or an
    earlier reply with the same key (`C12_reply_not_lost`: the only other
    outcome of the model is a timeout AFTER the hand-over, and then that
    `ProcessResponse` never returns). -/
def notLostOk (cmd : Cmd) (before : List Ev) (ci t : Nat) (e : TResp) : Bool :=
  match afterSend ci t before with
  | none => true
  | some after =>
    match firstWitness cmd.id t after with
    | none => true
    | some r =>
      match e with
      | .own r' => r'.id == cmd.id && r'.sender == t && (uptoResp r before).contains (.resp r')
      | .synth _ _ => false

/-- All callbacks in a trace are well-shaped, own-or-error, caused, and hold
    every reply that provably reached its pending call. -/
def donesOk (cmds : List Cmd) : List Ev → List Ev → Bool
  | _, [] => true
  | before, .done ci res :: rest =>
    (match cmds[ci]? with
     | some c => shapeOk c res && c.targets.all (fun t =>
         match entryOf c res t with
         | some e => causeOk before ci t e && notLostOk c before ci t e
         | none => false)
     | none => false) && donesOk cmds (before ++ [.done ci res]) rest
  | before, e :: rest => donesOk cmds (before ++ [e]) rest

/-! ### the hand-over of the answer is a rendezvous that waits for the caller -/

def isListen (c : Nat) : Ev → Bool
  | .listen c' => c' == c
  | _ => false

/-- Evidence that command `c` has been dequeued: the send function was entered
    for it, or the consumer goroutine was seen at (or past) its hand-over. -/
def dequeues (c : Nat) : Ev → Bool
  | .send c' _ _ _ _ => c' == c
  | .probe c' _ => c' == c
  | _ => false

/-- The commands whose caller starts to listen in the course of the trace. -/
def lateSet (evs : List Ev) : List Nat :=
  evs.filterMap fun
    | .listen c => some c
    | _ => none

/-- The queue command `c` was enqueued on. -/
def queueOf (qs : List Nat) (c : Nat) : Nat := (qs[c]?).getD 0

/-- One event, given everything recorded before it:
    * a caller receives an answer only after it started to listen;
    * wherever the consumer goroutine is found with respect to `c`, either it is
      blocked handing `c`'s answer over (`held`) or `c`'s caller HAS its answer:
      a consumer that is idle or busy with a later command while nothing arrived
      on `c`'s callback channel has dropped the answer;
    * while a command `c` has been dequeued and its caller has not even started
      to listen, the send function is entered for no other command of `c`'s queue:
      the queue waits. -/
def handoverStep (qs : List Nat) (late : List Nat) (before : List Ev) : Ev → Bool
  | .done c _ => !late.contains c || before.any (isListen c)
  | .probe c w => w == .held || before.any (isDone c)
  | .send c' _ _ _ _ =>
    (List.range qs.length).all fun c =>
      c == c' || queueOf qs c != queueOf qs c' || !late.contains c || before.any (isListen c) ||
        !before.any (dequeues c)
  | _ => true

def handoverFrom (qs : List Nat) (late : List Nat) : List Ev → List Ev → Bool
  | _, [] => true
  | before, e :: rest => handoverStep qs late before e && handoverFrom qs late (before ++ [e]) rest

def handoverOk (qs : List Nat) (evs : List Ev) : Bool := handoverFrom qs (lateSet evs) [] evs

/-- What an observer of a MODEL execution records for one step (the send events
    as in `emitSend`; `listen`; the rendezvous as the arrival of the offered value;
    a probe, once `commit` has returned, as `held` until the answer is taken). -/
def emitQ (cmds : List Cmd) (s : QState) : QStep → Option Ev
  | .base st => emitSend cmds s.base st
  | .listen c => some (.listen c)
  | .take c =>
    if s.listening c = true ∧ s.taken c = false then (offered s c).map (.done c) else none
  | .probe c =>
    if s.base.completed c = true then some (.probe c (if s.taken c = true then .passed else .held)) else none

def qtrace (cmds : List Cmd) (qof : Nat → Nat) : QState → List QStep → List Ev
  | _, [] => []
  | s, st :: rest => (emitQ cmds s st).toList ++ qtrace cmds qof (qstep cmds qof s st) rest

/-! ### no command is ever wedged -/

def isStuck : Ev → Bool
  | .stuck _ => true
  | _ => false

/-- No goroutine dump ever proves a command stuck for ever. -/
def neverStuck (evs : List Ev) : Bool := !evs.any isStuck

/-- What an observer that looks for wedged commands (`look c`: a goroutine dump)
    records in an execution of the lock layer. -/
def emitStuck (cmds : List Cmd) (s : LState) : LStep → Option Ev
  | .look c => if wedgedFor cmds s c then some (.stuck c) else none
  | _ => none

def stuckTrace (cfg : LockCfg) (cmds : List Cmd) (qof : Nat → Nat) : LState → List LStep → List Ev
  | _, [] => []
  | s, st :: rest => (emitStuck cmds s st).toList ++ stuckTrace cfg cmds qof (lstep cfg cmds qof s st) rest

/-- Every command of the scenario (all are enqueued and awaited by the harness)
    completed exactly once. -/
def onceOk (n : Nat) (evs : List Ev) : Bool :=
  (List.range n).all (fun c => (evs.filter (isDone c)).length == 1)

/-- Results read again at the very end (after late / duplicate / foreign
    replies) are what was delivered. -/
def finalOk (evs : List Ev) (final : List (Nat × Result)) : Bool :=
  final.all (fun (c, res) => evs.contains (.done c res))

/-- Spec.C12 on one observed scenario (`qs` = the queue each command was enqueued
    on). Vacuous outside the property's domain (ids and per-command targets
    distinct). Every command of a scenario is enqueued and its caller listens
    sooner or later: `onceOk` demands exactly one answer for each, `handoverOk`
    that the queue waited for the caller meanwhile, `neverStuck` that no command was
    found wedged behind the servent mutex (a scenario in which that is proven ends
    there, so `onceOk` fails with it: the command never completes although its
    caller listens). -/
def Spec (cmds : List Cmd) (qs : List Nat) (evs : List Ev) (final : List (Nat × Result)) : Bool :=
  !wfCfg cmds || (onceOk cmds.length evs && sendsOk cmds evs && donesOk cmds [] evs && finalOk evs final &&
    handoverOk qs evs && neverStuck evs)

end CmdQueue
