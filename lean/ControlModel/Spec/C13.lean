/-
  Spec/C13 — what the property demands of one CONFIGURE, as decidable predicates
  over (the launched tasks, the channel entries each executor was sent | the error).

  "every outbound channel whose target names another role's channel (or a global
   alias) is given the address at which that inbound channel was actually bound —
   the host of the task that binds it and the port or IPC path allocated to it —
   together with the inbound side's transport, and every inbound channel is told
   to bind exactly that endpoint. An explicit tcp:// or ipc:// target is passed
   through unchanged, a target that matches nothing fails the configuration, and
   two different endpoints claiming the same global alias are rejected."
  — and all of it whatever else the task template declares in its `properties:` block
  (section "the whole property map": `SpecPW`, the predicate the Driver evaluates).
-/
import ControlModel.Model.Channels

namespace Channels

/-- The bind-map key under which task `b` advertises entry `kv` of its local bind map. -/
def advKey (b : Task) (kv : String × Endpoint) : String := (claimOf b.path b.host kv).key

/-- `kv` (an entry of `b`'s local bind map) is the endpoint of inbound channel `c`
    of `b`, under the channel's own name or under its global alias. -/
def entryOf (kv : String × Endpoint) (c : Inbound) : Prop :=
  kv.1 = c.name ∨ (c.global.isEmpty = false ∧ kv.1 = aliasKey c.global)

instance (kv : String × Endpoint) (c : Inbound) : Decidable (entryOf kv c) := by
  unfold entryOf; exact inferInstance

/-- The endpoint an outbound channel `o` of `p.1` was sent is the one of a binder
    `q.1`: right key, address = binder's host + allocated port / IPC path,
    transport = the inbound side's; and the inbound channel `c` behind that entry
    was told to bind exactly that endpoint. `needEmptyTarget = true` gives the
    weaker clause that holds of the code (see C13_matched_partial): the last
    conjunct only for inbound channels declared without a `target`. -/
def matchedVia (needEmptyTarget : Bool) (p q : Task × Props) (o : Outbound) (kv : String × Endpoint) : Prop :=
  advKey q.1 kv = o.target ∧
  Assoc.get p.2 o.name = some ⟨.connect, (kv.2.toTarget q.1.host).address, kv.2.transport⟩ ∧
  ∃ c ∈ q.1.inbound, entryOf kv c ∧ c.transport = kv.2.transport ∧ Assoc.get q.1.loc c.name = some kv.2 ∧
    ((needEmptyTarget = true → c.target.isEmpty = true) →
      Assoc.get q.2 c.name = some ⟨.bind, kv.2.toBound.address, kv.2.transport⟩)

instance (w : Bool) (p q : Task × Props) (o : Outbound) (kv : String × Endpoint) : Decidable (matchedVia w p q o kv) := by
  unfold matchedVia; exact inferInstance

/-- Clause 1: every non-explicit outbound channel is wired to a binder. -/
def Matched (needEmptyTarget : Bool) (tasks : List Task) (res : List Props) : Prop :=
  ∀ p ∈ tasks.zip res, ∀ o ∈ p.1.outbound, explicit o.target = false →
    ∃ q ∈ tasks.zip res, ∃ kv ∈ q.1.loc, matchedVia needEmptyTarget p q o kv

instance (w : Bool) (tasks : List Task) (res : List Props) : Decidable (Matched w tasks res) := by
  unfold Matched; exact inferInstance

/-- Clause 2: explicit targets (either direction) are passed through unchanged. -/
def Passthrough (tasks : List Task) (res : List Props) : Prop :=
  ∀ p ∈ tasks.zip res,
    (∀ o ∈ p.1.outbound, explicit o.target = true →
      Assoc.get p.2 o.name = some ⟨.connect, o.target, o.transport⟩) ∧
    (∀ c ∈ p.1.inbound, explicit c.target = true →
      Assoc.get p.2 c.name = some ⟨.bind, c.target, c.transport⟩)

instance (tasks : List Task) (res : List Props) : Decidable (Passthrough tasks res) := by
  unfold Passthrough; exact inferInstance

/-- Some outbound channel names a key that no task advertises. -/
def Unmatched (tasks : List Task) : Prop :=
  ∃ t ∈ tasks, ∃ o ∈ t.outbound, explicit o.target = false ∧
    ∀ b ∈ tasks, ∀ kv ∈ b.loc, advKey b kv ≠ o.target

instance (tasks : List Task) : Decidable (Unmatched tasks) := by
  unfold Unmatched; exact inferInstance

/-- Two claims on one global alias with different (target-form) endpoints,
    in a list of claims (order irrelevant: the relation is symmetric). -/
def clash : List Claim → Bool
  | [] => false
  | c :: cs => (c.alias && cs.any fun d => d.alias && d.key == c.key && decide (d.target ≠ c.target)) || clash cs

/-- One global alias is claimed more than once. -/
def shared : List Claim → Bool
  | [] => false
  | c :: cs => (c.alias && cs.any fun d => d.alias && d.key == c.key) || shared cs

/-- Alias claims as DECLARED: every inbound channel with a `global` claims that
    alias for the endpoint allocated to it. -/
def declClaims (t : Task) : List Claim :=
  t.inbound.filterMap fun c =>
    if c.global.isEmpty then none
    else (Assoc.get t.loc c.name).map fun e =>
      { key := aliasKey c.global, alias := true, raw := e, host := t.host }

def allDeclClaims : List Task → List Claim
  | [] => []
  | t :: ts => declClaims t ++ allDeclClaims ts

/-- Two inbound channels of ONE task (different names) name the same global alias. Each gets an
    endpoint of its own at launch (distinct ports / fresh IPC paths), so two different endpoints
    claim the alias — whatever the task's local bind map kept of it. -/
def AliasTwice (t : Task) : Prop :=
  ∃ c ∈ t.inbound, ∃ d ∈ t.inbound, c.global.isEmpty = false ∧ c.global = d.global ∧ c.name ≠ d.name

instance (t : Task) : Decidable (AliasTwice t) := by
  unfold AliasTwice; exact inferInstance

/-- Spec of one CONFIGURE outcome. `SpecW false false` is the full-strength
    property; the two flags select weakenings:
    `emptyTarget` — the bind clause only for inbound channels without a target
                    (what holds of the code: finding inbound_target_still_advertised);
    `locAliases`  — alias claims as they appear in the local bind maps (one per
                    task and alias) instead of as declared (one per channel): all
                    that held of the code before configureTasks checked the
                    declarations of each task (`legacyCfg`); the code as it is meets
                    the clause as declared.
    A rejection is justified by an alias that is claimed more than once — by the
    local bind maps of two tasks, or by two channels of one task. -/
def SpecW (emptyTarget locAliases : Bool) (tasks : List Task) : Except Err (List Props) → Prop
  | .ok res => res.length = tasks.length ∧ Matched emptyTarget tasks res ∧ Passthrough tasks res ∧
      ¬ Unmatched tasks ∧ clash (if locAliases then claims tasks else allDeclClaims tasks) = false
  | .error .unmatched => Unmatched tasks
  | .error .aliasConflict => shared (claims tasks) = true ∨ ∃ t ∈ tasks, AliasTwice t

instance (a b : Bool) (tasks : List Task) (r : Except Err (List Props)) : Decidable (SpecW a b tasks r) := by
  unfold SpecW; split <;> exact inferInstance

/-- Full-strength Spec. -/
abbrev Spec (tasks : List Task) (r : Except Err (List Props)) : Prop := SpecW false false tasks r

/-! ## well-formedness (hypotheses of the theorems) -/

/-- A usable hostname (Mesos never offers an empty one; `*` is the bind wildcard). -/
def validHost (h : String) : Bool := !h.isEmpty && h != "*"

/-- Postcondition of the launch (makeTaskForMesosResources) for one task: every
    inbound channel has a local endpoint of the kind allocated for it, every
    key of the local bind map is an inbound channel's name or alias carrying that
    channel's endpoint, and every declared alias has an entry. -/
def launchOk (t : Task) : Bool :=
  t.inbound.all (fun c => match Assoc.get t.loc c.name with
    | some e => freshFor c e
    | none => false) &&
  t.loc.all (fun kv => t.inbound.any fun c =>
    decide (entryOf kv c) && decide (Assoc.get t.loc c.name = some kv.2)) &&
  -- every declared alias has an entry (the loop writes `bindMap["::"+ch.Global]` for every channel)
  t.inbound.all (fun c => c.global.isEmpty || (Assoc.get t.loc (aliasKey c.global)).isSome) &&
  -- the keys can be told apart: no channel is NAMED like an alias key (configureTasks would take
  -- the entry of such a channel for an alias)
  t.inbound.all (fun c => !isAlias c.name)

/-- Channel names are unique within a task (bind and connect together). -/
def namesDistinct (t : Task) : Prop :=
  (t.inbound.map Inbound.name ++ t.outbound.map Outbound.name).Nodup

instance (t : Task) : Decidable (namesDistinct t) := by
  unfold namesDistinct; exact inferInstance

/-- Keys of per-channel (non-alias) claims never look like a global alias. -/
def keysSane (cs : List Claim) : Bool :=
  cs.all fun c => c.alias || !isAlias c.key

/-- Excluded hypothesis of `C13_matched_partial` (finding `inbound_target_still_advertised`):
    no inbound channel carries a `target`. -/
def noInboundTarget (tasks : List Task) : Bool :=
  tasks.all fun t => t.inbound.all fun c => c.target.isEmpty

/-- Hypothesis of `C13_alias_declared_partial` (finding `alias_redefined_within_task`,
    fixed): every declared alias is advertised with the declaring channel's own
    endpoint (fails when two channels of one task name the same alias: the launch
    keeps the last one — such a task is now rejected by configureTasks; for every
    other task the launch postcondition implies it, `advertised_of_not_twice`). -/
def aliasesAdvertised (t : Task) : Prop :=
  ∀ c ∈ t.inbound, c.global.isEmpty = false →
    ∀ e, Assoc.get t.loc c.name = some e → ∃ kv ∈ t.loc, kv.1 = aliasKey c.global ∧ kv.2 = e

instance (t : Task) : Decidable (aliasesAdvertised t) := by
  unfold aliasesAdvertised
  exact List.decidableBAll _ _

def WF (tasks : List Task) : Prop :=
  (∀ t ∈ tasks, launchOk t = true ∧ validHost t.host = true ∧ namesDistinct t) ∧
  keysSane (claims tasks) = true

instance (tasks : List Task) : Decidable (WF tasks) := by
  unfold WF; exact inferInstance

/-- First declaration with a given name. -/
def findName {α} (name : α → String) (n : String) (l : List α) : Option α := l.find? fun c => name c == n


/-! ## the whole property map: "…whatever else the template declares"

  The executor receives ONE map: the common properties, the `properties:` block of the task
  template and the generated channel keys. The clauses above are evaluated on what that map says
  about each declared channel (`view`: `chans.<n>.0.{method,address,transport}` read back), so a
  declared property that takes the place of a generated key is seen as what it is — the channel
  is told to bind / connect there. `Delivered` adds what the property promises about the rest:
  every other generated key of a configured channel carries the channel's own declaration, and
  every declared property that is not a key of one of the task's channels arrives unchanged. -/

def Method.parse? : String → Option Method
  | "bind" => some .bind | "connect" => some .connect | _ => none

/-- What a property map tells the executor about channel `n`. -/
def readEntry (pm : PMap) (n : String) : Option Entry :=
  match Assoc.get pm (.chan n .method), Assoc.get pm (.chan n .address), Assoc.get pm (.chan n .transport) with
  | some m, some a, some tr =>
      match Method.parse? m, Transport.parse? tr with
      | some m, some tr => some ⟨m, a, tr⟩
      | _, _ => none
  | _, _, _ => none

/-- Names of the channels a task declares (bind, then connect). -/
def chanNames (t : Task) : List String := t.inbound.map Inbound.name ++ t.outbound.map Outbound.name

/-- The channel entries of a task as its property map has them. -/
def view (t : Task) (pm : PMap) : Props :=
  (chanNames t).filterMap fun n => (readEntry pm n).map fun e => (n, e)

def viewAll (tasks : List Task) (pms : List PMap) : List Props := List.zipWith view tasks pms

/-- `k` is a key of one of the task's own channels (`chans.<n>.…` for a declared channel `n`). -/
def ownsKey (t : Task) : Key → Bool
  | .chan n _ => (chanNames t).contains n
  | .sockets n => (chanNames t).contains n
  | .other _ => false

/-- The generated keys of channel `n` other than method / address / transport carry the channel's
    own declaration (`meth` selects `autoBind`, written for inbound channels only). -/
def miscOk (pm : PMap) (n : String) (meth : Method) (m : Misc) : Prop :=
  Assoc.get pm (.sockets n) = some "1" ∧
  ∀ f ∈ fieldsOf meth, f ≠ .address → f ≠ .transport →
    Assoc.get pm (.chan n f) = some (fieldVal m ⟨meth, "", .default⟩ f)

instance (pm : PMap) (n : String) (meth : Method) (m : Misc) : Decidable (miscOk pm n meth m) := by
  unfold miscOk; exact inferInstance

/-- An inbound channel that `Inbound.ToFMQMap` configures: no target, or an explicit one (a target
    that is neither is dropped from the configuration — part of the recorded finding). -/
def configurable (c : Inbound) : Bool := c.target.isEmpty || explicit c.target

/-- Clause 5: the rest of the map. -/
def Delivered (tasks : List Task) (pms : List PMap) : Prop :=
  ∀ p ∈ tasks.zip pms,
    (∀ c ∈ p.1.inbound, configurable c = true → miscOk p.2 c.name .bind c.misc) ∧
    (∀ o ∈ p.1.outbound, miscOk p.2 o.name .connect o.misc) ∧
    (∀ kv ∈ p.1.props, ownsKey p.1 kv.1 = false → Assoc.get p.2 kv.1 = some kv.2)

instance (tasks : List Task) (pms : List PMap) : Decidable (Delivered tasks pms) := by
  unfold Delivered; exact inferInstance

/-- Spec of one CONFIGURE outcome given as the whole property map of every task. -/
def SpecPW (emptyTarget locAliases : Bool) (tasks : List Task) : Except Err (List PMap) → Prop
  | .ok pms => pms.length = tasks.length ∧ SpecW emptyTarget locAliases tasks (.ok (viewAll tasks pms)) ∧
      Delivered tasks pms
  | .error e => SpecW emptyTarget locAliases tasks (.error e)

instance (a b : Bool) (tasks : List Task) (r : Except Err (List PMap)) : Decidable (SpecPW a b tasks r) := by
  unfold SpecPW; split <;> exact inferInstance

abbrev SpecP (tasks : List Task) (r : Except Err (List PMap)) : Prop := SpecPW false false tasks r

/-- Keys of a `properties:` block are distinct (a YAML mapping). -/
def propsDistinct (t : Task) : Prop := (t.props.map (·.1)).Nodup

instance (t : Task) : Decidable (propsDistinct t) := by
  unfold propsDistinct; exact inferInstance

def WFP (tasks : List Task) : Prop := WF tasks ∧ ∀ t ∈ tasks, propsDistinct t

instance (tasks : List Task) : Decidable (WFP tasks) := by
  unfold WFP; exact inferInstance

/-! ## workflows with iterators: the Spec is evaluated against the template AS WRITTEN

  "every outbound channel whose target names another role's channel …": in a
  workflow template the target is an EXPRESSION (`{{ Parent().Path }}.sink:data`,
  `host-{{ it }}.sink:data`, `::g-{{ it }}`); an iterator generates one role per
  value of its range, and the channel a generated role NAMES is the expression
  instantiated with THAT role's variables and position. So the tasks the Spec
  speaks about carry, for every generated role, the template's declarations
  instantiated per instance — whatever the loader left in its role objects. -/

/-- The declarations in force for every task role the template generates, in tree order. -/
def templateDecls (root : TForest) : List TaskDecl := flatten "" [] [] (expand Ctx.top root)

/-- What the loaded workflow hands to the task manager for one task role
    (`Descriptor.RoleBind` / `RoleConnect` = `Collect{In,Out}boundChannels()`). -/
structure SeenDecl where
  path : String
  bind : List Inbound
  connect : List Outbound
  deriving DecidableEq, Repr, Inhabited

def TaskDecl.seen (d : TaskDecl) : SeenDecl := { path := d.path, bind := d.roleBind, connect := d.roleConnect }

/-- Every generated role ended up with the text of ITS OWN instantiation
    (resolved target and alias text, per generated role). -/
def ResolvedAsWritten (root : TForest) (seen : List SeenDecl) : Prop :=
  seen = (templateDecls root).map TaskDecl.seen

instance (root : TForest) (seen : List SeenDecl) : Decidable (ResolvedAsWritten root seen) := by
  unfold ResolvedAsWritten; exact inferInstance

/-- The tasks of a template whose generated task roles were launched at `launch`
    (role path, host, local bind map — one per generated task role, tree order). -/
def templateTasks (classes : List (String × Class)) (root : TForest) (launch : List (String × String × BindMap)) : List Task :=
  ((templateDecls root).zip launch).map fun (d, l) => mkTask classes d l.1 l.2.1 l.2.2

/-- Spec of one load + CONFIGURE of a workflow template. -/
def SpecTW (a b : Bool) (classes : List (String × Class)) (root : TForest) (launch : List (String × String × BindMap))
    (seen : List SeenDecl) (r : Except Err (List Props)) : Prop :=
  ResolvedAsWritten root seen ∧ SpecW a b (templateTasks classes root launch) r

instance (a b : Bool) (classes : List (String × Class)) (root : TForest) (launch : List (String × String × BindMap))
    (seen : List SeenDecl) (r : Except Err (List Props)) : Decidable (SpecTW a b classes root launch seen r) := by
  unfold SpecTW; exact inferInstance

abbrev SpecT := SpecTW false false

/-- The same over the whole property maps. -/
def SpecTPW (a b : Bool) (classes : List (String × Class)) (root : TForest) (launch : List (String × String × BindMap))
    (seen : List SeenDecl) (r : Except Err (List PMap)) : Prop :=
  ResolvedAsWritten root seen ∧ SpecPW a b (templateTasks classes root launch) r

instance (a b : Bool) (classes : List (String × Class)) (root : TForest) (launch : List (String × String × BindMap))
    (seen : List SeenDecl) (r : Except Err (List PMap)) : Decidable (SpecTPW a b classes root launch seen r) := by
  unfold SpecTPW; exact inferInstance

abbrev SpecTP := SpecTPW false false


end Channels
