/-
  Spec/C14 — "Variables resolve by documented precedence at every role".

  The property, as a decidable predicate on what was observed at one role:
  every value is the one from the highest-ranking source that defines the key
  — user-supplied over vars over defaults, within one kind the nearest level
  first, the environment-wide maps being the outermost level; an empty value
  is a definition; a template stage applies the same rule to the sources it
  can see; a task template's own defaults and vars rank below everything from
  the workflow. Stated with `firstDefined` over explicit ranked source lists —
  no flattening, no merging. After load, variables written at run time
  (SetRuntimeVar & co.) are user vars of the role they were written on: they are
  visible exactly in that role's subtree (`writesOk`). What the ENVIRONMENT publishes
  on its own transitions obeys the same rule with a documented kind per key
  (`docKind`): values copied from the configuration store are VARS of the root
  role, so a value the user supplied for the same key keeps winning at every role at
  every moment (`envOk`). A workflow TEMPLATE is read as follows (`loadedOk`): an iterator
  yields one sibling per value, and the iteration variable is a VAR of that sibling — the
  nearest vars-kind definition for the instance and everything below it; an include role is
  the root of the included workflow under the include role's name, and what was written at the
  include site (its own defaults / vars, and the iteration variable when the include role is an
  iterator's template) is the next level up: nearer than everything above the include role,
  farther than the included workflow's own definitions.
-/
import ControlModel.Model.Vars
import ControlModel.Model.VarsTree
import ControlModel.Model.VarsEnv

namespace Vars

/-- Rank order inside a task template as documented for every `defaults`/`vars`
    pair ("values in vars override any defaults with the same key"): workflow
    sources, then the template's vars, then the template's defaults. Demanded
    for the command line and for the properties alike. -/
def rankedTask (p : Path) (td tv : KV) : List KV := ranked p ++ [tv, td]

/-- What BuildTaskCommand did for the command line before the repair (finding
    `task_template_defaults_over_vars`, `legacyCfg`): the template's defaults BEFORE its vars. -/
def rankedCmdLegacy (p : Path) (td tv : KV) : List KV := ranked p ++ [td, tv]

/-- What the documented rule demands to be observed at a role. -/
def expected (keys : List String) (r : RoleIn) : RoleObs :=
  let p := r.path
  { stack := tabulate keys (firstDefined (ranked p))
    fstack := tabulate keys (firstDefined (ranked p))
    maps := [tabulate keys (firstDefined (dChain p)), tabulate keys (firstDefined (vChain p)),
             tabulate keys (firstDefined (uChain p))]
    gets := [tabulate keys (firstDefined (dChain p)), tabulate keys (firstDefined (vChain p)),
             tabulate keys (firstDefined (uChain p))]
    stages := (List.range 6).map fun s => tabulate keys (firstDefined (rankedAt r.locals p s))
    task := r.tmpl.map fun (td, tv) =>
      (tabulate keys (firstDefined (rankedTask p td tv)), tabulate keys (firstDefined (rankedTask p td tv))) }

/-- Spec on one role: the observation is what the rule demands. -/
def roleOk (keys : List String) (r : RoleIn) (obs : RoleObs) : Bool := decide (obs = expected keys r)

/-- Spec on a whole case (roles in pre-order). -/
def caseOk (keys : List String) : List RoleIn → List RoleObs → Bool
  | [], [] => true
  | r :: rs, o :: os => roleOk keys r o && caseOk keys rs os
  | _, _ => false

/-- Hypothesis of `C14_model_meets_spec_partial` (finding `task_template_defaults_over_vars`,
    repaired: needed only for `legacyCfg`, the code as it was; `C14_model_meets_spec_code` does
    without it): at this role the relative order of the
    task template's defaults and vars cannot matter — for every key the workflow
    defines it, or at most one of the two template maps does, or both agree. -/
def tmplOrderIrrelevant (keys : List String) (r : RoleIn) : Bool :=
  match r.tmpl with
  | none => true
  | some (td, tv) => keys.all fun k =>
      (get (ranked r.path) k).isSome || (lookup td k).isNone || (lookup tv k).isNone || lookup td k == lookup tv k

/-- Spec on a LOADED tree after a history of runtime writes (roles in pre-order):
    every role shows what the rule demands of its own chain — itself, its
    ancestors, the environment — where a write counts exactly at the role it was
    made on and below it, as a user var of that role (`rolesReplayed`). A value
    written on a role that is neither `s` nor an ancestor of `s` must not exist for `s`. -/
def writesOk (keys : List String) (t : Forest) (ws : List Write) (env : Path) (tmpl : Option (KV × KV))
    (obs : List RoleObs) : Bool :=
  caseOk keys (rolesReplayed t ws env tmpl) obs

/-- Spec on a workflow TEMPLATE (iterators, include roles) after its load and a history of runtime
    writes: the reading of the template is `expand` — one sibling per range value with the iteration
    variable among the sibling's own vars (`withIter`; for an include role: among the vars of the
    include SITE, the level right above the included root), include sites being levels, not roles —
    and on the loaded tree the rule of `writesOk`. Nothing of the load's mechanism (`load`, `LoadCfg`:
    Locals, the moment they are published, the replacement of the role's maps) enters here. -/
def loadedOk (keys : List String) (tf : TForest) (ws : List Write) (env : Path) (tmpl : Option (KV × KV))
    (obs : List RoleObs) : Bool :=
  writesOk keys (expand tf) ws env tmpl obs

/-! ## what the environment itself writes -/

/-- The documented kind of every key the environment publishes. Generated at run time and meant to
    override whatever is there (state entry time, the four run time stamps, the result of a task, who asked
    last, the environment's id): user kind. The run number, the last run number, the FairMQ cleanup counter
    and every COPY OF A CONFIGURATION-STORE VALUE (lhc_period, pdp_n_hbf_per_tf): vars — they must stay
    below anything the user supplied. `detectors`: a default. -/
def docKind : String → Option MapKind
  | "run_number" => some .vars
  | "runNumber" => some .vars
  | "last_run_number" => some .vars
  | "lhc_period" => some .vars
  | "pdp_n_hbf_per_tf" => some .vars
  | "__fmq_cleanup_count" => some .vars
  | "detectors" => some .defaults
  | "enter_state_time_ms" => some .user
  | "run_start_time_ms" => some .user
  | "run_start_completion_time_ms" => some .user
  | "run_end_time_ms" => some .user
  | "run_end_completion_time_ms" => some .user
  | "last_request_user" => some .user
  | "environment_id" => some .user
  | "taskResult.exitCode" => some .user
  | "taskResult.stdout" => some .user
  | "taskResult.stderr" => some .user
  | "taskResult.finalStatus" => some .user
  | "taskResult.timestamp" => some .user
  | _ => none

/-- The user-kind keys among those the environment writes on the root role or on itself: the run-time
    values that by design replace what was there. For every OTHER key a transition of the environment must
    leave the user-var hierarchy of every role alone. -/
def runtimeUserKeys : List String :=
  ["enter_state_time_ms", "run_start_time_ms", "run_start_completion_time_ms", "run_end_time_ms",
   "run_end_completion_time_ms", "last_request_user", "environment_id"]

/-- The environment's writes as DOCUMENTED: the same rows (where, when, which key, which value), each
    on the kind of map `docKind` names for its key. -/
def docTable : List EnvWrite :=
  envWriteTable.map fun w => match docKind w.key with
    | some k => { w with kind := k }
    | none => w

/-- One moment of an environment's life as the harness records it. -/
structure SnapObs where
  state : String
  res : String
  roles : List RoleObs
  deriving Repr, Inhabited, DecidableEq

/-- At every moment every role shows what the precedence rule demands of its chain — the role, its
    ancestors up to the root, the environment-wide maps — where the environment's own writes are
    writes of the documented kind. -/
def snapsOk (keys : List String) (tmpl : Option (KV × KV)) : List (EnvSt × String) → List SnapObs → Bool
  | [], [] => true
  | (s, _) :: ss, o :: os => caseOk keys (s.roles tmpl) o.roles && snapsOk keys tmpl ss os
  | _, _ => false

def Item.key? : Item → Option String
  | .write w => some w.op.key
  | .trans _ _ => none

/-- Keys the user supplied at creation that are neither run-time values of the environment nor written by
    a role / call / plugin during the run: nothing that happens may change what they resolve to. -/
def stableKeys (u : KV) (items : List Item) : List String :=
  (u.map (·.1)).filter fun k => !runtimeUserKeys.contains k && !(items.any fun i => i.key? == some k)

def sameAt (k : String) : List RoleObs → List RoleObs → Bool
  | [], [] => true
  | a :: as, b :: bs => (lookup a.stack k == lookup b.stack k) && (lookup a.stack k).isSome && sameAt k as bs
  | _, _ => false

/-- A USER-SUPPLIED VALUE IS NEVER DISPLACED BY THE ENVIRONMENT: at every role, at every moment, such a
    key resolves to what it resolved to right after the load (a user-kind value, by the rule). -/
def userStable (u : KV) (items : List Item) : List SnapObs → Bool
  | [] => true
  | o0 :: os => (stableKeys u items).all fun k => (o0 :: os).all fun o => sameAt k o0.roles o.roles

/-- Spec on a whole run of an environment. -/
def envOk (keys : List String) (sd sv u : KV) (t : Forest) (items : List Item) (tmpl : Option (KV × KV))
    (obs : List SnapObs) : Bool :=
  snapsOk keys tmpl (snapshots docTable sd sv u t items) obs && userStable u items obs

/-- The probed keys stay clear of the six task-special names. -/
def keysClear (keys : List String) : Bool := keys.all fun k => !specialKeys.contains k

end Vars
