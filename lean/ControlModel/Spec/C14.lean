/-
  Spec/C14 — "Variables resolve by documented precedence at every role".

  The property, as a decidable predicate on what was observed at one role:
  every value is the one from the highest-ranking source that defines the key
  — user-supplied over vars over defaults, within one kind the nearest level
  first, the environment-wide maps being the outermost level; an empty value
  is a definition; a template stage applies the same rule to the sources it
  can see; a task template's own defaults and vars rank below everything from
  the workflow. Stated with `firstDefined` over explicit ranked source lists —
  no flattening, no merging. After load, variables written at run time
  (SetRuntimeVar & co.) are user vars of the role they were written on: they are
  visible exactly in that role's subtree (`writesOk`).
-/
import ControlModel.Model.Vars
import ControlModel.Model.VarsTree

namespace Vars

/-- Rank order inside a task template as documented for every `defaults`/`vars`
    pair ("values in vars override any defaults with the same key"): workflow
    sources, then the template's vars, then the template's defaults. Demanded
    for the command line and for the properties alike. -/
def rankedTask (p : Path) (td tv : KV) : List KV := ranked p ++ [tv, td]

/-- What BuildTaskCommand did for the command line before the repair (finding
    `task_template_defaults_over_vars`, `legacyCfg`): the template's defaults BEFORE its vars. -/
def rankedCmdLegacy (p : Path) (td tv : KV) : List KV := ranked p ++ [td, tv]

/-- What the documented rule demands to be observed at a role. -/
def expected (keys : List String) (r : RoleIn) : RoleObs :=
  let p := r.path
  { stack := tabulate keys (firstDefined (ranked p))
    fstack := tabulate keys (firstDefined (ranked p))
    maps := [tabulate keys (firstDefined (dChain p)), tabulate keys (firstDefined (vChain p)),
             tabulate keys (firstDefined (uChain p))]
    gets := [tabulate keys (firstDefined (dChain p)), tabulate keys (firstDefined (vChain p)),
             tabulate keys (firstDefined (uChain p))]
    stages := (List.range 6).map fun s => tabulate keys (firstDefined (rankedAt r.locals p s))
    task := r.tmpl.map fun (td, tv) =>
      (tabulate keys (firstDefined (rankedTask p td tv)), tabulate keys (firstDefined (rankedTask p td tv))) }

/-- Spec on one role: the observation is what the rule demands. -/
def roleOk (keys : List String) (r : RoleIn) (obs : RoleObs) : Bool := decide (obs = expected keys r)

/-- Spec on a whole case (roles in pre-order). -/
def caseOk (keys : List String) : List RoleIn → List RoleObs → Bool
  | [], [] => true
  | r :: rs, o :: os => roleOk keys r o && caseOk keys rs os
  | _, _ => false

/-- Hypothesis of `C14_model_meets_spec_partial` (finding `task_template_defaults_over_vars`,
    repaired: needed only for `legacyCfg`, the code as it was; `C14_model_meets_spec_code` does
    without it): at this role the relative order of the
    task template's defaults and vars cannot matter — for every key the workflow
    defines it, or at most one of the two template maps does, or both agree. -/
def tmplOrderIrrelevant (keys : List String) (r : RoleIn) : Bool :=
  match r.tmpl with
  | none => true
  | some (td, tv) => keys.all fun k =>
      (get (ranked r.path) k).isSome || (lookup td k).isNone || (lookup tv k).isNone || lookup td k == lookup tv k

/-- Spec on a LOADED tree after a history of runtime writes (roles in pre-order):
    every role shows what the rule demands of its own chain — itself, its
    ancestors, the environment — where a write counts exactly at the role it was
    made on and below it, as a user var of that role (`rolesReplayed`). A value
    written on a role that is neither `s` nor an ancestor of `s` must not exist for `s`. -/
def writesOk (keys : List String) (t : Forest) (ws : List Write) (env : Path) (tmpl : Option (KV × KV))
    (obs : List RoleObs) : Bool :=
  caseOk keys (rolesReplayed t ws env tmpl) obs

/-- The probed keys stay clear of the six task-special names. -/
def keysClear (keys : List String) : Bool := keys.all fun k => !specialKeys.contains k

end Vars
