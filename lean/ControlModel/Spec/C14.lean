/-
  Spec/C14 — "Variables resolve by documented precedence at every role".

  The property, as a decidable predicate on what was observed at one role:
  every value is the one from the highest-ranking source that defines the key
  — user-supplied over vars over defaults, within one kind the nearest level
  first, the environment-wide maps being the outermost level; an empty value
  is a definition; a template stage applies the same rule to the sources it
  can see; a task template's own defaults and vars rank below everything from
  the workflow. Stated with `firstDefined` over explicit ranked source lists —
  no flattening, no merging.
-/
import ControlModel.Model.Vars

namespace Vars

/-- Rank order for the command line of a task: workflow sources, then the
    template's defaults, then the template's vars (BuildTaskCommand wraps in
    that order). -/
def rankedCmd (p : Path) (td tv : KV) : List KV := ranked p ++ [td, tv]

/-- Rank order for the properties of a task: workflow sources, then the
    template's vars, then the template's defaults (BuildPropertyMap). -/
def rankedProp (p : Path) (td tv : KV) : List KV := ranked p ++ [tv, td]

/-- What the documented rule demands to be observed at a role. -/
def expected (keys : List String) (r : RoleIn) : RoleObs :=
  let p := r.path
  { stack := tabulate keys (firstDefined (ranked p))
    fstack := tabulate keys (firstDefined (ranked p))
    maps := [tabulate keys (firstDefined (dChain p)), tabulate keys (firstDefined (vChain p)),
             tabulate keys (firstDefined (uChain p))]
    gets := [tabulate keys (firstDefined (dChain p)), tabulate keys (firstDefined (vChain p)),
             tabulate keys (firstDefined (uChain p))]
    stages := (List.range 6).map fun s => tabulate keys (firstDefined (rankedAt r.locals p s))
    task := r.tmpl.map fun (td, tv) =>
      (tabulate keys (firstDefined (rankedCmd p td tv)), tabulate keys (firstDefined (rankedProp p td tv))) }

/-- Spec on one role: the observation is what the rule demands. -/
def roleOk (keys : List String) (r : RoleIn) (obs : RoleObs) : Bool := decide (obs = expected keys r)

/-- Spec on a whole case (roles in pre-order). -/
def caseOk (keys : List String) : List RoleIn → List RoleObs → Bool
  | [], [] => true
  | r :: rs, o :: os => roleOk keys r o && caseOk keys rs os
  | _, _ => false

/-- The probed keys stay clear of the six task-special names. -/
def keysClear (keys : List String) : Bool := keys.all fun k => !specialKeys.contains k

end Vars
