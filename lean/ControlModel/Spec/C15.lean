/-
  Spec/C15 — what the property demands of a loaded workflow, as computable definitions.

  `ideal` is the loader the property text describes, written without reference to the
  data structures of the code: a role whose `enabled` evaluates to something that is not
  true/1 is absent with its whole subtree; an aggregator left without roles is absent; an
  iterator contributes, per element of its range and in range order, what its template
  yields with the iteration variable bound; ANY template error — including one in an
  `enabled` expression — fails the load. The result contains no iterator nodes
  (`aggregator.GetRoles()` makes them transparent). An include role is the root of the workflow
  document its `include:` expression names, under the include role's own name: that root's
  `enabled` / variables / children are read in the stack of the include role as written — in
  which an iteration variable the include role was generated with IS BOUND (`inclHdrP true`), so
  every role of the included sub-workflow sees the element of ITS iteration —; an include role
  that is disabled, or whose root is disabled or left empty, is absent; an unknown document, an
  error in the include role's own fields or anywhere in the included tree fails the load.

  `Spec` compares what an implementation returned with `idealLoad`.
-/
import ControlModel.Model.Load

namespace Load

structure IOut where
  err : Bool := false
  f : Tree := .nil
  deriving Repr, DecidableEq, Inhabited

def IOut.seq (a b : IOut) : IOut := ⟨a.err || b.err, a.f ++ b.f⟩

def idealLeaf (mk : Info → List String → Tree) : HdrRes → IOut
  | .error => ⟨true, .nil⟩
  | .masked => ⟨true, .nil⟩
  | .disabled => {}
  | .ok i _ ex => ⟨false, mk i ex⟩

def idealAgg (i : Info) (k : IOut) : IOut :=
  match k.f with
  | .nil => ⟨k.err, .nil⟩
  | kf => ⟨k.err, .agg i kf .nil⟩

def ideal (ctx : Ctx) (loc : Env) : Tmpl → IOut
  | .nil => {}
  | .agg h kids next =>
    let me : IOut :=
      match procHdr ctx loc h [] with
      | .error => ⟨true, .nil⟩
      | .masked => ⟨true, .nil⟩
      | .disabled => {}
      | .ok i c' _ => idealAgg i (ideal c' [] kids)
    me.seq (ideal ctx loc next)
  | .task h extra crit next =>
    (idealLeaf (fun i ex => .task i (resolveExtra ex) crit .nil) (procHdr ctx loc h extra)).seq (ideal ctx loc next)
  | .call h extra crit next =>
    (idealLeaf (fun i ex => .call i ex crit .nil) (procHdr ctx loc h extra)).seq (ideal ctx loc next)
  | .iter rng var body next =>
    let me : IOut :=
      match evalRange ctx.lookRange rng with
      | none => ⟨true, .nil⟩
      | some vals => vals.foldr (fun v acc => (ideal ctx [(var, v)] body).seq acc) {}
    me.seq (ideal ctx loc next)
  | .incl h inc docs next =>
    let me : IOut :=
      match inclHdrP true ctx loc h inc docs with
      | .error => ⟨true, .nil⟩
      | .masked => ⟨true, .nil⟩
      | .disabled => {}
      | .ok _ cw _ => ideal cw [] docs
    me.seq (ideal ctx loc next)
  | .doc file h kids next =>
    let me : IOut :=
      match docHdr ctx file h with
      | .error => ⟨true, .nil⟩
      | .masked => ⟨true, .nil⟩
      | .disabled => {}
      | .ok i c' _ => idealAgg i (ideal c' [] kids)
    me.seq (ideal ctx loc next)

def IOut.loaded (o : IOut) : Loaded :=
  if o.err then .error else
  match o.f with
  | .nil => .none
  | t => .tree t

def idealLoad (t : Tmpl) : Loaded := (ideal {} [] t).loaded

/-- The decidable predicate the theorems are about: the observed result of a load is
    what the property demands. -/
def Spec (t : Tmpl) (obs : Loaded) : Bool := obs == idealLoad t

/-! ## predicates on trees used in the theorems -/

/-- no iterator node anywhere -/
def noIter : Tree → Bool
  | .nil => true
  | .agg _ k n => noIter k && noIter n
  | .task _ _ _ n => noIter n
  | .call _ _ _ n => noIter n
  | .iter _ _ => false

/-- no aggregator without roles anywhere (in the tree as given) -/
def noEmptyAgg : Tree → Bool
  | .nil => true
  | .agg _ k n => !k.isNil && noEmptyAgg k && noEmptyAgg n
  | .task _ _ _ n => noEmptyAgg n
  | .call _ _ _ n => noEmptyAgg n
  | .iter k n => noEmptyAgg k && noEmptyAgg n

/-- every role in the tree carries a truthy `enabled` -/
def allEnabled : Tree → Bool
  | .nil => true
  | .agg i k n => truthy i.enabled && allEnabled k && allEnabled n
  | .task i _ _ n => truthy i.enabled && allEnabled n
  | .call i _ _ n => truthy i.enabled && allEnabled n
  | .iter k n => allEnabled k && allEnabled n

def Loaded.all (p : Tree → Bool) : Loaded → Bool
  | .tree t => p t
  | _ => true

/-- A syntactic condition under which (former) finding `iterator_enabled_expr` cannot strike, whatever the configuration: every
    iterator's template is one role whose `enabled` is plain text (no `{{ }}`). -/
def iterEnabledLiteral : Tmpl → Bool
  | .nil => true
  | .agg _ k n => iterEnabledLiteral k && iterEnabledLiteral n
  | .task _ _ _ n => iterEnabledLiteral n
  | .call _ _ _ n => iterEnabledLiteral n
  | .incl _ _ d n => iterEnabledLiteral d && iterEnabledLiteral n
  | .doc _ _ k n => iterEnabledLiteral k && iterEnabledLiteral n
  | .iter _ _ b n =>
    (match b with
     | .agg h _ .nil => isLiteral h.enabled
     | .task h _ _ .nil => isLiteral h.enabled
     | .call h _ _ .nil => isLiteral h.enabled
     | .incl h _ _ .nil => isLiteral h.enabled
     | _ => false) && iterEnabledLiteral b && iterEnabledLiteral n

/-- the iterator's template is exactly one role (as the YAML grammar guarantees) -/
def single : Tmpl → Bool
  | .agg _ _ .nil => true
  | .task _ _ _ .nil => true
  | .call _ _ _ .nil => true
  | _ => false

/-! ## nested iterators (an iterator inside the role template of another iterator) -/

/-- All task / call roles of a processed tree in document order (through aggregators and
    iterator nodes): what `LeafWalk` visits. -/
def Tree.leaves : Tree → List Info
  | .nil => []
  | .agg _ k n => leaves k ++ leaves n
  | .task i _ _ n => i :: leaves n
  | .call i _ _ n => i :: leaves n
  | .iter k n => leaves k ++ leaves n

/-- One level of a nest of iterators: `for var in rng` over an aggregator with header `hdr`
    (the YAML grammar puts a role between two iterators; an aggregator is the one that can
    hold the next iterator). -/
structure Level where
  rng : RangeT
  var : String
  hdr : Hdr
  deriving Repr, DecidableEq, Inhabited

/-- `nest [l₁, …, lₙ] inner`: iterator l₁ over aggregator l₁.hdr whose child is iterator l₂ over
    … over aggregator lₙ.hdr whose children are `inner` — nesting depth n, any n. -/
def nest : List Level → Tmpl → Tmpl
  | [], inner => inner
  | l :: ls, inner => .iter l.rng l.var (.agg l.hdr (nest ls inner) .nil) .nil

/-- What the property demands of a nest: the variable stacks under which the innermost
    roles are instantiated, in lexicographic range order. Level k's range is evaluated ONCE
    PER ROLE GENERATED AT LEVEL k-1, in THAT role's own flattened stack `c'` (which holds the
    enclosing iteration variables and whatever the role derived from them) — never in a
    sibling's. A range that does not evaluate, or a generated role that is disabled or
    fails, contributes no instance (the failure itself is reported through `Out.err`). -/
def nestCtxs (ctx : Ctx) : List Level → List Ctx
  | [] => [ctx]
  | l :: ls =>
    match evalRange ctx.lookRange l.rng with
    | none => []
    | some ws => ws.flatMap fun w =>
      match procHdr ctx [(l.var, w)] l.hdr [] with
      | .ok _ c' _ => nestCtxs c' ls
      | _ => []

/-- every level's aggregator carries a plain truthy `enabled` (needed for the legacy configuration
    only: else former finding iterator_enabled_expr strikes) -/
def nestEnabled (ls : List Level) : Bool := ls.all fun l => truthy (rawText l.hdr.enabled)

/-! ## include roles under iterators: the iteration variable below the include site -/

/-- every role of a processed tree (aggregators too), through iterator nodes: what `Walk` visits -/
def Tree.allInfos : Tree → List Info
  | .nil => []
  | .agg i k n => i :: (allInfos k ++ allInfos n)
  | .task i _ _ n => i :: allInfos n
  | .call i _ _ n => i :: allInfos n
  | .iter k n => allInfos k ++ allInfos n

/-- the header gives `var` no nearer value: it is neither one of its `vars` nor a user variable
    (a `default` of that name is farther than any var and changes nothing) -/
def hdrKeeps (var : String) (h : Hdr) : Bool :=
  h.vars.all (fun kv => kv.1 != var) && h.uvars.all (fun kv => kv.1 != var)

/-- nothing in the template gives `var` a nearer value: no role sets it as a var / user var and
    no iterator uses it as its own iteration variable — at any depth, through included documents -/
def noRebind (var : String) : Tmpl → Bool
  | .nil => true
  | .agg h k n => hdrKeeps var h && noRebind var k && noRebind var n
  | .task h _ _ n => hdrKeeps var h && noRebind var n
  | .call h _ _ n => hdrKeeps var h && noRebind var n
  | .iter _ v b n => v != var && noRebind var b && noRebind var n
  | .incl h _ d n => hdrKeeps var h && noRebind var d && noRebind var n
  | .doc _ h k n => hdrKeeps var h && noRebind var k && noRebind var n

/-- the stack binds `var` to `v` as a VAR no user variable overrides: what publishing an iteration
    variable (`Locals → Vars`) establishes for everything below -/
def Ctx.binds (c : Ctx) (var v : String) : Prop := lookup c.U var = none ∧ lookup c.V var = some v

end Load
