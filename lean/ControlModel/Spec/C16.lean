/-
  Spec/C16 — "The task state reported after a transition is the device's real state",
  as decidable predicates over one completed `Commit` call (`FairMQ.Run`).

  The three clauses of the property text:

  * image     "the state the executor reports after a transition request is the image of the state the
               device is really in"                       reported = FromDeviceState(device's final state)
               (`none` = `""` = "this device state has no O² name")
  * success   "success is reported only if the device reached the destination"
                                                          err = nil → device is in the image of dst
  * rollback  "a multi-step transition that cannot complete is rolled back to its source state whenever
               the device accepts the rollback"           the device is never LEFT in a state without an O²
               name from which its graph accepts the roll-back event, unless that roll-back was requested
               there and the device did not perform it. (`C16_rollback_reaches_source` in Props states the
               positive form: with a device that accepts roll-backs the call ends in src or dst.)

  The same predicates are evaluated by the driver on what the REAL code did.
-/
import ControlModel.Model.FairMQ

namespace FairMQ

variable {σ ε : Type} [DecidableEq σ] [DecidableEq ε]

/-- The reported state is the image of the device's real state. -/
def imageOk (img : σ → Option O2State) (r : Run σ ε) : Bool :=
  decide (r.reported = img r.final)

/-- Success (err = nil) only with the device at the destination. -/
def successOk (toDev : O2State → σ) (dst : O2State) (r : Run σ ε) : Bool :=
  decide (r.err ≠ .nil) || decide (r.final = toDev dst)

/-- Not left in a nameless (intermediate) state that the device would have let us leave by `rb`. -/
def rollbackOk (D : Dev σ ε) (img : σ → Option O2State) (rb : Option ε) (r : Run σ ε) : Bool :=
  match rb with
  | none => true
  | some e =>
    if (img r.final).isNone && (D.next r.final e).isSome then
      r.steps.any fun s => decide (s.ask.evt = e) && decide (s.before = r.final) && decide (s.after = r.final)
    else true

/-- The roll-back event of the multi-step transitions (fairmq.go doConfigure / doReset). -/
def rollbackEvt : O2Event → Option FEvent
  | .CONFIGURE => some .RESET_DEVICE
  | .RESET | .EXIT => some .INIT_TASK
  | _ => none

/-- Full-strength Spec of one FAIRMQ call. -/
def specFMQ (evt : O2Event) (r : Run FState FEvent) : Bool :=
  imageOk o2Of r && successOk fmqOf (dstOf evt) r && rollbackOk fmqDev o2Of (rollbackEvt evt) r

/-- Full-strength Spec of one DIRECT call (single step: no roll-back clause). -/
def specDirect (evt : O2Event) (r : Run O2State O2Event) : Bool :=
  imageOk some r && successOk id (dstOf evt) r

/-! ## the hypotheses of the partial theorems (= classes of the known findings) -/

/-- The request named the state the device was in (irrelevant for a device that does not look). -/
def Step.srcOk (strict : Bool) (s : Step σ ε) : Bool := !(strict && decide (s.ask.src ≠ s.before))

/-- A transport error hit this request, or its reply arrived without a state (`errorNoState`): the executor
    learnt no device state from it (and it was not a self-inflicted source mismatch). -/
def Step.lost (strict : Bool) (s : Step σ ε) : Bool := s.srcOk strict && s.out.lost

/-- Excluded by finding `stale_src_request`: no request was answered "state mismatch". -/
def noStale (strict : Bool) (r : Run σ ε) : Bool := r.steps.all (·.srcOk strict)

/-- Excluded by finding `lost_reply`: every issued request got a reply, and the reply carried a state. -/
def noLoss (strict : Bool) (r : Run σ ε) : Bool := r.steps.all (fun s => !s.lost strict)

/-- Weaker: the LAST request issued got a reply that carried a state (or none was issued). -/
def lastReceived (strict : Bool) (r : Run σ ε) : Bool :=
  match r.steps.getLast? with
  | none => true
  | some s => s.srcOk strict && !s.out.lost

/-- fairmq.go implements the event (GO_ERROR and RECOVER it answers itself, without asking the device).
    Hypothesis of the theorems that also cover the code as it was before the repair of finding
    `unimplemented_event`; the code as it is needs no such hypothesis (`C16_success_code`). -/
def implemented : O2Event → Bool
  | .GO_ERROR | .RECOVER => false
  | _ => true

/-- Which excluded hypothesis a call violates (`-` = none): the `hyp` column of the line protocol.
    Only the classes that are still open are named: a GO_ERROR / RECOVER answered with `err = nil`
    (former class `unimplemented_event`, repaired) is a plain violation. -/
def hypOf (strict : Bool) (r : Run σ ε) : String :=
  if !noStale strict r then "stale_src_request"
  else if !noLoss strict r then "lost_reply"
  else "-"

/-- `""` for "no O² name". -/
def nameOrEmpty : Option O2State → String
  | none => ""
  | some s => s.name

/-- Lookup in a table tabulated by `vh gen`. -/
def lookup (t : List (String × String)) (k : String) : Option String := (t.find? (·.1 == k)).map (·.2)

/-- Roll-back requests are accepted: every request for the roll-back event was performed. -/
def acceptsRollback [DecidableEq ε] (rb : Option ε) (r : Run σ ε) : Bool :=
  r.steps.all fun s => !(decide (some s.ask.evt = rb)) || decide (s.out = .done)

/-- No request was lost and the device never went to ERROR: requests are performed or refused in place. -/
def calm (r : Run σ ε) : Bool :=
  r.steps.all fun s => decide (s.out = .done) || decide (s.out = .refused)

/-! ## rebuilding a `Run` from an observation of the real code -/

/-- Replay the requests the implementation issued against the model device with the input's script:
    gives the device's state before/after each request (needed by `rollbackOk` and the hypotheses). -/
def replay (D : Dev σ ε) (strict : Bool) : σ → List (Ask σ ε) → List Outcome → List (Step σ ε)
  | _, [], _ => []
  | dev, a :: as, script =>
    let o := script.head?.getD .refused
    let res := D.step strict dev a o
    ⟨a, o, dev, res.1⟩ :: replay D strict res.1 as script.tail

def Run.ofObs (D : Dev σ ε) (strict : Bool) (dev0 : σ) (script : List Outcome)
    (reported : Option O2State) (err : ErrKind) (trace : List (Ask σ ε)) (final : σ) : Run σ ε :=
  ⟨reported, err, replay D strict dev0 trace script, final⟩

/-! ## the acceptance rule (client.go doTransition), rows `(rule …)` of the harness -/

/-- What the property demands of `doTransition` for a reply that arrived: the state passed on is the
    state in the reply; no error iff ok ∧ executor-triggered ∧ same event ∧ state = destination. -/
def ruleOk (ok trigExecutor sameEvent stateIsDst : Bool) (passedOnReplyState : Bool) (err : ErrKind) : Bool :=
  passedOnReplyState && decide (err ≠ .transport) &&
    (decide (err = .nil) == (ok && trigExecutor && sameEvent && stateIsDst))

end FairMQ
