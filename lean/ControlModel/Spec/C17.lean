/-
  Spec/C17 — what the property demands, as decidable predicates on an observation
  (`ExecTask.Obs`: step results, what left the executor, survivors), and the
  request states the code cannot handle (the excluded hypotheses of the
  `…_partial` theorems = the known findings).

  "For each task it launches, the executor reports at most one terminal status
   (finished, failed or killed) and nothing after it; a task killed on request is
   reported as killed or finished, not failed. Stopping a basic task or killing any
   task terminates the whole process group …, and no stop, kill or transition
   request makes the executor itself crash or hang, whether the child is still
   running, already gone or never started."
-/
import ControlModel.Model.ExecTask

namespace ExecTask

/-! ### the property on an observation -/

def terminals (es : List Emit) : Nat := (es.filter Emit.isTerm).length

/-- at most one terminal status -/
def oneTerminal (es : List Emit) : Bool := terminals es ≤ 1

/-- nothing leaves the executor for this task after its terminal status -/
def nothingAfter : List Emit → Bool
  | [] => true
  | e :: es => if e.isTerm then es.isEmpty else nothingAfter es

/-- TASK_RUNNING never follows the task's terminal status (a consequence of `nothingAfter`; the clause that
    finding `kill_before_running_timer` violated) -/
def noRunningAfter : List Emit → Bool
  | [] => true
  | e :: es => if e.isTerm then !es.contains .running else noRunningAfter es

/-- some KILL request of the schedule was carried out (`rs` starts with the result of LAUNCH) -/
def killOkFrom : List Op → List Res → Bool
  | op :: ops, r :: rs => (op = .kill && r = .ok) || killOkFrom ops rs
  | _, _ => false

def killOk (ops : List Op) (rs : List Res) : Bool :=
  match rs with
  | [] => false
  | _ :: rs => killOkFrom ops rs

/-- a task killed on request is not reported failed -/
def killedNotFailed (ops : List Op) (o : Obs) : Bool :=
  !killOk ops o.res || !o.emits.contains (.term .FAILED)

/-- no request crashed the executor, hung, or ended its event loop -/
def noStuck (rs : List Res) : Bool := rs.all (fun r => !r.stuck)

/-- killing terminates the whole process group -/
def noSurvivors (ops : List Op) (o : Obs) : Bool :=
  !killOk ops o.res || o.alive == some false

def Spec (ops : List Op) (o : Obs) : Bool :=
  oneTerminal o.emits && nothingAfter o.emits && killedNotFailed ops o && noStuck o.res && noSurvivors ops o

/-- Scanning a schedule with its results: was a STOP answered (whatever the answer) and no child started since?
    A STOP is answered with `resp` exactly when it reached the active task; a START that spawned answers
    `resp RUNNING false`. -/
def stopFlag (flag : Bool) (op : Op) (r : Res) : Bool :=
  match op, r with
  | .stop, .resp _ _ => true
  | .start, .resp .RUNNING false => false
  | _, _ => flag

def stoppedFrom (flag : Bool) : List Op → List Res → Bool
  | op :: ops, r :: rs => stoppedFrom (stopFlag flag op r) ops rs
  | _, _ => flag

/-- the schedule ends with the basic task stopped (`rs` starts with the result of LAUNCH) -/
def stoppedLast (ops : List Op) (rs : List Res) : Bool :=
  match rs with
  | [] => false
  | _ :: rs => stoppedFrom false ops rs

/-- "Stopping a basic task … terminates the whole process group": once a STOP has been answered and no child
    was started after it, no process of the task is alive (and the run did not end half-way). Says nothing about
    how the STOP was answered: a STOP that reports an error and leaves the child running violates it. -/
def stopTerminates (k : Kind) (ops : List Op) (o : Obs) : Bool :=
  !(k == .basic && stoppedLast ops o.res) || o.alive == some false

/-- The whole property: the five clauses of `Spec` and `stopTerminates`. The observation it is evaluated on must
    not depend on the command shape (shell or not, arguments or not): the input's shape is not an argument. -/
def SpecAll (k : Kind) (ops : List Op) (o : Obs) : Bool :=
  Spec ops o && stopTerminates k ops o

/-! ### request states the code does not survive / does not serve (excluded hypotheses) -/

/-- finding `stop_unreaped_basic_panics` (repaired): STOP reaches a basic task whose taskCmd has no ProcessState yet
    (child still running, or Start failed). -/
def stopUnreaped (s : St) (op : Op) : Bool :=
  op = .stop && s.kind = .basic && s.active && s.cmd && !s.reaped

/-- finding `stop_signalled_twice_hangs` (repaired): STOP reaches a basic task whose reaped child died of a signal
    while a value already waits in pendingFinalTaskStateCh. -/
def stopChannelFull (s : St) (op : Op) : Bool :=
  op = .stop && s.kind = .basic && s.active && s.cmd && s.reaped && s.pending.isSome &&
    (match s.child with | .exited _ => false | _ => true)

/-- finding `kill_unready_ctl_panics`: KILL reaches a controllable task whose rpc client is nil. -/
def killNoRpc (s : St) (op : Op) : Bool :=
  op = .kill && s.kind = .ctl && s.active && !s.rpc

/-- finding `kill_inactive_ends_loop` (repaired): KILL names a task that is no longer in activeTasks. -/
def killInactive (s : St) (op : Op) : Bool :=
  op = .kill && !s.active

/-- the request states in which a step gets stuck: four in the code before the repairs, one (`killNoRpc`)
    in the code as it is -/
def unsafeReq (c : Cfg) (s : St) (op : Op) : Bool :=
  (!c.stopNilSafe && (stopUnreaped s op || stopChannelFull s op)) || killNoRpc s op ||
    (!c.killInactiveIgnored && killInactive s op)

/-- finding `basic_kill_spares_child`: KILL reaches a basic/hook task while one of its processes lives. -/
def killLive (s : St) (op : Op) : Bool :=
  op = .kill && s.kind.basicLike && s.active && s.alive

/-- finding `kill_before_running_timer` (repaired): KILL reaches a basic/hook task before its TASK_RUNNING timer fired. -/
def killArmed (s : St) (op : Op) : Bool :=
  op = .kill && s.kind.basicLike && s.active && s.timer

/-- `killArmed` as far as the code at hand still has the defect: none once Kill stops the timer. -/
def killArmedIn (c : Cfg) (s : St) (op : Op) : Bool :=
  !c.killStopsTimer && killArmed s op

/-- finding `basic_stop_spares_helpers`: STOP reaches a basic task some of whose processes are out of the reach of
    ensureBasicTaskKilled, which SIGKILLs the group of the latest child and only while that child has not been
    reaped: children orphaned by a restart, helpers in the groups of earlier children, and helpers in the group of
    a latest child that has already ended (ProcessState != nil: "nothing to do"). -/
def stopSpares (s : St) (op : Op) : Bool :=
  op = .stop && s.kind = .basic && s.active &&
    (s.orphans > 0 || (if s.child = .running then s.helpersOld else s.helpers))

/-- finding `ctl_kill_spares_helpers`: KILL reaches a ready controllable task that has forked helpers. -/
def killHelpers (s : St) (op : Op) : Bool :=
  op = .kill && s.kind = .ctl && s.active && s.rpc && s.helpers

/-- findings `launch_nil_data_panics`, `ctl_start_failure_panics`: LAUNCH itself crashes (never, in the code as it is). -/
def launchCrashes (c : Cfg) (k : Kind) (b : Beh) : Bool :=
  (!c.launchNilSafe && k = .nodata) || (!c.startFailSafe && (k = .ctl && b.startFails))

/-- `P` holds of no (state, request) pair the schedule actually delivers. -/
def neverFrom (c : Cfg) (P : St → Op → Bool) (s : St) : List Op → Bool
  | [] => true
  | op :: ops =>
    if !s.loop then true
    else if P s op then false
    else
      let (s', r) := step c s op
      if r.halts then true else neverFrom c P s' ops

def never (c : Cfg) (P : St → Op → Bool) (k : Kind) (b : Beh) (ops : List Op) : Bool :=
  let (s, r) := init c k b
  if r.halts then true else neverFrom c P s ops

end ExecTask
