/-
  Spec/C17 — what the property demands, as decidable predicates on an observation
  (`ExecTask.Obs`: step results, what left the executor, survivors), and the
  request states the code cannot handle (the excluded hypotheses of the
  `…_partial` theorems = the known findings).

  "For each task it launches, the executor reports at most one terminal status
   (finished, failed or killed) and nothing after it; a task killed on request is
   reported as killed or finished, not failed. Stopping a basic task or killing any
   task terminates the whole process group …, and no stop, kill or transition
   request makes the executor itself crash or hang, whether the child is still
   running, already gone or never started."
-/
import ControlModel.Model.ExecTask
import ControlModel.Model.ExecOverlap

namespace ExecTask

/-! ### the property on an observation -/

def terminals (es : List Emit) : Nat := (es.filter Emit.isTerm).length

/-- at most one terminal status -/
def oneTerminal (es : List Emit) : Bool := terminals es ≤ 1

/-- nothing leaves the executor for this task after its terminal status -/
def nothingAfter : List Emit → Bool
  | [] => true
  | e :: es => if e.isTerm then es.isEmpty else nothingAfter es

/-- TASK_RUNNING never follows the task's terminal status (a consequence of `nothingAfter`; the clause that
    finding `kill_before_running_timer` violated) -/
def noRunningAfter : List Emit → Bool
  | [] => true
  | e :: es => if e.isTerm then !es.contains .running else noRunningAfter es

/-- some KILL request of the schedule was carried out (`rs` starts with the result of LAUNCH) -/
def killOkFrom : List Op → List Res → Bool
  | op :: ops, r :: rs => (op = .kill && r = .ok) || killOkFrom ops rs
  | _, _ => false

def killOk (ops : List Op) (rs : List Res) : Bool :=
  match rs with
  | [] => false
  | _ :: rs => killOkFrom ops rs

/-- a task killed on request is not reported failed -/
def killedNotFailed (ops : List Op) (o : Obs) : Bool :=
  !killOk ops o.res || !o.emits.contains (.term .FAILED)

/-- no request crashed the executor, hung, or ended its event loop -/
def noStuck (rs : List Res) : Bool := rs.all (fun r => !r.stuck)

/-- killing terminates the whole process group -/
def noSurvivors (ops : List Op) (o : Obs) : Bool :=
  !killOk ops o.res || o.alive == some false

def Spec (ops : List Op) (o : Obs) : Bool :=
  oneTerminal o.emits && nothingAfter o.emits && killedNotFailed ops o && noStuck o.res && noSurvivors ops o

/-- Scanning a schedule with its results: was a STOP answered (whatever the answer) and no child started since?
    A STOP is answered with `resp` exactly when it reached the active task; a START that spawned answers
    `resp RUNNING false`. -/
def stopFlag (flag : Bool) (op : Op) (r : Res) : Bool :=
  match op, r with
  | .stop, .resp _ _ => true
  | .start, .resp .RUNNING false => false
  | _, _ => flag

def stoppedFrom (flag : Bool) : List Op → List Res → Bool
  | op :: ops, r :: rs => stoppedFrom (stopFlag flag op r) ops rs
  | _, _ => flag

/-- the schedule ends with the basic task stopped (`rs` starts with the result of LAUNCH) -/
def stoppedLast (ops : List Op) (rs : List Res) : Bool :=
  match rs with
  | [] => false
  | _ :: rs => stoppedFrom false ops rs

/-- "Stopping a basic task … terminates the whole process group": once a STOP has been answered and no child
    was started after it, no process of the task is alive (and the run did not end half-way). Says nothing about
    how the STOP was answered: a STOP that reports an error and leaves the child running violates it. -/
def stopTerminates (k : Kind) (ops : List Op) (o : Obs) : Bool :=
  !(k == .basic && stoppedLast ops o.res) || o.alive == some false

/-- some `giveup` of the schedule was carried out: the executor itself gave the task up — reported the failed
    launch and ran its escalation over the task's process group (`rs` = the results after LAUNCH's) -/
def gaveUpFrom : List Op → List Res → Bool
  | op :: ops, r :: rs => (op = .giveup && r = .ok) || gaveUpFrom ops rs
  | _, _ => false

def gaveUpOk (ops : List Op) (rs : List Res) : Bool :=
  match rs with
  | [] => false
  | _ :: rs => gaveUpFrom ops rs

/-- "… killing any task terminates the whole process group within the bounded TERM/INT/KILL escalation" — also
    when it is the executor itself that kills the task because its launch failed: once the failure has been
    reported and the escalation has had its time, NO process of the task is alive (every member of the group, not
    just its leader; and the run did not end half-way). -/
def giveupTerminates (ops : List Op) (o : Obs) : Bool :=
  !gaveUpOk ops o.res || o.alive == some false

/-- The whole property: the five clauses of `Spec`, `stopTerminates` and `giveupTerminates`. The observation it
    is evaluated on must not depend on the command shape (shell or not, arguments or not): the input's shape is
    not an argument. -/
def SpecAll (k : Kind) (ops : List Op) (o : Obs) : Bool :=
  Spec ops o && stopTerminates k ops o && giveupTerminates ops o

/-! ### request states the code does not survive / does not serve (excluded hypotheses) -/

/-- finding `stop_unreaped_basic_panics` (repaired): STOP reaches a basic task whose taskCmd has no ProcessState yet
    (child still running, or Start failed). -/
def stopUnreaped (s : St) (op : Op) : Bool :=
  op = .stop && s.kind = .basic && s.active && s.cmd && !s.reaped

/-- finding `stop_signalled_twice_hangs` (repaired): STOP reaches a basic task whose reaped child died of a signal
    while a value already waits in pendingFinalTaskStateCh. -/
def stopChannelFull (s : St) (op : Op) : Bool :=
  op = .stop && s.kind = .basic && s.active && s.cmd && s.reaped && s.pending.isSome &&
    (match s.child with | .exited _ => false | _ => true)

/-- finding `kill_unready_ctl_panics`: KILL reaches a controllable task whose rpc client is nil. -/
def killNoRpc (s : St) (op : Op) : Bool :=
  op = .kill && s.kind = .ctl && s.active && !s.rpc

/-- finding `kill_inactive_ends_loop` (repaired): KILL names a task that is no longer in activeTasks. -/
def killInactive (s : St) (op : Op) : Bool :=
  op = .kill && !s.active

/-- the request states in which a step gets stuck: four in the code before the repairs, one (`killNoRpc`)
    in the code as it is -/
def unsafeReq (c : Cfg) (s : St) (op : Op) : Bool :=
  (!c.stopNilSafe && (stopUnreaped s op || stopChannelFull s op)) || killNoRpc s op ||
    (!c.killInactiveIgnored && killInactive s op)

/-- finding `basic_kill_spares_child`: KILL reaches a basic/hook task while one of its processes lives. -/
def killLive (s : St) (op : Op) : Bool :=
  op = .kill && s.kind.basicLike && s.active && s.alive

/-- finding `kill_before_running_timer` (repaired): KILL reaches a basic/hook task before its TASK_RUNNING timer fired. -/
def killArmed (s : St) (op : Op) : Bool :=
  op = .kill && s.kind.basicLike && s.active && s.timer

/-- `killArmed` as far as the code at hand still has the defect: none once Kill stops the timer. -/
def killArmedIn (c : Cfg) (s : St) (op : Op) : Bool :=
  !c.killStopsTimer && killArmed s op

/-- finding `basic_stop_spares_helpers`: STOP reaches a basic task some of whose processes are out of the reach of
    ensureBasicTaskKilled, which SIGKILLs the group of the latest child and only while that child has not been
    reaped: children orphaned by a restart, helpers in the groups of earlier children, and helpers in the group of
    a latest child that has already ended (ProcessState != nil: "nothing to do"). -/
def stopSpares (s : St) (op : Op) : Bool :=
  op = .stop && s.kind = .basic && s.active &&
    (s.orphans > 0 || (if s.child = .running then s.helpersOld else s.helpers))

/-- finding `ctl_kill_spares_helpers`: KILL reaches a ready controllable task that has forked helpers. -/
def killHelpers (s : St) (op : Op) : Bool :=
  op = .kill && s.kind = .ctl && s.active && s.rpc && s.helpers

/-- findings `launch_nil_data_panics`, `ctl_start_failure_panics`: LAUNCH itself crashes (never, in the code as it is). -/
def launchCrashes (c : Cfg) (k : Kind) (b : Beh) : Bool :=
  (!c.launchNilSafe && k = .nodata) || (!c.startFailSafe && (k = .ctl && b.startFails))

/-- `P` holds of no (state, request) pair the schedule actually delivers. -/
def neverFrom (c : Cfg) (P : St → Op → Bool) (s : St) : List Op → Bool
  | [] => true
  | op :: ops =>
    if !s.loop then true
    else if P s op then false
    else
      let (s', r) := step c s op
      if r.halts then true else neverFrom c P s' ops

def never (c : Cfg) (P : St → Op → Bool) (k : Kind) (b : Beh) (ops : List Op) : Bool :=
  let (s, r) := init c k b
  if r.halts then true else neverFrom c P s ops

/-! ### schedules with overlapping requests

The property is the SAME predicate (`SpecAll`), evaluated on the schedule and the results read request by
request. Only the order of the two requests of an overlap has to be fixed for the two clauses that scan the
schedule: `killOk` does not depend on it; `stoppedLast` ("a STOP was answered and no child started since") reads
an overlapping START and STOP as STOP first — whichever of the two the executor served first is a legitimate order,
so a child that lives on after the pair is not held against the STOP. Nothing else is relaxed: no crash, no hang,
at most one terminal status, nothing after it, no survivors of a carried-out KILL — whatever the interleaving. -/

/-- the requests of a schedule with their results, overlaps flattened (`rs` = the results after LAUNCH's) -/
def specPairs : List Item → List IRes → List (Op × Res)
  | .one op :: is, .one r :: rs => (op, r) :: specPairs is rs
  | .par a b :: is, .par ra rb :: rs =>
    (if a = .start && b = .stop then [(b, rb), (a, ra)] else [(a, ra), (b, rb)]) ++ specPairs is rs
  | .par a _ :: _, .one r :: _ => [(a, r)]          -- the overlap got the executor stuck: one result, the last
  | _, _ => []

/-- the flattened view of an observation of a schedule of items -/
def IObs.flat (items : List Item) (o : IObs) : List Op × Obs :=
  match o.res with
  | .one r0 :: rs =>
    let ps := specPairs items rs
    (ps.map (·.1), { res := r0 :: ps.map (·.2), emits := o.emits, alive := o.alive, sigs := o.sigs })
  | _ => ([], { res := [], emits := o.emits, alive := o.alive, sigs := o.sigs })

/-- The property on an observation of a schedule with overlaps. -/
def SpecAllI (k : Kind) (items : List Item) (o : IObs) : Bool :=
  let (ops, fo) := o.flat items
  SpecAll k ops fo

/-- a stuck result anywhere in the results of a schedule of items -/
def IRes.stuck : IRes → Bool
  | .one r => r.stuck
  | .par ra rb => ra.stuck || rb.stuck

def noStuckI (rs : List IRes) : Bool := rs.all (fun r => !r.stuck)

/-! ### overlaps the code does not survive / does not serve (excluded hypotheses of the overlap theorems) -/

/-- A KILL and a request that starts a child (START of a basic task, trigger of a hook) overlap on an active
    task. Finding `kill_overlaps_start_panics` (repaired): Kill set t.taskCmd = nil under startBasicTask and the
    executor panicked. What is left of the class in the code as it is belongs to the open finding
    `basic_kill_spares_child` (Kill neither signals a child nor keeps a START in flight from starting one): the
    child is started for — and survives — a task that has reported its terminal status. -/
def overlapKillSpawn (s : St) (a b : Op) : Bool :=
  s.active && ((a = .kill && spawns s.kind b) || (spawns s.kind a && b = .kill))

/-- finding `overlapping_kills_two_terminals` (repaired): two KILLs overlap on an active basic/hook task: both
    handlers found the task (it was removed from activeTasks only by the goroutine), both goroutines called Kill. -/
def overlapKillKill (s : St) (a b : Op) : Bool :=
  s.active && s.kind.basicLike && a = .kill && b = .kill

/-- a predicate on requests, read on a schedule element: an overlap meets it if either request does in the state
    in which the pair arrives -/
def liftReq (P : St → Op → Bool) (s : St) : Item → Bool
  | .one op => P s op
  | .par a b => P s a || P s b

/-- a predicate on overlapping pairs, read on a schedule element -/
def liftPair (Q : St → Op → Op → Bool) (s : St) : Item → Bool
  | .one _ => false
  | .par a b => Q s a b

/-- `P` holds of no (state, element) pair that ANY run of the schedule delivers. -/
def neverFromI (c : Cfg) (P : St → Item → Bool) (s : St) : List Item → Bool
  | [] => true
  | it :: rest =>
    if !s.loop then true
    else if P s it then false
    else
      match it with
      | .one op =>
        let (s', r) := step c s op
        if r.halts then true else neverFromI c P s' rest
      | .par a b =>
        (parOutcomes c s a b).all (fun o =>
          match o with
          | .halt _ => true
          | .done s' _ _ => neverFromI c P s' rest)

def neverI (c : Cfg) (P : St → Item → Bool) (k : Kind) (b : Beh) (items : List Item) : Bool :=
  let (s, r) := init c k b
  if r.halts then true else neverFromI c P s items

/-- The states in which one PART of the handling of a request gets the executor stuck: the request served in one
    piece, exactly where `step` gets stuck once the look-up has succeeded (`unsafeReq`); before startBasicTask
    worked on its own pointer, its two parts that dereference t.taskCmd, exactly when a KILL had cleared it. -/
def unsafePart (c : Cfg) (s : St) : Part → Bool
  | .whole op => unsafeReq c { s with active := true } op
  | .exec _ | .reap _ => !s.cmd && !c.startOwnsCmd
  | _ => false

def PStep.halts : PStep → Bool
  | .halt _ => true
  | .next _ _ _ => false

end ExecTask
