/-
  Spec/C18 — "A restarted core kills what it no longer owns, and only that", as decidable predicates
  over a log of `Reconcile.Out` (newest first): what the core did that is visible at the master and in the
  configuration store, plus the observer's quiescent snapshots.

  The theorems of Props/C18.lean state these predicates of `(run cfg W h s₀).log` for ALL histories `h`;
  the driver evaluates the very same functions on the log it reconstructs from what the REAL core did
  (master trace of the whole-core simulator joined with GetTasks snapshots), see Driver/C18.lean.
-/
import ControlModel.Model.Reconcile
import ControlModel.Model.Resubscribe
import ControlModel.Model.SparseStatus
import ControlModel.Gen.C18Facts
import ControlModel.Gen.TaskIdFacts

namespace Spec.C18
open Reconcile

/-- Same identity: once a framework id is persisted (a `persist` entry), every LATER SUBSCRIBE carries it. -/
def sameIdentity : List Out → Bool
  | [] => true
  | o :: older =>
    (match o with
     | .subscribe _ c => older.all (fun p => match p with | .persist _ f => c == some f | _ => true)
     | _ => true) && sameIdentity older

/-- … and the persisted id never changes. -/
def persistedOnce : List Out → Bool
  | [] => true
  | o :: older =>
    (match o with
     | .persist _ f => older.all (fun p => match p with | .persist _ g => f == g | _ => true)
     | _ => true) && persistedOnce older

def isReconKill (l t : Nat) : Out → Bool
  | .kill l' t' (.update .recon) _ => l' == l && t' == t
  | _ => false

/-- Orphans killed: whenever the system is quiescent in life `l`, every task of an earlier life that the
    master still holds alive has received a KILL from life `l` (caused by a reconciliation answer). -/
def orphansKilled : List Out → Bool
  | [] => true
  | o :: older =>
    (match o with
     | .snap l os => os.all (fun t => older.any (isReconKill l t))
     | _ => true) && orphansKilled older

/-- The part of a log (newest first) that is NEWER than the most recent RECONCILE call of life `l`
    (the whole log if there is none). -/
def sinceReconcile (l : Nat) : List Out → List Out
  | [] => []
  | o :: older =>
    match o with
    | .reconcile l' => if l' == l then [] else o :: sinceReconcile l older
    | _ => o :: sinceReconcile l older

/-- Orphans killed, per reconciliation ROUND: whenever the system is quiescent in life `l`, every task of an
    earlier life that the master still holds alive has received a KILL from life `l` AFTER the most recent
    RECONCILE call of that life — i.e. the KILL answers the LATEST reconciliation answer that reported the
    task alive, not some earlier one. A task that survives its KILL (the call was lost, the agent is
    partitioned, the task is stuck in TASK_KILLING) is therefore killed again after every re-subscription:
    "one KILL per orphan" is not enough. Implies `orphansKilled` (`orphansKilled_of_eachRound`). -/
def orphansKilledEachRound : List Out → Bool
  | [] => true
  | o :: older =>
    (match o with
     | .snap l os => os.all (fun t => (sinceReconcile l older).any (isReconKill l t))
     | _ => true) && orphansKilledEachRound older

/-- The part of a log (newest first) that is NEWER than the most recent SUBSCRIBE call of life `l`
    (the whole log if there is none). -/
def sinceSubscribe (l : Nat) : List Out → List Out
  | [] => []
  | o :: older =>
    match o with
    | .subscribe l' _ => if l' == l then [] else o :: sinceSubscribe l older
    | _ => o :: sinceSubscribe l older

/-- Orphans killed, per SUBSCRIPTION: whenever the system is quiescent in life `l`, every task of an earlier
    life that the master reports alive has received a KILL from life `l` that is NEWER than the most recent
    SUBSCRIBE of that life: after every re-subscription — a life has as many as the master connection is dropped
    and re-established — whatever the master reports alive and the core does not own is looked for and killed
    AGAIN. What an earlier subscription of the same life found, or asked for, does not count: a task the first
    answer left out (its agent had not re-registered, the request was lost) and a later subscription's answer
    shows is killed then. A core that reconciles after the first SUBSCRIBED of its life only satisfies
    `orphansKilledEachRound` (its latest RECONCILE is the first one) and not this. -/
def orphansKilledEachSubscription : List Out → Bool
  | [] => true
  | o :: older =>
    (match o with
     | .snap l os => os.all (fun t => (sinceSubscribe l older).any (isReconKill l t))
     | _ => true) && orphansKilledEachSubscription older

/-- Identity kept, on the SUBSCRIBE calls themselves (newest first): every SUBSCRIBE made after a SUBSCRIBED
    that the core accepted presents the framework id of the LATEST accepted one — in the same life after a
    reconnection (a core in its first life has nothing persisted when it starts: what it presents is what it
    was given), and in every later life. -/
def identityKept : List Sub → Bool
  | [] => true
  | x :: older =>
    (match older.find? (·.accepted) with
     | some y => x.carry == some y.assigned
     | none => true) && identityKept older

/-- … and so the core is ONE framework for ever: all accepted subscriptions carry the same assigned id (the
    tasks of its live environments, launched under an earlier subscription, are tasks of the framework it is
    subscribed as now). -/
def oneFramework : List Sub → Bool
  | [] => true
  | x :: older => (!x.accepted || older.all (fun y => !y.accepted || y.assigned == x.assigned)) && oneFramework older

/-- Owned spared: no KILL caused by a reconciliation update hits an owned task — one that is locked in the
    roster, or held by a live environment (the `owned` flag of the KILL; the driver derives it from GetTasks AND
    from what GetEnvironments says the environments hold, so a task the roster has lost is still "owned"). -/
def ownedSpared (log : List Out) : Bool :=
  log.all (fun o => match o with | .kill _ _ (.update .recon) owned => !owned | _ => true)

/-- Ordinary status updates never cause a KILL. -/
def updatesNeverKill (log : List Out) : Bool :=
  log.all (fun o => match o with | .kill _ _ (.update .none) _ => false | _ => true)

/-- Every SUBSCRIBED is followed by an implicit RECONCILE is not a log property (it needs the events);
    the monitor checks it. The conjunction below is what `specOnImpl` reports. -/
def all (log : List Out) : Bool :=
  sameIdentity log && persistedOnce log && orphansKilled log && orphansKilledEachRound log &&
  orphansKilledEachSubscription log && ownedSpared log && updatesNeverKill log

/-- … together with the SUBSCRIBE/SUBSCRIBED pairs: what `specOnImpl` reports. -/
def allR (log : List Out) (subs : List Sub) : Bool :=
  all log && identityKept subs && oneFramework subs

/-- Owned tasks are KNOWN as owned: at every quiet point, every task a live environment holds (its roles reference it;
    the environment is listed and not being torn down) is locked in the roster. "Locked" is what every sweep of unowned
    tasks reads — Cleanup at the start of every CreateEnvironment, the CleanupTasks RPC, the shutdown path — so a held
    task that is not locked is a task the next such sweep kills, whatever made it so: in particular a reconciliation
    answer (or any other status update) that lacks an optional field. One view per quiet point: (task, locked). -/
def heldLocked (views : List (List (Nat × Bool))) : Bool := views.all (fun v => v.all (·.2))

/-- … together with the views at the quiet points: what `specOnImpl` reports. -/
def allS (log : List Out) (subs : List Sub) (views : List (List (Nat × Bool))) : Bool :=
  allR log subs && heldLocked views

/-! ## the configuration the code has NOW (from the regenerated go/ast facts) -/

/-- The nil guards in front of the id copies of updateTaskStatus as the code has them NOW (Gen/TaskIdFacts.lean);
    `C18_status_id_copy_is_code` proves they are `TaskIds.codeGuards`. The driver runs the monitor with them. -/
def codeGuards : TaskIds.Guards :=
  { agent := Gen.TaskIds.agentIdCopy == "guarded", executor := Gen.TaskIds.executorIdCopy == "guarded" }

def stateOfName : String → Option MState
  | "TASK_STAGING" => some .staging | "TASK_STARTING" => some .starting | "TASK_RUNNING" => some .running
  | "TASK_KILLING" => some .killing | "TASK_FINISHED" => some .finished | "TASK_FAILED" => some .failed
  | "TASK_KILLED" => some .killed | "TASK_ERROR" => some .error | "TASK_LOST" => some .lost
  | "TASK_DROPPED" => some .dropped | "TASK_GONE" => some .gone | "TASK_GONE_BY_OPERATOR" => some .goneByOperator
  | "TASK_UNREACHABLE" => some .unreachable | "TASK_UNKNOWN" => some .unknown
  | _ => none

/-- `Reconcile.Cfg` read off Gen/C18Facts.lean. `Props/C18.lean` proves it is one of the two configurations
    the theorems are about (`C18_cfg_is_code`); the driver runs the monitor with it, so the correspondence
    check follows the code when notes/C18.fix.patch is applied.
    Two facts are deliberately NOT folded into a field (they are tied by theorems of their own, which stop
    building when the fact changes — `C18_reconcile_on_subscribed_is_code`, `C18_fid_store_is_code` — and have no
    faithful image in `Cfg`): `reconcileOnEverySubscribed` ("on the first SUBSCRIBED only" is not "never") and
    `fidStoreFeedsSubscribe` ("the id read once when the controller starts" is not "no id"). Mapping them to
    `reconcileOnSubscribed := false` / `failover := false` would make the monitor's model differ from such a core on
    EVERY history, also where both behave alike; left out, the model differs exactly where the code does. -/
def codeCfg : Cfg :=
  { seedFid := Gen.C18.fidSeededFromRuntimeEntry && Gen.C18.fidRuntimeKey == "aliecs/mesos_fid" && Gen.C18.rosterFreshPerLife
    persistFid := Gen.C18.fidWrittenBackToRuntimeEntry
    failover := Gen.C18.failoverTimeoutSet && Gen.C18.failoverDefaultPositive
    reconcileOnSubscribed := Gen.C18.reconcileOnSubscribed && Gen.C18.reconcileIsImplicit && Gen.C18.trackSubscriptionBeforeReconcile
    reasonGuard := (Gen.C18.killGuard == "reason+state" || Gen.C18.killGuard == "reason+state+notInRoster") &&
                   Gen.C18.killReason == "REASON_RECONCILIATION" && Gen.C18.killCallsInHandleMessage == 1 && Gen.C18.elseUpdatesStatus
    killStates := Gen.C18.killStates.filterMap stateOfName
    rosterGuard := Gen.C18.killGuard == "reason+state+notInRoster"
    snapshotRewrite := !(Gen.C18.killTasksRosterWrites == "filter-then-append" &&
                         Gen.C18.rosterWriteSites == ["acquireTasks:append", "doKillTasks:append", "doKillTasks:updateTasks",
                                                      "doKillTasks:updateTasks"]) }

end Spec.C18
