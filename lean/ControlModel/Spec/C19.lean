/-
  Spec/C19 — what the property demands, as decidable predicates over what can be
  observed at the write function and at the return of WriteEvent / Close.

  "Events published by any number of concurrent producers reach the broker
   exactly once each and in the order each producer published them, in batches of
   bounded size …; events about the same environment carry the same partition key,
   and every event accepted before shutdown is handed to the broker before
   shutdown completes."
-/
import ControlModel.Model.Writer

namespace Writer

/-- Sequence numbers of producer `p` in a list of events, in list order. -/
def seqsOf (p : Nat) (d : List Ev) : List Nat := (d.filter (fun e => e.1 == p)).map (·.2)

/-- Number of events of producer `p`. -/
def countOf (p : Nat) (d : List Ev) : Nat := d.countP (fun e => e.1 == p)

/-- Exactly once and in publication order, per producer: the events of every
    producer occurring in `d` are numbered 0,1,2,… without gap or repetition. -/
def orderedOnce (d : List Ev) : Bool :=
  (d.map (·.1)).eraseDups.all fun p => seqsOf p d == List.range (countOf p d)

/-- Every batch handed to the write function is non-empty and at most `bm` long. -/
def batchesBounded (bm : Nat) (w : List (List Ev)) : Bool :=
  w.all fun b => decide (0 < b.length) && decide (b.length ≤ bm)

/-- Everything accepted has been delivered: per producer, as many events delivered
    as accepted (`accepted[p]`), and nothing from an unknown producer. With
    `orderedOnce` this is "each accepted event exactly once". -/
def allDelivered (accepted : List Nat) (d : List Ev) : Bool :=
  (List.range accepted.length).all (fun p => countOf p d == accepted.getD p 0) &&
  d.all (fun e => decide (e.1 < accepted.length))

/-- How Close() ended in an observation. -/
inductive CloseStatus where
  | notCalled | returned | hung
  deriving Repr, DecidableEq, Inhabited

/-- A producer as the harness sets it up: the payload type it publishes and the
    (coded) environment / task id it puts into every event. -/
structure Producer where
  kind : Kind
  env : Nat
  task : Nat
  deriving Repr, DecidableEq

/-- One observed run. A written event is (producer, seq, key code). -/
structure Obs where
  accepted : List Nat
  batches : List (List (Nat × Nat × Nat))
  status : CloseStatus
  leftChan : Nat
  leftBuf : Nat
  inflight : Nat     -- write calls still in progress when Close returned
  deriving Repr, DecidableEq

def Obs.delivered (o : Obs) : List Ev := (o.batches.flatten).map fun e => (e.1, e.2.1)
def Obs.shape (o : Obs) : List (List Ev) := o.batches.map fun b => b.map fun e => (e.1, e.2.1)

/-- Every written message carries the key its producer's payload type prescribes. -/
def keysOk (prods : List Producer) (o : Obs) : Bool :=
  o.batches.flatten.all fun e =>
    match prods[e.1]? with
    | some pr => e.2.2 == keyOf pr.kind pr.env pr.task
    | none => false

/-- Two written events about the same environment (environment-scoped payloads,
    non-empty id) carry the same key — stated directly on the observation. -/
def sameEnvSameKey (prods : List Producer) (o : Obs) : Bool :=
  let evs := (o.batches.flatten.map fun e => (e.1, e.2.2)).eraseDups
  evs.all fun a => evs.all fun b =>
    match prods[a.1]?, prods[b.1]? with
    | some pa, some pb =>
        !(pa.kind.envScoped && pb.kind.envScoped && pa.env == pb.env) || a.2 == b.2
    | _, _ => false

/-- Safety part (holds of every observation the model can produce). -/
def safeOk (bm : Nat) (prods : List Producer) (o : Obs) : Bool :=
  orderedOnce o.delivered && batchesBounded bm o.shape && keysOk prods o && sameEnvSameKey prods o

/-- Flush: Close returned with nothing in flight and everything accepted delivered. -/
def flushOk (o : Obs) : Bool :=
  o.status != .returned || (allDelivered o.accepted o.delivered && o.inflight == 0)

/-- Close came back. -/
def closeOk (o : Obs) : Bool := o.status == .returned

/-- Full-strength Spec for one observed run (a run always ends with Close). -/
def Spec (bm : Nat) (prods : List Producer) (o : Obs) : Bool :=
  safeOk bm prods o && flushOk o && closeOk o

end Writer
