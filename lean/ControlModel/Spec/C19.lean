/-
  Spec/C19 — what the property demands, as decidable predicates over what can be
  observed at the write function and at the return of WriteEvent / Close.

  "Events published by any number of concurrent producers reach the broker
   exactly once each and in the order each producer published them, in batches of
   bounded size …; events about the same environment carry the same partition key,
   and every event accepted before shutdown is handed to the broker before
   shutdown completes."

  "Accepted" = WriteEvent has returned.  The hand-over in WriteEventWithTimestamp is a plain
  blocking channel send, so a call returns only once its message is IN the channel; `Snap` /
  `snapOk` state that on what the harness can see while the pipeline stands still.
-/
import ControlModel.Model.Writer
import ControlModel.Model.Registry

namespace Writer

/-- Sequence numbers of producer `p` in a list of events, in list order. -/
def seqsOf (p : Nat) (d : List Ev) : List Nat := (d.filter (fun e => e.1 == p)).map (·.2)

/-- Number of events of producer `p`. -/
def countOf (p : Nat) (d : List Ev) : Nat := d.countP (fun e => e.1 == p)

/-- Exactly once and in publication order, per producer: the events of every
    producer occurring in `d` are numbered 0,1,2,… without gap or repetition. -/
def orderedOnce (d : List Ev) : Bool :=
  (d.map (·.1)).eraseDups.all fun p => seqsOf p d == List.range (countOf p d)

/-- Every batch handed to the write function is non-empty and at most `bm` long. -/
def batchesBounded (bm : Nat) (w : List (List Ev)) : Bool :=
  w.all fun b => decide (0 < b.length) && decide (b.length ≤ bm)

/-- Everything accepted has been delivered: per producer, as many events delivered
    as accepted (`accepted[p]`), and nothing from an unknown producer. With
    `orderedOnce` this is "each accepted event exactly once". -/
def allDelivered (accepted : List Nat) (d : List Ev) : Bool :=
  (List.range accepted.length).all (fun p => countOf p d == accepted.getD p 0) &&
  d.all (fun e => decide (e.1 < accepted.length))

/-- How Close() ended in an observation. -/
inductive CloseStatus where
  | notCalled | returned | hung
  deriving Repr, DecidableEq, Inhabited

/-- A producer as the harness sets it up: the payload type it publishes and the
    (coded) environment / task id it puts into every event. -/
structure Producer where
  kind : Kind
  env : Nat
  task : Nat
  deriving Repr, DecidableEq

/-- What can be seen of the pipeline at an instant at which nothing moves (the batching loop
    is held up in front of the FIFO's lock, every producer that is inside WriteEvent sits in
    the channel send): how many WriteEvent calls have RETURNED per producer, how many messages
    the hand-over channel holds, whether the batching loop has one in its hand, the FIFO
    buffer's length, how many events have been handed to the write function so far (written
    or in flight), and which producers are waiting inside WriteEvent. -/
structure Snap where
  acc : List Nat
  chan : Nat
  hand : Nat
  buf : Nat
  written : Nat
  blocked : List Nat
  deriving Repr, DecidableEq

/-- "WriteEvent returned ⇒ the event is in channel ∪ hand ∪ buffer ∪ in flight ∪ written", as
    counts: not more calls have returned than the pipeline holds or has passed on; the channel
    holds at most its capacity and the batching loop at most one message; and a producer waits
    inside WriteEvent only for room in the channel (never for the buffer, the writing loop or
    the broker): somebody waiting ⇒ the channel is full. -/
def snapOk (cap : Nat) (sn : Snap) : Bool :=
  decide (sn.acc.sum ≤ sn.chan + sn.hand + sn.buf + sn.written) && decide (sn.chan ≤ cap) &&
  decide (sn.hand ≤ 1) && (sn.blocked.isEmpty || sn.chan == cap)

/-- The model's snapshot: `np` producers; `pending` = the producers that have a WriteEvent call
    outstanding (more to publish); such a producer waits iff its `publish` step is not enabled. -/
def snapOf (c : Cfg) (s : State) (np : Nat) (pending : List Nat) : Snap :=
  { acc := (List.range np).map fun p => countOf p s.pubs
    chan := s.chan.length
    hand := s.hand.toList.length
    buf := s.buf.length
    written := (delivered s).length
    blocked := pending.filter fun p => !enabled c s (.publish p) }

/-- One observed run. A written event is (producer, seq, key code). -/
structure Obs where
  accepted : List Nat
  batches : List (List (Nat × Nat × Nat))
  status : CloseStatus
  leftChan : Nat
  leftBuf : Nat
  inflight : Nat     -- write calls still in progress when Close returned
  snaps : List Snap := []   -- snapshots taken while the batching loop was held up ("channel full" scenarios)
  /-- events that HAD BEEN handed to the write function at the instant Close() returned (snapshot
      taken by the caller of Close() right after the call; 0 unless Close returned) -/
  writtenAtReturn : Nat := 0
  /-- write calls that BEGAN after Close() had returned (a closed kafka.Writer in production) -/
  lateCalls : Nat := 0
  deriving Repr, DecidableEq

def Obs.delivered (o : Obs) : List Ev := (o.batches.flatten).map fun e => (e.1, e.2.1)
def Obs.shape (o : Obs) : List (List Ev) := o.batches.map fun b => b.map fun e => (e.1, e.2.1)

/-- Every written message carries the key its producer's payload type prescribes. -/
def keysOk (prods : List Producer) (o : Obs) : Bool :=
  o.batches.flatten.all fun e =>
    match prods[e.1]? with
    | some pr => e.2.2 == keyOf pr.kind pr.env pr.task
    | none => false

/-- Two written events about the same environment (environment-scoped payloads,
    non-empty id) carry the same key — stated directly on the observation. -/
def sameEnvSameKey (prods : List Producer) (o : Obs) : Bool :=
  let evs := (o.batches.flatten.map fun e => (e.1, e.2.2)).eraseDups
  evs.all fun a => evs.all fun b =>
    match prods[a.1]?, prods[b.1]? with
    | some pa, some pb =>
        !(pa.kind.envScoped && pb.kind.envScoped && pa.env == pb.env) || a.2 == b.2
    | _, _ => false

/-- Safety part (holds of every observation the model can produce). -/
def safeOk (bm : Nat) (prods : List Producer) (o : Obs) : Bool :=
  orderedOnce o.delivered && batchesBounded bm o.shape && keysOk prods o && sameEnvSameKey prods o

/-- "Handed to the broker BEFORE shutdown completes", not eventually: at the instant Close()
    returned as many events had been handed to the write function as had been accepted, and no
    write call began afterwards. -/
def atReturnOk (o : Obs) : Bool :=
  o.status != .returned || (o.writtenAtReturn == o.accepted.sum && o.lateCalls == 0)

/-- Flush: Close returned with nothing in flight and everything accepted delivered — delivered by
    then (`atReturnOk`), not later. -/
def flushOk (o : Obs) : Bool :=
  (o.status != .returned || (allDelivered o.accepted o.delivered && o.inflight == 0)) && atReturnOk o

/-- Close came back. -/
def closeOk (o : Obs) : Bool := o.status == .returned

/-- Hand-over: at every snapshot every accepted event is in the pipeline (see `snapOk`). -/
def handoverOk (cap : Nat) (o : Obs) : Bool := o.snaps.all (snapOk cap)

/-- Full-strength Spec for one observed run (a run always ends with Close). `cap` is the
    capacity of the hand-over channel of the writer that was run. -/
def Spec (bm cap : Nat) (prods : List Producer) (o : Obs) : Bool :=
  safeOk bm prods o && flushOk o && closeOk o && handoverOk cap o

/-! ## the registry of the core: the per-writer statements are statements about a TOPIC

  What the harness sees of one topic in one epoch of the registry (from the first look-up of the
  topic to the shutdown, core/the/eventwriter.go): which writer every caller was handed at its
  first and at its second look-up (writers numbered by first appearance), which of the writers
  handed out are closed once ClearEventWriters has returned, how many WriteEvent calls of every
  caller have returned, and what the broker had been handed for the topic by then. -/
structure TopicObs where
  first : List Nat
  again : List Nat
  closed : List Bool
  accepted : List Nat
  delivered : List Ev
  deriving Repr, DecidableEq

/-- Every caller of the topic was handed the same writer, at every look-up. -/
def oneWriter (o : TopicObs) : Bool := Registry.allSame (o.first ++ o.again)

/-- Every writer that was handed out has been closed by the shutdown. -/
def allClosed (o : TopicObs) : Bool := o.closed.all id

/-- The property for one topic and one epoch: one pipeline, closed by the shutdown, and what the
    broker has got when the shutdown has completed is every accepted event, once, each caller's
    events in the order it published them. -/
def topicOk (o : TopicObs) : Bool :=
  oneWriter o && allClosed o && orderedOnce o.delivered && allDelivered o.accepted o.delivered

/-- Spec for an observed run of the registry stream: rounds (epochs) of topics. -/
def SpecReg (rounds : List (List TopicObs)) : Bool := rounds.all fun r => r.all topicOk

end Writer
