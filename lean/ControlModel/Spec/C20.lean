/-
  Spec/C20 — the property as decidable predicates over (input, what the implementation did).

  "A component configuration query resolves to the first existing entry in the order: exact run type and role, any
   run type with that role, that run type with any role, any/any — and fails when none exists, so a resolved path
   always exists. Query strings parse to exactly the component, run type, role and entry they spell and print back
   unchanged (surrounding blanks aside), malformed ones are rejected, and the payload returned for an entry is that
   entry's content templated with exactly the variables supplied."

  The predicates are written against the PROPERTY's vocabulary (`specCandidates`, `renderVerbatim`, `print q = trim s`),
  not against the step-by-step model of the code (`resolve`, `render`, `matchFull`); Props/C20 proves that the model
  of the code as it is satisfies them (for histories: on which histories it does).
-/
import ControlModel.Model.Query
import ControlModel.Model.QueryConc

namespace Spec.C20
open Query

/-! ## observations -/

inductive Resolved where
  | ok (q : Query) (raw : Str)
  | unresolved
  | other
  deriving Repr

structure LookupObs where
  probes : List Str
  resolved : Resolved
  get : Payload      -- GetComponentConfiguration(resolved)
  getq : Payload     -- GetComponentConfiguration(query)
  proc : Payload     -- GetAndProcessComponentConfiguration(resolved, vars), fresh service
  deriving Repr

inductive FullObs where
  | ok (q : Query) (raw path absraw : Str)
  | badKey
  | other
  deriving Repr

structure ParseObs where
  full : FullObs
  deriving Repr

/-! ## resolution -/

/-- first candidate, in the property's order, that exists -/
def firstExisting (ex : Str → Bool) (q : Query) : Option Query :=
  (specCandidates q).find? (fun c => ex (absRaw c))

/-- "resolves to the first existing entry in the order …, fails when none exists, a resolved path always exists" -/
def resolutionOk (ex : Str → Bool) (q : Query) (r : Resolved) : Bool :=
  match r, firstExisting ex q with
  | .ok got raw, some want => got == want && raw == print want && ex (absRaw got)
  | .unresolved, none => true
  | _, _ => false

/-! ## payload -/

/-- "the payload returned for an entry is that entry's content": a returned payload is the content of the entry the
    query names, and an entry that is a value is returned. -/
def payloadOk (t : List Leaf) (q : Query) (p : Payload) : Bool :=
  match p, yamlGet t (absRaw q) with
  | .ok s, some content => s == content
  | .ok _, none => false
  | .err _, some _ => false
  | .err _, none => true
  | _, _ => false

/-- the five characters pongo2's autoescaping rewrites (only the hypothesis of the theorems that speak about ANY
    configuration, the legacy one included; the code as it is substitutes every value as supplied) -/
def escapeFree (s : Str) : Bool := s.all fun c => !(c == '&' || c == '<' || c == '>' || c == '"' || c == '\'')

/-- names occurring in a template of the fragment -/
def varNames : List Seg → List Str
  | [] => []
  | .var n :: rest => n :: varNames rest
  | .text _ :: rest => varNames rest

/-- "…templated with exactly the variables supplied": for content in the modelled fragment and context keys pongo2
    accepts, the processed payload is the content with every `{{ name }}` replaced by the value supplied for `name`
    ("" if none was supplied) and nothing else changed. Outside the fragment no claim is made. -/
def processedOk (t : List Leaf) (q : Query) (vars : List (Str × Str)) (p : Payload) : Bool :=
  match yamlGet t (absRaw q) with
  | none => match p with | .err _ => true | _ => false
  | some content =>
    match renderVerbatim content vars with
    | none => true
    | some want =>
      if (bindings vars).all (fun kv => validIdent kv.1) then
        match p with | .ok s => s == want | _ => false
      else match p with | .err _ => true | _ => false

/-- hypothesis of the configuration-independent substitution theorem (`C20_model_meets_spec_partial`): every supplied
    value a template of the entry mentions is free of the characters autoescaping rewrites -/
def valuesEscapeFree (t : List Leaf) (q : Query) (vars : List (Str × Str)) : Bool :=
  match yamlGet t (absRaw q) with
  | none => true
  | some content =>
    match lexTemplate content with
    | none => true
    | some segs => (varNames segs).all fun n => escapeFree (lookup (bindings vars) n)

def lookupOk (t : List Leaf) (q : Query) (vars : List (Str × Str)) (o : LookupObs) : Bool :=
  resolutionOk (yamlExists t) q o.resolved &&
  (match o.resolved with
   | .ok r _ => payloadOk t r o.get && processedOk t r vars o.proc
   | _ => o.get == .dash && o.proc == .dash) &&
  payloadOk t q o.getq

/-- `lookupOk` without the substitution clause -/
def lookupOkButSubstitution (t : List Leaf) (q : Query) (vars : List (Str × Str)) (o : LookupObs) : Bool :=
  resolutionOk (yamlExists t) q o.resolved &&
  (match o.resolved with
   | .ok r _ => payloadOk t r o.get
   | _ => o.get == .dash && o.proc == .dash) &&
  payloadOk t q o.getq

/-! ## query strings -/

/-- "parse to exactly the component, run type, role and entry they spell and print back unchanged (surrounding blanks
    aside), malformed ones are rejected" -/
def parseOk (s : Str) (o : FullObs) : Bool :=
  match o with
  | .ok q raw path absraw =>
    wf q && print q == trim s && raw == trim s && path == trim s && absraw == configComponentsPath ++ trim s
  | .badKey => (parse s).isNone
  | .other => false

/-! ## what the model does, as observations (this is what the driver prints as `modelObs`) -/

def modelLookupObsWith (c : Cfg) (t : List Leaf) (q : Query) (vars : List (Str × Str)) : LookupObs :=
  match resolve (yamlExists t) q with
  | some r => ⟨probes (yamlExists t) q, .ok r (print r), getComponent t r, getComponent t q, processComponentWith c t r vars⟩
  | none => ⟨probes (yamlExists t) q, .unresolved, .dash, getComponent t q, .dash⟩

/-- the observation of the code as it is (what the driver prints) -/
def modelLookupObs (t : List Leaf) (q : Query) (vars : List (Str × Str)) : LookupObs :=
  modelLookupObsWith codeCfg t q vars

def modelFullObs (s : Str) : FullObs :=
  match parse s with
  | some q => .ok q (print q) (print q) (absRaw q)
  | none => .badKey


/-! ## histories: the payload clause on EVERY request of a sequence on one service

  "…the payload returned for an entry is that entry's content templated with exactly the variables supplied" is read
  for each request by itself, against the backend AS IT IS when the request is made: the entry's content (with its
  `include`/`extends` references resolved in that same backend) with every `{{ name }}` replaced by the value THIS
  request supplies for `name` — nothing an earlier request supplied, nothing an earlier state of the backend held. -/

/-- an observed response -/
inductive ObsItem where
  | pay (p : Payload)
  | res (r : Resolved) (p : Payload)
  | dash
  deriving Repr

/-- the entry the query names, linked against the backend `t` (the entry itself is read by its key, the files it
    refers to the way the template loader reads them) -/
def linkedEntry (t : List Leaf) (q : Query) : LinkRes (List Seg) :=
  match yamlGet t (absRaw q) with
  | none => .err "load"
  | some content =>
    (linkContent (linkPath t.length t (basePathOf (print q))) (basePathOf (print q)) content).map flatten

/-- the payload clause for one processed request -/
def templatedOk (t : List Leaf) (q : Query) (vars : List (Str × Str)) (p : Payload) : Bool :=
  match linkedEntry t q with
  | .unmodelled => true
  | .err _ => (match p with | .err _ => true | _ => false)
  | .ok segs =>
    if (bindings vars).all (fun kv => validIdent kv.1) then
      match p with | .ok s => s == renderSegs (fun n => lookup (bindings vars) n) segs | _ => false
    else match p with | .err _ => true | _ => false

/-- every response of a history, each judged against the backend of its moment -/
def seqOk : List Leaf → List Op → List ObsItem → Bool
  | _, [], [] => true
  | t, .proc q vars :: ops, .pay p :: os => templatedOk t q vars p && seqOk t ops os
  | t, .rproc q vars :: ops, .res r p :: os =>
    resolutionOk (yamlExists t) q r &&
    (match r with
     | .ok rq _ => templatedOk t rq vars p
     | _ => p == .dash) && seqOk t ops os
  | t, .get q :: ops, .pay p :: os => payloadOk t q p && seqOk t ops os
  | t, .inval :: ops, .dash :: os => seqOk t ops os
  | t, .put key content :: ops, .dash :: os => seqOk (putLeaf t key content) ops os
  | t, .del key :: ops, .dash :: os => seqOk (delLeaf t key) ops os
  | _, _, _ => false

/-- every query of the history could have been spelled as a query string -/
def opsWf : List Op → Bool
  | [] => true
  | .proc q _ :: r => wf q && opsWf r
  | .rproc q _ :: r => wf q && opsWf r
  | _ :: r => opsWf r

def obsOfResp : Resp → ObsItem
  | .pay p => .pay p
  | .res (some r) p => .res (.ok r (print r)) p
  | .res none p => .res .unresolved p
  | .dash => .dash

/-- what the model answers to a history on one service that starts fresh (printed by the driver as `modelObs`) -/
def modelSeqObs (t : List Leaf) (ops : List Op) : List ObsItem := (run (freshSvc t) ops).map obsOfResp

/-! ## concurrent requests on one service over an unchanged configuration

  The property's clauses are read for EACH answer by itself, whatever else the service was doing at the time: a
  resolution must name the most specific existing entry of the (unchanged) backend, a payload must be the named entry's
  content, a processed payload that content templated with this request's variables. -/

/-- one answer to one request -/
def reqOk (t : List Leaf) : Req → ObsItem → Bool
  | .res q, .res r p => resolutionOk (yamlExists t) q r && p == .dash
  | .get q, .pay p => payloadOk t q p
  | .rget q, .res r p =>
    resolutionOk (yamlExists t) q r &&
    (match r with
     | .ok rq _ => payloadOk t rq p
     | _ => p == .dash)
  | .proc q vars, .pay p => templatedOk t q vars p
  | .rproc q vars, .res r p =>
    resolutionOk (yamlExists t) q r &&
    (match r with
     | .ok rq _ => templatedOk t rq vars p
     | _ => p == .dash)
  | _, _ => false

/-- what was observed for one request: its answer when issued alone, and the distinct answers it received while the
    other requests were in flight -/
structure ConcObs where
  alone : ObsItem
  conc : List ObsItem
  deriving Repr

/-- every answer to every request satisfies the property, and every request was answered -/
def concOk (t : List Leaf) : List Req → List ConcObs → Bool
  | [], [] => true
  | rq :: rs, o :: os => reqOk t rq o.alone && !o.conc.isEmpty && o.conc.all (reqOk t rq) && concOk t rs os
  | _, _ => false

/-- every query could have been spelled as a query string -/
def reqWf : Req → Bool
  | .res q => wf q
  | .get q => wf q
  | .rget q => wf q
  | .proc q _ => wf q
  | .rproc q _ => wf q

/-- what the model answers (printed by the driver as `modelObs`): for every request its sequential answer, and that
    answer again as the only one it can receive under concurrency -/
def modelConcObs (t : List Leaf) (reqs : List Req) : List ConcObs :=
  reqs.map fun rq => ⟨obsOfResp (rq.answer t), [obsOfResp (rq.answer t)]⟩

end Spec.C20
