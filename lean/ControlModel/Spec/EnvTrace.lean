/-
  Spec/EnvTrace — what the harness observes of a real Environment (an `ITrace`),
  the projection of the model's steps onto the same alphabet, and the MONITOR
  that decides whether an observed trace is one the model allows.

  Probe calls run in their own goroutines, so their position in the global
  order is only constrained, not fixed:
    * a call's entry (XS) comes after the main-flow event that precedes its
      `start` step, its exit (XE) before the main-flow event that follows its
      `await` step (if it is ever awaited);
    * if A is awaited before B is started, A's exit precedes B's entry.
  Everything else (main-flow events, results, states, variables, pending
  calls) must be equal — including the last record of a trace, `quiesce n`:
  when every call has returned, n results are still held by their call
  goroutines, neither collected at an await point nor cancelled by a teardown;
  the model predicts `(uncollected finalEnv).length`.
-/
import ControlModel.Model.Env

namespace EnvM

inductive IRes where
  | ok
  | err (cls : String) (hs : List (Nat × String))
  deriving Repr, BEq, Inhabited

inductive IEv where
  | mark (name : String) (fin : Bool)
  | xs (h k : Nat)
  | xe (h k : Nat) (fails : Bool) (snap : Vars) (st : String)
  | tasks (is : List (Nat × Nat × Bool))
  | body (e : String)
  | runEvent (tr status : String) (rn t : Nat)
  | reqEnd (res : IRes) (st : String) (rn : Nat) (vars : Vars) (pending : List (String × Int × Nat)) (gone : Bool)
  /-- end of the case, every call has returned: `n` results are held by their call goroutine,
      neither collected at an await point nor cancelled by a teardown -/
  | quiesce (n : Nat)
  /-- overlapping pair `(P q1 q2)`, recorded while q1 is parked inside its critical section (it holds the
      transition mutex): `how` = what the second caller was seen doing (`queued` on the transition mutex,
      `returned`, blocked `elsewhere`), `st0`/`st1` = the state the environment reported before the second
      caller was issued / after that sighting. Not a main-flow item: judged on its own (`overlapsOf`). -/
  | overlap (how st0 st1 : String)
  /-- pair `(P q1 q2 holdMs)`: the second sighting, `holdMs` after the first, q1's gate still closed (the
      command of its task phase still unanswered): `first` = `inside` | `returned` (has q1 returned to its
      caller?), `second` = `queued` | `returned` | `inside` (q2 got into its critical section) | `elsewhere`,
      `st` = the state reported then. Not a main-flow item. -/
  | held (first second st : String)
  /-- the command of a real body of `e` reached the task manager while `n` earlier commands of the
      environment were still unanswered: two task phases at a time. Never predicted by the model. -/
  | bodyOverlap (e : String) (n : Nat)
  deriving Repr, BEq, Inhabited

abbrev ITrace := List IEv

def IEv.isCall : IEv → Bool
  | .xs .. => true
  | .xe .. => true
  | _ => false

def IEv.isOverlap : IEv → Bool
  | .overlap .. => true
  | _ => false

/-- the records about overlapping requests: judged on their own (`monitorParH`), not main-flow items -/
def IEv.isSide : IEv → Bool
  | .overlap .. => true
  | .held .. => true
  | .bodyOverlap .. => true
  | _ => false

/-! ### model → observable alphabet -/

def Result.toIRes : Result → IRes
  | .ok => .ok
  | .illegal => .err "illegal" []
  | .cancelledHooks n m => .err "hooks" [(n, m.name)]
  | .cancelledBody => .err "body" []
  | .cancelledRn => .err "rn" []
  | .reported errs => .err "hooks" (errs.map fun (n, m) => (n, m.name))
  | .teardownRefused => .err "refused" []
  | .releaseFailed => .err "release" []
  | .notFound => .err "notfound" []

def RunStatus.name : RunStatus → String
  | .started => "STARTED" | .doneOk => "DONE_OK" | .doneError => "DONE_ERROR"

/-- insertion sort of pending entries by (name, weight), as the harness prints them -/
def insertPending (p : String × Int × Nat) : List (String × Int × Nat) → List (String × Int × Nat)
  | [] => [p]
  | q :: qs => if p.1 < q.1 ∨ (p.1 = q.1 ∧ p.2.1 < q.2.1) then p :: q :: qs else q :: insertPending p qs

def pendingObs (env : Env) : List (String × Int × Nat) :=
  (env.pending.filter (fun p => !p.2.isEmpty)).foldl (fun acc p => insertPending (p.1.1.name, p.1.2, p.2.length) acc) []

def insertInst (i : Nat × Nat × Bool) : List (Nat × Nat × Bool) → List (Nat × Nat × Bool)
  | [] => [i]
  | j :: js => if i.1 < j.1 then i :: j :: js else j :: insertInst i js

/-- A model item: a main-flow observable, or a call-scheduling step. -/
inductive MItem where
  | obs (e : IEv)
  | start (is : List Inst)
  | await (is : List Inst)
  | sync (i : Inst)
  deriving Repr

def stepItems : Step → List MItem
  | .mark n f => [.obs (.mark n f)]
  | .start _ _ is => [.start is]
  | .await _ _ is => [.await is]
  | .tasks _ _ is => [.obs (.tasks (is.foldl (fun acc i => insertInst (i.hook, i.k, i.fails) acc) []))]
  | .callSync _ _ i => [.sync i]
  | .body e _ => [.obs (.body e.name)]
  | .runEvent tr s rn t => [.obs (.runEvent tr s.name rn t)]
  | _ => []

def reqItems (r : List Step × Result × Env) : List MItem :=
  (r.1.map stepItems).flatten ++
    [.obs (.reqEnd r.2.1.toIRes r.2.2.st.name r.2.2.rn r.2.2.vars (pendingObs r.2.2) r.2.2.gone)]

/-- The calls whose result is still waiting to be collected: started, registered under their
    await expression, not yet awaited there and not cancelled by a teardown. -/
def uncollected (env : Env) : List Inst :=
  (allPending env).filter fun i => !isCancelled env i

/-- What is left when the case ends. -/
def endItems (rs : List (List Step × Result × Env)) : List MItem :=
  [.obs (.quiesce (uncollected ((rs.getLast?.map (·.2.2)).getD {})).length)]

def modelItems (hooks : List Hook) (nTasks : Nat) (reqs : List Req) : List MItem :=
  ((runSeq hooks nTasks {} reqs).map reqItems).flatten ++ endItems (runSeq hooks nTasks {} reqs)

/-- The same for request lists with overlapping pairs. -/
def modelItemsPar (hooks : List Hook) (nTasks : Nat) (reqs : List PReq) : List MItem :=
  ((runPar hooks nTasks {} reqs).map reqItems).flatten ++ endItems (runPar hooks nTasks {} reqs)

/-! ### timestamp canonicalisation -/

def TV.ts : TV → List Nat
  | .val t => [t]
  | _ => []

def Vars.tss (v : Vars) : List Nat := v.sosor.ts ++ v.eosor.ts ++ v.soeor.ts ++ v.eoeor.ts

def IEv.tss : IEv → List Nat
  | .runEvent _ _ _ t => [t]
  | .reqEnd _ _ _ v _ _ => v.tss
  | .xe _ _ _ v _ => v.tss
  | _ => []

def insertNat (w : Nat) : List Nat → List Nat
  | [] => [w]
  | x :: xs => if w < x then w :: x :: xs else if w = x then x :: xs else x :: insertNat w xs

def rankOf (pool : List Nat) (t : Nat) : Nat := (pool.takeWhile (· < t)).length

def TV.rank (pool : List Nat) : TV → TV
  | .val t => .val (rankOf pool t)
  | x => x

def Vars.rank (pool : List Nat) (v : Vars) : Vars :=
  { v with sosor := v.sosor.rank pool, eosor := v.eosor.rank pool, soeor := v.soeor.rank pool, eoeor := v.eoeor.rank pool }

def IEv.rank (pool : List Nat) : IEv → IEv
  | .runEvent tr s rn t => .runEvent tr s rn (rankOf pool t)
  | .reqEnd r st rn v p g => .reqEnd r st rn (v.rank pool) p g
  | .xe h k f v st => .xe h k f (v.rank pool) st
  | e => e

def canon (es : List IEv) : List IEv :=
  let pool := (es.map IEv.tss).flatten.foldl (fun acc t => insertNat t acc) []
  es.map (IEv.rank pool)

/-! ### the monitor -/

/-- Scheduling facts about one call instance in the model's main flow. -/
structure CallInfo where
  inst : Inst
  startPos : Nat            -- main-flow observables emitted before its start step
  startIdx : Nat            -- ordinal of its start step among all items
  awaitPos : Option Nat     -- … before its await step (none: never awaited)
  awaitIdx : Option Nat
  deriving Repr

def setAwait (cs : List CallInfo) (i : Inst) (pos idx : Nat) : List CallInfo :=
  cs.map fun c => if c.inst.hook = i.hook ∧ c.inst.k = i.k ∧ c.awaitPos.isNone then { c with awaitPos := some pos, awaitIdx := some idx } else c

/-- Walk the model items, collecting call scheduling facts. -/
def collectCalls : List MItem → (pos idx : Nat) → List CallInfo → List CallInfo
  | [], _, _, acc => acc
  | .obs _ :: rest, pos, idx, acc => collectCalls rest (pos + 1) (idx + 1) acc
  | .start is :: rest, pos, idx, acc =>
      collectCalls rest pos (idx + 1) (acc ++ is.map fun i => { inst := i, startPos := pos, startIdx := idx, awaitPos := none, awaitIdx := none })
  | .await is :: rest, pos, idx, acc =>
      collectCalls rest pos (idx + 1) (is.foldl (fun a i => setAwait a i pos idx) acc)
  | .sync i :: rest, pos, idx, acc =>
      collectCalls rest pos (idx + 1) (acc ++ [{ inst := i, startPos := pos, startIdx := idx, awaitPos := some pos, awaitIdx := some idx }])

def CallInfo.floating (c : CallInfo) : Bool := c.awaitPos != some c.startPos

/-- Where the implementation executed one call. -/
structure CallObs where
  h : Nat
  k : Nat
  xsPos : Nat     -- main-flow observables seen before XS
  xsSeq : Nat     -- global sequence number of XS
  xePos : Nat
  xeSeq : Nat
  ev : IEv        -- the XE record
  deriving Repr

def collectObs : ITrace → (pos seq : Nat) → (open_ : List (Nat × Nat × Nat × Nat)) → List CallObs → Option (List CallObs)
  | [], _, _, [], acc => some acc
  | [], _, _, _ :: _, _ => none          -- an XS without XE
  | .xs h k :: rest, pos, seq, op, acc => collectObs rest pos (seq + 1) ((h, k, pos, seq) :: op) acc
  | .xe h k f v st :: rest, pos, seq, op, acc =>
      match op.find? (fun o => o.1 = h ∧ o.2.1 = k) with
      | none => none
      | some o =>
        collectObs rest pos (seq + 1) (op.filter (fun o' => ¬ (o'.1 = h ∧ o'.2.1 = k)))
          (acc ++ [{ h := h, k := k, xsPos := o.2.2.1, xsSeq := o.2.2.2, xePos := pos, xeSeq := seq, ev := .xe h k f v st }])
  | .overlap .. :: rest, pos, seq, op, acc => collectObs rest pos (seq + 1) op acc     -- not a main-flow item
  | .held .. :: rest, pos, seq, op, acc => collectObs rest pos (seq + 1) op acc
  | .bodyOverlap .. :: rest, pos, seq, op, acc => collectObs rest pos (seq + 1) op acc
  | _ :: rest, pos, seq, op, acc => collectObs rest (pos + 1) (seq + 1) op acc

def findObs (os : List CallObs) (h k : Nat) : Option CallObs := os.find? (fun o => o.h = h ∧ o.k = k)

def modelMain (items : List MItem) : List IEv := items.filterMap fun | .obs e => some e | _ => none

/-- The non-floating calls' XE records the model predicts, ordered by (hook, k). -/
def insertXe (c : CallInfo) : List CallInfo → List CallInfo
  | [] => [c]
  | d :: ds => if c.inst.hook < d.inst.hook ∨ (c.inst.hook = d.inst.hook ∧ c.inst.k < d.inst.k) then c :: d :: ds else d :: insertXe c ds

def fixedCalls (cs : List CallInfo) : List CallInfo :=
  (cs.filter (fun c => !c.floating)).foldl (fun acc c => insertXe c acc) []

/-- First reason why the observed trace is not one the model allows; `none` = accepted. -/
def monitorItems (items : List MItem) (tr : ITrace) : Option String :=
  let calls := collectCalls items 0 0 []
  match collectObs tr 0 0 [] [] with
  | none => some "unbalanced probe entry/exit records"
  | some obs =>
    let fixed := fixedCalls calls
    let mAll := canon (modelMain items ++ fixed.map fun c => .xe c.inst.hook c.inst.k c.inst.fails c.inst.snap c.inst.st.name)
    let iFixed := fixed.filterMap fun c => (findObs obs c.inst.hook c.inst.k).map (·.ev)
    let iAll := canon (tr.filter (fun e => !e.isCall && !e.isSide) ++ iFixed)
    if obs.length != calls.length then
      some s!"model executes {calls.length} calls, implementation {obs.length}"
    else if iFixed.length != fixed.length then some "a call the model executes was not observed"
    else if mAll != iAll then
      -- name the first differing item
      let rec firstDiff : List IEv → List IEv → Nat → String
        | a :: as, b :: bs, n => if a == b then firstDiff as bs (n + 1) else s!"item {n}: model {repr a} vs implementation {repr b}"
        | [], b :: _, n => s!"item {n}: implementation has extra {repr b}"
        | a :: _, [], n => s!"item {n}: model has extra {repr a}"
        | [], [], _ => "?"
      some (firstDiff mAll iAll 0)
    else
      -- windows
      let badWindow := calls.find? fun c =>
        match findObs obs c.inst.hook c.inst.k with
        | none => true
        | some o => o.xsPos < c.startPos || (match c.awaitPos with | some a => o.xePos > a | none => false)
      match badWindow with
      | some c => some s!"call {c.inst.hook}#{c.inst.k} ran outside its [trigger, await] window"
      | none =>
        -- happens-before between calls
        let badOrder := calls.find? fun a =>
          match a.awaitIdx, findObs obs a.inst.hook a.inst.k with
          | some ai, some oa =>
            calls.any fun b =>
              match findObs obs b.inst.hook b.inst.k with
              | some ob => ai < b.startIdx && !(oa.xeSeq < ob.xsSeq)
              | none => false
          | _, _ => false
        match badOrder with
        | some a => some s!"call {a.inst.hook}#{a.inst.k} was awaited before a later call started, yet finished after that call began"
        | none => none

def monitor (hooks : List Hook) (nTasks : Nat) (reqs : List Req) (tr : ITrace) : Option String :=
  monitorItems (modelItems hooks nTasks reqs) tr

/-! ### overlapping pairs: what happens while the first request is inside its critical section -/

/-- A gate point of the harness: the step at which the first request of a pair is parked INSIDE its
    critical section (the scripted body of a transition, the first release round of a teardown). -/
def Step.isGate : Step → Bool
  | .body .. => true
  | .release .. => true
  | _ => false

/-- What the model predicts for every pair whose first request gets as far as a gate point: the second
    caller queues on the transition mutex, and the state does not move while the first is in there — it
    is still the one the first request found (`C01_nothing_happens_while_held`: every move of a caller
    that has not been inside the mutex yet is disabled while another caller holds it). -/
def overlapItems (hooks : List Hook) (nTasks : Nat) : Env → List PReq → List IEv
  | _, [] => []
  | env, .one q :: qs => overlapItems hooks nTasks (step hooks nTasks env q).1 qs
  | env, .par a b :: qs =>
    let r1 := step hooks nTasks env a
    let r2 := stepHeld hooks nTasks (!env.gone) r1.1 b
    (if r1.2.1.any Step.isGate then [IEv.overlap "queued" env.st.name env.st.name] else []) ++
      overlapItems hooks nTasks r2.1 qs

def overlapsOf (tr : ITrace) : List IEv := tr.filter IEv.isOverlap

def monitorPar (hooks : List Hook) (nTasks : Nat) (reqs : List PReq) (tr : ITrace) : Option String :=
  match monitorItems (modelItemsPar hooks nTasks reqs) tr with
  | some why => some why
  | none =>
    let m := overlapItems hooks nTasks {} reqs
    if overlapsOf tr == m then none
    else some s!"overlapping pairs: model {repr m} vs implementation {repr (overlapsOf tr)}"

/-! ### pairs whose first request has a SLOW task phase: `(P q1 q2 holdMs)`

  `holds` runs parallel to the request list (0 / missing = no hold). For a pair with a hold whose first
  request gets as far as a gate point the model predicts, besides the first sighting, the second one: the
  first request is still inside (its command is unanswered: `Transition.do` has not returned, and
  handlerFunc waits for it for as long as it takes — `C01_task_phase_is_synchronous_is_code`), the second
  still queues, the state has not moved (`C01_task_phases_never_overlap`: under every schedule a caller whose
  task phase is open holds the mutex, so nobody else is carried out). A second command in flight
  (`IEv.bodyOverlap`) is never predicted. -/
def overlapItemsH (hooks : List Hook) (nTasks : Nat) : Env → List PReq → List Nat → List IEv
  | _, [], _ => []
  | env, .one q :: qs, hs => overlapItemsH hooks nTasks (step hooks nTasks env q).1 qs hs.tail
  | env, .par a b :: qs, hs =>
    let r1 := step hooks nTasks env a
    let r2 := stepHeld hooks nTasks (!env.gone) r1.1 b
    (if r1.2.1.any Step.isGate then
       [IEv.overlap "queued" env.st.name env.st.name] ++
         (if hs.headD 0 > 0 then [IEv.held "inside" "queued" env.st.name] else [])
     else []) ++
      overlapItemsH hooks nTasks r2.1 qs hs.tail

def sidesOf (tr : ITrace) : List IEv := tr.filter IEv.isSide

/-- `monitorPar` for request lists whose pairs may carry a hold; without holds and on traces without the new
    records it is `monitorPar`. -/
def monitorParH (hooks : List Hook) (nTasks : Nat) (reqs : List PReq) (holds : List Nat) (tr : ITrace) : Option String :=
  match monitorItems (modelItemsPar hooks nTasks reqs) tr with
  | some why => some why
  | none =>
    let m := overlapItemsH hooks nTasks {} reqs holds
    if sidesOf tr == m then none
    else some s!"overlapping pairs: model {repr m} vs implementation {repr (sidesOf tr)}"

end EnvM
