/-
  Spec/OwnView — what can be observed of the ownership state, for the model
  (`viewOf`) and for the real core alike (the harness prints the same rows from
  GetEnvironments / GetTasks / GetTask / GetActiveDetectors and the simulated
  master's task table). Spec.C04 and Spec.C06 are predicates over views.
-/
import ControlModel.Model.Own

namespace Own

structure EnvRow where
  env : EnvId
  state : EState
  dets : List Det
  tasks : List TaskId
  tearing : Bool           -- a teardown of it was seen to hang (the harness knows from the call that never returned)
  deriving DecidableEq, Repr, Inhabited

structure RosterRow where
  task : TaskId
  owner : Option EnvId     -- GetTask.envId: environment of the parent role
  locked : Bool
  state : Option TState    -- role state, reported for locked tasks
  deriving DecidableEq, Repr, Inhabited

structure MRow where
  task : TaskId
  label : EnvId
  mesos : Mesos
  killed : Bool
  deriving DecidableEq, Repr, Inhabited

structure View where
  envs : List EnvRow := []
  roster : List RosterRow := []
  dets : List Det := []                    -- GetActiveDetectors
  master : List MRow := []
  calls : List (EnvId × Nat × Nat) := []   -- environment, pending calls started, cancelled
  crashed : Bool := false
  deriving DecidableEq, Repr, Inhabited

def viewOf (s : State) : View :=
  { envs := s.envs.map (fun E => { env := E.id, state := E.state, dets := E.dets, tasks := E.tasks, tearing := E.tearing }),
    roster := s.roster.map (fun t => { task := t.id, owner := t.parent, locked := t.isLocked,
                                       state := if t.isLocked then some t.state else none }),
    dets := s.activeDets,
    master := s.master.map (fun m => { task := m.id, label := m.label, mesos := m.mesos, killed := m.killed }),
    calls := s.envs.map (fun E => (E.id, E.started, E.cancelled)) ++ s.dead,
    crashed := s.crashed }

end Own
