/- Driver for C01 (stub). -/
import ControlModel.Basic

namespace Driver.C01

def processLine (_line : String) : String := "UNIMPLEMENTED\t0\t-"

end Driver.C01
