/- Driver for C01 (monitor + Spec.C01 on the observed trace). -/
import Driver.EnvCommon
import ControlModel.Spec.C01

namespace Driver.C01
open EnvM Driver.EnvCommon

def processLine (line : String) : String :=
  processWith (fun i tr => specC01P i.preqs tr) line

end Driver.C01
