/-
  Driver for C02: line = "scenario<TAB>implObs"; see harness/props/c02/run.go for both formats.

  The model judged with is `Cfg.code` — the code as it is, the repairs of notes/C02.fix-{1,2,3,5,6}.patch included
  (input prefix `legacy`: `(legacy (wf …) …)` evaluates the code as it was; by hand only). `hyp` is `Trans.judge`'s
  verdict: it names only the two open DEPLOY corners (deploy_misses_active = a TASK_RUNNING update that overtakes the
  roster, deploy_noncritical_blocks); a violation anywhere else — in particular in one of the repaired corners — is
  "-", i.e. a plain VIOLATION.

  Four things the environment decides, not the input, are inferred from what the implementation did
  (the model is evaluated for each choice and the first one that reproduces the observation is printed):
    * lossy — when a MESSAGE call of a command failed (`undeliv`), the core's scheduler client drops its
      subscription, so replies of the other targets that had not arrived yet are lost: those targets then
      behave as `silent` (every such assignment is covered by the theorems, which quantify over all outcomes);
    * unsent — in the same situation the MESSAGE calls of co-targets that had not been issued yet fail inside the
      scheduler client: the master never sees them (they are missing from the observed command set) and the core
      treats them as undeliverable; only considered for the request with the `undeliv` script (always the last one
      observed) and only for targets the master did not see;
    * early — TASK_RUNNING updates that overtake the roster (`Launch.okEarly`); only considered when the harness
      attests that every task was running and acknowledged by the core well before DEPLOY gave up AND that by the
      core's own account (its time-out error lists the roles that are not ACTIVE) some role was not ACTIVE then
      (`running-acked`). When that account lists NO such role the atom is `active-unseen` instead: DEPLOY gave up with
      every role ACTIVE — the former mechanism (b) of deploy_misses_active (the dropped "root is ACTIVE" notification,
      `Workflow.notifyLost`), repaired by `fix: DEPLOY cannot miss that the workflow became active`. The model of the
      code as it is never answers that atom (`C02_active_never_unseen_code`; where the loop is when the root becomes
      ACTIVE makes no difference to it: `C02_deploy_heard_code`), `judge` does not name the corner: a regression is a
      disagreement and a plain VIOLATION. (The choice `notifyLost` is still tried: it explains `active-unseen` for the
      `legacy` prefix, by hand.)
    * watcherFirst — see `Trans.controlRpc`; only possible when a critical target went to ERROR / died in a
      command that some target keeps waiting for its time-out, or when the executor / agent of a critical live task
      was lost during the request (`Trans.controlStep`: the state in the reply of a request that succeeded).

  Offers that come late: an optional second element `(offers (h…) (h…) …)` lists, per offers round after DEPLOY revived
  offers, the hosts whose offer is missing (Model/DeployAttempts.lean). The model's acquireTasks (`Trans.acquire
  AcqCfg.code`) is run first; everything else — the environment choices above included — is evaluated on the workflow it
  leaves behind, the NewEnvironment observation carries the attempts `(att (i…) …)`, and the verdict is `Trans.judgeO`
  (the workflow as offered in the last round that took place, plus the clause about the attempts). Which offers round
  is over before acquireTasks is at its receive (`OWorkflow.notListening`) is NOT inferred: for the code as it is it makes
  no difference (`C02_listening_irrelevant_code` — the channel keeps the verdict, `fix: acquireTasks cannot miss the
  verdict of its offers round`). The harness still looks for the picture of the former finding deploy_verdict_lost
  (goroutine dump: acquireTasks parked at its receive after the request failed; atom `verdict-lost` in the NewEnvironment
  observation, with or without an `offers` element); the model never answers that atom, so such a run is a disagreement,
  and `judge` / `judgeO` do not name the corner: a regression is a plain VIOLATION.

  Executor / agent loss: an outcome may be written `(xfail BASE WHEN UPD)` / `(afail BASE WHEN UPD)` (BASE = ok | stay |
  err | silent, WHEN = before | after, UPD = 1 | 0): the executor / agent of that task is lost while the command is
  outstanding. The core runs one executor per agent, so every task on the same host is hit; tasks on that host without
  a mark of their own are hit after their reply (`collateral`). The set of tasks hit is part of the observation
  (`(lost i …)`, from the master's task table) and of the model's answer.

  WHEN an answer comes: an outcome may be written `(late BASE D)` (BASE = ok | stay | err, D in ms) — the task does BASE
  D ms after it got the command; only in the LAST step of a scenario, not together with loss marks. The model settles it
  with the time-out the code gives that target (`Trans.targetDeadline DlCfg.code`: the per-target copy's), the verdict with
  the time the transition allows (`Trans.allowed`); the environment choices above are applied to both. Every observed
  request ends in `(dl d …)`: the `ResponseTimeout` (ms) of the command the master saw go to each commanded task
  (parallel to the command list); the model answers with what `CommandQueue.commit` gives each target, and
  `Trans.judgeDl` demands that it is the time allowed.
-/
import ControlModel.Model.Transition
import ControlModel.Model.Deadline
import ControlModel.Spec.C02

namespace Driver.C02
open Trans EnvM

def parseOutcome : SExp → Option Outcome
  | .atom "ok" => some .ok
  | .atom "-" => some .ok
  | .atom "stay" => some .errorReplyStaySrc
  | .atom "err" => some .errorReplyToError
  | .atom "undeliv" => some .undeliverable
  | .atom "silent" => some .silent
  | .atom "dies" => some .dies
  | _ => none

def parseLaunch : SExp → Option Launch
  | .atom "ok" => some .ok
  | .atom "dies" => some .dies
  | .atom "silent" => some .silent
  | .atom "nohost" => some .nohost
  | _ => none

def parseTask : SExp → Option ((Bool × Launch) × String)
  | .list [c, .atom _mode, .atom host, l] => do pure (((← c.bool?), (← parseLaunch l)), host)
  | _ => none

/-- An outcome, possibly with a loss mark of its own. -/
def parseMarked : SExp → Option (Outcome × Option Loss)
  | .list [.atom k, base, .atom w, upd] => do
    let agent ← (if k == "xfail" then some false else if k == "afail" then some true else none)
    let before ← (if w == "before" then some true else if w == "after" then some false else none)
    let o ← parseOutcome base
    if o = .undeliverable ∨ o = .dies then none else
    pure (o, some { agent := agent, withUpdate := ← upd.bool?, before := before })
  | x => do pure ((← parseOutcome x), none)

/-- An outcome with its delay: `(late BASE D)`, or anything `parseMarked` reads (at once). -/
def parseTimed : SExp → Option (TOutcome × Option Loss)
  | .list [.atom "late", base, d] => do
    let o ← parseOutcome base
    if !o.replies then none else pure ({ base := o, delay := ← d.nat? }, none)
  | x => do
    let m ← parseMarked x
    pure ({ base := m.1, delay := 0 }, m.2)

/-- One executor per agent: the mark of a task hits every task on its host; the others are hit after their reply. -/
def collateral (hosts : List String) (ms : List (Option Loss)) : List (Option Loss) :=
  let marked := hosts.zip ms
  marked.map (fun p =>
    match p.2 with
    | some l => some l
    | none =>
      match marked.find? (fun q => q.1 == p.1 && q.2.isSome) with
      | some q => q.2.map (fun l => { l with before := false })
      | none => none)

def parseStep (hosts : List String) : SExp → Option TStep
  | .list (.atom "DIE" :: outs) => do
    if outs.length ≠ hosts.length then none else pure (.die (← outs.mapM? parseOutcome))
  | .list (.atom e :: outs) => do
    if outs.length ≠ hosts.length then none else
    let ms ← outs.mapM? parseTimed
    let ls := ms.map (·.2)
    -- no delayed answer in a request with a loss (the harness does not script the two together)
    if ls.any (·.isSome) && ms.any (fun m => m.1.delay != 0) then none else
    pure (.ctl (← Ev.parse? e) (ms.map (·.1)) false (if ls.any (·.isSome) then collateral hosts ls else []))
  | _ => none

/-- Some answer of the step is delayed. -/
def TStep.delayed : TStep → Bool
  | .ctl _ outs _ _ => outs.any (fun o => o.delay != 0)
  | .die _ => false

/-- "h1" → 1, "h2" → 2. -/
def hostNum (h : String) : Nat := ((h.drop 1).toNat?).getD 0

def parseRound : SExp → Option Round
  | .list hs => hs.mapM? (fun h => match h with | .atom a => some (hostNum a) | _ => none)
  | _ => none

/-- The offers rounds of a scenario with an `offers` element: host number of every task's role, missing hosts per round. -/
structure Offers where
  hosts : List Nat
  rounds : List Round

def parseScenario (x : SExp) : Option (Cfg × TScenario × Option Offers) :=
  let go (cfg : Cfg) : List SExp → Option (Cfg × TScenario × Option Offers)
    | .list (.atom "wf" :: calls :: tasks) :: rest => do
      let ths ← tasks.mapM? parseTask
      let ts := ths.map (·.1)
      let wf : Workflow := { calls := ← calls.nat?, tasks := ts }
      let (offers, steps) ← (match rest with
        | .list (.atom "offers" :: rs) :: steps => do
          pure (some ({ hosts := ths.map (fun t => hostNum t.2), rounds := ← rs.mapM? parseRound } : Offers), steps)
        | steps => pure (none, steps))
      let ss ← steps.mapM? (parseStep (ths.map (·.2)))
      -- delayed answers only in the last step: what a task that answers after the core gave up is worth to the NEXT
      -- command is not modelled
      if ss.dropLast.any TStep.delayed then none else
      match ss with
      | [] => pure (cfg, { wf := wf, configure := [], steps := [] }, offers)
      -- no loss inside NewEnvironment (the harness does not inject there)
      | .ctl .CONFIGURE outs _ [] :: rest => pure (cfg, { wf := wf, configure := outs, steps := rest }, offers)
      | _ => none
    | _ => none
  match x with
  | .list (.atom "legacy" :: rest) => go Cfg.legacy rest   -- by hand only (probe against a tree without the repairs)
  | .list rest => go Cfg.code rest
  | _ => none

/-- The scenario with its offers rounds, as Model/DeployAttempts has it. -/
def toO (sc : Scenario) (off : Offers) : OScenario :=
  { wf := { calls := sc.wf.calls,
            tasks := (sc.wf.tasks.zip (off.hosts ++ List.replicate (sc.wf.tasks.length - off.hosts.length) 0)).map
              (fun p => { critical := p.1.1, launch := p.1.2, host := p.2 }),
            rounds := off.rounds, notifyLost := sc.wf.notifyLost },
    configure := sc.configure, steps := sc.steps }

def rpcName : Rpc → String
  | .ok => "ok" | .err => "err" | .hang => "hang"

def obsSx (o : Obs) : SExp :=
  let st := SExp.atom (match o.state with | some s => s.name | none => "-")
  let af := SExp.atom (match o.after with | some s => s.name | none => "gone")
  let cmd := SExp.list (o.cmd.map SExp.ofNat)
  match o.ev with
  | none => .list ([.atom "new", .atom (rpcName o.rpc), st, af, cmd] ++ (if o.runningAcked then [.atom "running-acked"] else []) ++
      (if o.activeUnseen then [.atom "active-unseen"] else []) ++
      (match o.att with
       | some att => [.list (.atom "att" :: att.map (fun l => SExp.list (l.map SExp.ofNat)))]
       | none => []) ++ (if o.verdictLost then [.atom "verdict-lost"] else []))
  | some e => .list ([.atom "ctl", .atom e.name, .atom (rpcName o.rpc), st, af, cmd] ++
      (if o.lost.isEmpty then [] else [.list (.atom "lost" :: o.lost.map SExp.ofNat)]))

/-- The observation of a request with the time-outs given to its targets at the end. -/
def tobsSx (o : TObs) : SExp :=
  match obsSx o.obs with
  | .list xs => .list (xs ++ [.list (.atom "dl" :: o.dl.map SExp.ofNat)])
  | x => x

def parseRpc : String → Option Rpc
  | "ok" => some .ok | "err" => some .err | "hang" => some .hang | _ => none

def parseSt (s : String) : Option (Option St) :=
  if s == "-" || s == "gone" then some none else (St.parse? s).map some

def parseAtt : SExp → Option (List (List Nat))
  | .list (.atom "att" :: as) => as.mapM? (fun l => match l with | .list is => is.mapM? SExp.nat? | _ => none)
  | _ => none

/-- The optional elements of a NewEnvironment observation, in their order:
    `[running-acked | active-unseen] [(att …)] [verdict-lost]`. -/
def parseNewFlags (o : Obs) : List SExp → Option Obs
  | [] => some o
  | .atom "running-acked" :: rest =>
    if o.runningAcked || o.activeUnseen || o.att.isSome || o.verdictLost then none
    else parseNewFlags { o with runningAcked := true } rest
  | .atom "active-unseen" :: rest =>
    if o.runningAcked || o.activeUnseen || o.att.isSome || o.verdictLost then none
    else parseNewFlags { o with activeUnseen := true } rest
  | .list (.atom "att" :: as) :: rest =>
    if o.att.isSome || o.verdictLost then none
    else do parseNewFlags { o with att := some (← parseAtt (.list (.atom "att" :: as))) } rest
  | [.atom "verdict-lost"] => if o.verdictLost then none else some { o with verdictLost := true }
  | _ => none

def parseObs : SExp → Option Obs
  | .list (.atom "new" :: .atom r :: .atom s :: .atom a :: .list cmd :: flags) => do
    parseNewFlags { ev := none, rpc := ← parseRpc r, state := ← parseSt s, after := ← parseSt a,
                    cmd := ← cmd.mapM? SExp.nat? } flags
  | .list [.atom "ctl", .atom e, .atom r, .atom s, .atom a, .list cmd] => do
    pure { ev := some (← Ev.parse? e), rpc := ← parseRpc r, state := ← parseSt s, after := ← parseSt a,
           cmd := ← cmd.mapM? SExp.nat? }
  | .list [.atom "ctl", .atom e, .atom r, .atom s, .atom a, .list cmd, .list (.atom "lost" :: lost)] => do
    pure { ev := some (← Ev.parse? e), rpc := ← parseRpc r, state := ← parseSt s, after := ← parseSt a,
           cmd := ← cmd.mapM? SExp.nat?, lost := ← lost.mapM? SExp.nat? }
  | _ => none

/-- An observed request: `parseObs` on everything but the final `(dl …)`. -/
def parseTObs : SExp → Option TObs
  | .list xs =>
    match xs.getLast? with
    | some (.list (.atom "dl" :: ds)) => do
      pure { obs := ← parseObs (.list xs.dropLast), dl := ← ds.mapM? SExp.nat? }
    | _ => none
  | _ => none

/-- Replies lost with the subscription: in a command with an undeliverable target, the targets that would have
    answered count as silent. -/
def lose (outs : List Outcome) : List Outcome :=
  if outs.any (· = .undeliverable) then
    outs.map (fun o => if o = .ok ∨ o = .errorReplyStaySrc ∨ o = .errorReplyToError then .silent else o)
  else outs

/-- Calls lost with the subscription: in a command with an undeliverable target, a co-target whose MESSAGE the master
    never saw (`seen` = the implementation's observed command set) had its call fail in the client: undeliverable too. -/
def unsent (seen : List Nat) (outs : List Outcome) : List Outcome :=
  if outs.any (· = .undeliverable) then
    (indexed outs).map (fun p => if seen.contains p.1 then p.2 else .undeliverable)
  else outs

/-- The outcome scripts of the request behind the k-th observation (0 = the CONFIGURE of NewEnvironment). -/
def reqOuts (sc : Scenario) : Nat → List Outcome
  | 0 => sc.configure
  | k + 1 => go k sc.steps
where go : Nat → List SStep → List Outcome
  | _, [] => []
  | n, .die _ :: r => go n r
  | 0, .ctl _ o _ _ :: _ => o
  | n + 1, .ctl _ _ _ _ :: r => go n r

def mapReq (f : List Outcome → List Outcome) (sc : Scenario) : Nat → Scenario
  | 0 => { sc with configure := f sc.configure }
  | k + 1 => { sc with steps := go k sc.steps }
where go : Nat → List SStep → List SStep
  | _, [] => []
  | n, .die o :: r => .die o :: go n r
  | 0, .ctl e o w ls :: r => .ctl e (f o) w ls :: r
  | n + 1, .ctl e o w ls :: r => .ctl e o w ls :: go n r

/-- The master saw only `seen` of the last request's commands. -/
def restrictLast (seen : List Nat) : List Obs → List Obs
  | [] => []
  | [o] => [{ o with cmd := o.cmd.filter seen.contains }]
  | o :: r => o :: restrictLast seen r

/-- The watcher can only get in first if a critical commanded task went to ERROR (error reply with state ERROR,
    or death) while the command as a whole waits for somebody's time-out — or if a critical live task was lost during
    the request (see `gate`). -/
def watcherPossible (ts : List Target) : Bool :=
  ts.any (fun t => t.1 && (t.2 = .errorReplyToError || t.2 = .dies)) &&
  ts.any (fun t => t.2 = .silent || t.2 = .dies)

def gate (w : Bool) (tasks : List Task) : List SStep → List SStep
  | [] => []
  | .die outs :: rest => .die outs :: gate w (afterCommand tasks outs) rest
  | .ctl e outs _ ls :: rest =>
    .ctl e outs (w && (watcherPossible (targets (pair tasks (effOuts ls outs))) || critLost ls tasks)) ls ::
      gate w (loseTasks ls (afterCommand tasks (effOuts ls outs))) rest

/-- The harness cannot tell which updates overtook the roster: all of them, in the variant. -/
def early (wf : Workflow) : Workflow :=
  { wf with tasks := wf.tasks.map (fun t => if t.2 = .ok then (t.1, .okEarly) else t) }

/-- The DEPLOY loop is elsewhere when the root becomes ACTIVE (nothing follows from it for the code as it is). -/
def unheard (wf : Workflow) : Workflow := { wf with notifyLost := true }

def variant (sc : Scenario) (lossy w : Bool) : Scenario :=
  let conf := if lossy then lose sc.configure else sc.configure
  let steps := if lossy then sc.steps.map (fun s => match s with
      | .ctl e outs f ls => .ctl e (lose outs) f ls
      | s => s) else sc.steps
  let tasks : List Task := sc.wf.tasks.map (fun t => { critical := t.1, active := t.2 = .ok })
  { sc with configure := conf, steps := gate w (afterCommand tasks conf) steps }

/-- What the model prints: the requests with the time-out `CommandQueue.commit` gives each target (the code as it is). -/
def showObs (os : List Obs) : String := toString (SExp.list ((withDeadlines DlCfg.code os).map tobsSx))

/-- The model's observation of a scenario with offers rounds: the attempts go into the NewEnvironment entry. -/
def withAtt (att : Option (List (List Nat))) : List Obs → List Obs
  | o :: os => { o with att := att } :: os
  | [] => []

def processLine (line : String) : String :=
  match SExp.fields line with
  | [inp, impl] =>
    match (SExp.parse inp).bind parseScenario with
    | some (cfg, tsc, offers) =>
      -- delayed answers: the model settles them with the time-out the code gives the target, the verdict with the time
      -- the transition allows; everything below is done to both (`.1` the model's scenario, `.2` the verdict's)
      let scM0 : Scenario := tsc.settle (targetDeadline DlCfg.code)
      let scS0 : Scenario := tsc.settle allowed
      -- offers rounds: the model's acquireTasks first; the rest is evaluated on the workflow it leaves behind
      let acq := offers.map (fun off => acquire AcqCfg.code (toO scM0 off).wf.descs off.rounds)
      let onEff (s : Scenario) : Scenario := match offers, acq with
        | some off, some a => { s with wf := (toO s off).wf.eff a }
        | _, _ => s
      let scM := onEff scM0
      let scS := onEff scS0
      let att := acq.map (·.attempts)
      let runM (c : Scenario) : List Obs := withAtt att (run cfg c)
      let implObs : Option (List TObs) := do (← (← SExp.parse impl).list?).mapM? parseTObs
      let lw := [(false, false), (false, true), (true, false), (true, true)]
      -- the environment choices, as transformations of a scenario
      let choices : List (Scenario → Scenario) :=
        lw.map (fun (l, w) => fun (s : Scenario) => variant s l w) ++
          [fun (s : Scenario) => { s with wf := early s.wf }, fun (s : Scenario) => { s with wf := unheard s.wf }]
      -- calls lost in the client: only for the last observed request, only if it has an undeliverable target
      let lost : List ((Scenario × Scenario) × String) :=
        match implObs with
        | some os =>
          match os.getLast? with
          | some o =>
            let k := os.length - 1
            if (reqOuts scM k).any (· = .undeliverable) then
              lw.map (fun (l, w) =>
                let f := fun (s : Scenario) => variant (mapReq (unsent o.obs.cmd) s k) l w
                ((f scM, f scS), showObs (restrictLast o.obs.cmd (runM (f scM)))))
            else []
          | none => []
        | none => []
      -- (no candidate explains an observation with the atom `verdict-lost`: see the head of the file)
      let outs : List ((Scenario × Scenario) × String) := choices.map (fun f => ((f scM, f scS), showObs (runM (f scM)))) ++ lost
      let dflt := (variant scM false false, variant scS false false)
      let chosen := (outs.find? (fun p => p.2 == impl)).getD (dflt, showObs (runM dflt.1))
      let (spec, hyp) :=
        match implObs with
        | none => (false, "-")
        | some os =>
          let c := chosen.1.2
          let verdict := match offers with
            | none => judgeDl (judge c) os
            | some off =>
              -- the chosen environment choices (requests' outcomes; TASK_RUNNING overtaking; ACTIVE notification
              -- finding the loop elsewhere) on the scenario as written; what was deployed is judged on the last offers
              -- round that took place according to the observed attempts
              let scripts : Workflow :=
                if earlyRunning c.wf.tasks then early scS0.wf else if c.wf.notifyLost then unheard scS0.wf else scS0.wf
              judgeDl (judgeO (toO { wf := scripts, configure := c.configure, steps := c.steps } off)) os
          match verdict with
          | none => (true, "-")
          | some h => (false, h)
      s!"{chosen.2}\t{if spec then 1 else 0}\t{hyp}"
    | none => "BADINPUT\t0\t-"
  | _ => "BADLINE\t0\t-"

end Driver.C02
