/-
  Driver for C02: line = "scenario<TAB>implObs"; see harness/props/c02/run.go for both formats.

  Three things the environment decides, not the input, are inferred from what the implementation did
  (the model is evaluated for each choice and the first one that reproduces the observation is printed):
    * lossy — when a MESSAGE call of a command failed (`undeliv`), the core's scheduler client drops its
      subscription, so replies of the other targets that had not arrived yet are lost: those targets then
      behave as `silent` (every such assignment is covered by the theorems, which quantify over all outcomes);
    * early — TASK_RUNNING updates that overtake the roster (`Launch.okEarly`) and/or the dropped "root is ACTIVE"
      notification (`Workflow.notifyLost`) — the harness cannot tell the two apart; only considered when the harness
      attests that every task was running and acknowledged by the core well before DEPLOY gave up (`running-acked`);
    * watcherFirst — see `Trans.controlRpc`; only possible when a critical target went to ERROR / died in a
      command that some target keeps waiting for its time-out.
-/
import ControlModel.Model.Transition
import ControlModel.Spec.C02

namespace Driver.C02
open Trans EnvM

def parseOutcome : SExp → Option Outcome
  | .atom "ok" => some .ok
  | .atom "-" => some .ok
  | .atom "stay" => some .errorReplyStaySrc
  | .atom "err" => some .errorReplyToError
  | .atom "undeliv" => some .undeliverable
  | .atom "silent" => some .silent
  | .atom "dies" => some .dies
  | _ => none

def parseLaunch : SExp → Option Launch
  | .atom "ok" => some .ok
  | .atom "dies" => some .dies
  | .atom "silent" => some .silent
  | .atom "nohost" => some .nohost
  | _ => none

def parseTask : SExp → Option (Bool × Launch)
  | .list [c, .atom _mode, .atom _host, l] => do pure ((← c.bool?), (← parseLaunch l))
  | _ => none

def parseStep (n : Nat) : SExp → Option SStep
  | .list (.atom "DIE" :: outs) => do
    if outs.length ≠ n then none else pure (.die (← outs.mapM? parseOutcome))
  | .list (.atom e :: outs) => do
    if outs.length ≠ n then none else pure (.ctl (← Ev.parse? e) (← outs.mapM? parseOutcome) false)
  | _ => none

def parseScenario (x : SExp) : Option (Cfg × Scenario) :=
  let go (cfg : Cfg) : List SExp → Option (Cfg × Scenario)
    | .list (.atom "wf" :: calls :: tasks) :: steps => do
      let ts ← tasks.mapM? parseTask
      let wf : Workflow := { calls := ← calls.nat?, tasks := ts }
      let ss ← steps.mapM? (parseStep ts.length)
      match ss with
      | [] => pure (cfg, { wf := wf, configure := [], steps := [] })
      | .ctl .CONFIGURE outs _ :: rest => pure (cfg, { wf := wf, configure := outs, steps := rest })
      | _ => none
    | _ => none
  match x with
  | .list (.atom "fixed" :: rest) => go Cfg.fixed rest
  | .list rest => go Cfg.code rest
  | _ => none

def rpcName : Rpc → String
  | .ok => "ok" | .err => "err" | .hang => "hang"

def obsSx (o : Obs) : SExp :=
  let st := SExp.atom (match o.state with | some s => s.name | none => "-")
  let af := SExp.atom (match o.after with | some s => s.name | none => "gone")
  let cmd := SExp.list (o.cmd.map SExp.ofNat)
  match o.ev with
  | none => .list ([.atom "new", .atom (rpcName o.rpc), st, af, cmd] ++ (if o.runningAcked then [.atom "running-acked"] else []))
  | some e => .list [.atom "ctl", .atom e.name, .atom (rpcName o.rpc), st, af, cmd]

def parseRpc : String → Option Rpc
  | "ok" => some .ok | "err" => some .err | "hang" => some .hang | _ => none

def parseSt (s : String) : Option (Option St) :=
  if s == "-" || s == "gone" then some none else (St.parse? s).map some

def parseObs : SExp → Option Obs
  | .list [.atom "new", .atom r, .atom s, .atom a, .list cmd] => do
    pure { ev := none, rpc := ← parseRpc r, state := ← parseSt s, after := ← parseSt a, cmd := ← cmd.mapM? SExp.nat? }
  | .list [.atom "new", .atom r, .atom s, .atom a, .list cmd, .atom "running-acked"] => do
    pure { ev := none, rpc := ← parseRpc r, state := ← parseSt s, after := ← parseSt a, cmd := ← cmd.mapM? SExp.nat?,
           runningAcked := true }
  | .list [.atom "ctl", .atom e, .atom r, .atom s, .atom a, .list cmd] => do
    pure { ev := some (← Ev.parse? e), rpc := ← parseRpc r, state := ← parseSt s, after := ← parseSt a,
           cmd := ← cmd.mapM? SExp.nat? }
  | _ => none

/-- Replies lost with the subscription: in a command with an undeliverable target, the targets that would have
    answered count as silent. -/
def lose (outs : List Outcome) : List Outcome :=
  if outs.any (· = .undeliverable) then
    outs.map (fun o => if o = .ok ∨ o = .errorReplyStaySrc ∨ o = .errorReplyToError then .silent else o)
  else outs

/-- The watcher can only get in first if a critical commanded task went to ERROR (error reply with state ERROR,
    or death) while the command as a whole waits for somebody's time-out. -/
def watcherPossible (ts : List Target) : Bool :=
  ts.any (fun t => t.1 && (t.2 = .errorReplyToError || t.2 = .dies)) &&
  ts.any (fun t => t.2 = .silent || t.2 = .dies)

def gate (w : Bool) (tasks : List Task) : List SStep → List SStep
  | [] => []
  | .die outs :: rest => .die outs :: gate w (afterCommand tasks outs) rest
  | .ctl e outs _ :: rest =>
    .ctl e outs (w && watcherPossible (targets (pair tasks outs))) :: gate w (afterCommand tasks outs) rest

/-- The harness cannot tell which updates overtook the roster: all of them, in the variant. -/
def early (wf : Workflow) : Workflow :=
  { wf with tasks := wf.tasks.map (fun t => if t.2 = .ok then (t.1, .okEarly) else t), notifyLost := true }

def variant (sc : Scenario) (lossy w : Bool) : Scenario :=
  let conf := if lossy then lose sc.configure else sc.configure
  let steps := if lossy then sc.steps.map (fun s => match s with
      | .ctl e outs f => .ctl e (lose outs) f
      | s => s) else sc.steps
  let tasks : List Task := sc.wf.tasks.map (fun t => { critical := t.1, active := t.2 = .ok })
  { sc with configure := conf, steps := gate w (afterCommand tasks conf) steps }

def showObs (os : List Obs) : String := toString (SExp.list (os.map obsSx))

def processLine (line : String) : String :=
  match SExp.fields line with
  | [inp, impl] =>
    match (SExp.parse inp).bind parseScenario with
    | some (cfg, sc) =>
      let cands := [(false, false), (false, true), (true, false), (true, true)].map (fun (l, w) => variant sc l w)
        ++ [{ sc with wf := early sc.wf }]
      let outs := cands.map (fun c => (c, showObs (run cfg c)))
      let chosen := (outs.find? (fun p => p.2 == impl)).getD (variant sc false false, showObs (run cfg (variant sc false false)))
      let implObs : Option (List Obs) := do (← (← SExp.parse impl).list?).mapM? parseObs
      let (spec, hyp) :=
        match implObs with
        | none => (false, "-")
        | some os =>
          match judge chosen.1 os with
          | none => (true, "-")
          | some h => (false, h)
      s!"{chosen.2}\t{if spec then 1 else 0}\t{hyp}"
    | none => "BADINPUT\t0\t-"
  | _ => "BADLINE\t0\t-"

end Driver.C02
