/- Driver for C02 (stub). -/
import ControlModel.Basic

namespace Driver.C02

def processLine (_line : String) : String := "UNIMPLEMENTED\t0\t-"

end Driver.C02
