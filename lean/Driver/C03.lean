/- Driver for C03 (stub). -/
import ControlModel.Basic

namespace Driver.C03

def processLine (_line : String) : String := "UNIMPLEMENTED\t0\t-"

end Driver.C03
