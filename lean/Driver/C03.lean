/-
  Driver for C03. Line = "(live ((crit host)…) victim kind instant)<TAB>implObs", see
  harness/props/c03. The model is the code AS IT IS (`Failure.codeCfg`: the watcher's channel
  has a buffer of one, the root's state is re-read after every receive; TASK_INTERNAL_ERROR tells
  the task's role ERROR in every environment state and requests STOP_ACTIVITY only for a critical
  task of a RUNNING environment); its observation is
  computed under the wall-clock schedule (`Failure.settle`; the watcher goroutine consumes
  what is put into its channel at once: `Failure.drain` after every constructed step).
  Monitor style only where the real schedule is not determined (racelate, burst): the answer
  is the variant the implementation's observation equals (the first by default).
  An ERROR of the root that never reaches the environment (the former finding
  notify_dropped, fixed) is no variant of the model any more: it is a disagreement with
  spec = 0, i.e. a plain VIOLATION. The same holds for the two former findings about
  TASK_INTERNAL_ERROR (internal_error_ignored_unless_running, internal_error_noncritical_stops_run,
  both fixed): a critical task's internal error that does not end in ERROR, or a non-critical
  one's that changes the environment's state, is reported with hyp `-`.
  Kinds R… with instants drop / dropabrupt: the victim(s) died while the core was cut off
  from the master and the terminal state arrived only as the reconciliation answer after the
  re-subscription; the environment is idle, so the model's input is `fail k` on the deployed
  system (the drop itself and the answers about the surviving tasks — TASK_RUNNING of a task
  that is ACTIVE already — change nothing in the model).
  Instant idle = immediately after the last API call returned. The harness looks at the roles
  right before it injects: `(pending (i…))` in the observation lists the tasks whose role did
  not yet report the live state — the reply that ended the last transition (the creation's
  CONFIGURE, START_ACTIVITY) had been counted, its `go updateTaskState` had not run. That is an
  environment choice the monitor takes from the observation: the model's initial system then
  has those updates in `updq` (roles one state behind), and — ONLY then, and only if a critical
  victim is among them — the watcher goroutine of `subscribeToWfState` may still be
  `Watch.starting`. Variants: the updates run before the failure (the usual picture), after it
  with the watcher subscribed (role overwritten, environment still ERROR), after it with the
  watcher subscribing later (environment stays healthy: spec 0, hyp
  `stale_update_overwrites_error`, theorem `C03_finding_stale_update_overwrites_error`).
  At race / racelate / raceself the harness looks the same way at the tasks that are NOT held
  (their reply to the command in flight was on the stream already): `(pending …)` there lists
  those whose role did not yet report the transition's destination; the model then keeps their
  update in `updq` and may apply it after the failure (the dead task's role then reports the
  destination instead of ERROR; the watcher has subscribed long ago, the environment's end
  state is the model's). With SEVERAL pending updates every split "these before the failure, those
  after it" is offered (each is a schedule of the model: `Label.apply k` in any order).
  The same final picture is reached on the real core with the watcher subscribed when
  `updateTaskState` of the two goroutines interleaves inside `aggregatorRole.updateState` (between
  the root's merge(ERROR) and its `parent.updateState(r.state.get())`) — the model keeps
  `updState` atomic; the late-subscription schedule stands for both. Without `(pending …)`
  none of this is offered: env ≠ ERROR is then a plain VIOLATION as before.
  Burst only, `(again ST)` in the observation (harness/props/c03/again.go): a critical victim did
  not take the environment to ERROR and the harness delivered ONE more failure (TASK_FAILED about
  the victim, alone, after everything had settled); the field is `(again ST TOLD)`: ST = the
  environment's state after that, TOLD = 1 iff the core had published, after the main injection, a
  role event saying that the victim's role went to ERROR (the update happened, and was overwritten
  afterwards — a core that never tells the role, e.g. one that ignores the device event in some
  environment state, shows TOLD = 0 and matches no variant).
  Only then the monitor offers the variant "the failure's update of the role was overwritten by
  the victim's own reply before the root looked" (`Failure.failOneLost`: the code's non-atomic
  `updateTaskState`; the model keeps `updState` atomic, so this is constructed, not a schedule):
  the watcher is still in its loop, so the model's field is `(again ERROR 1)`
  (`C03_overwritten_update_keeps_watcher`). spec = 0 there, hyp `stale_update_overwrites_error`.
  A core whose watcher did receive the ERROR and then did nothing shows the same picture with
  `(again <healthy state>)`: no variant, plain VIOLATION.
  Optional sixth input field = bystander groups `((pos own ((crit host)…))…)`: the roster holds,
  before / after the main environment's tasks, the tasks of another environment that is alive
  (`env`, CONFIGURED) or was destroyed with keepTasks (`loose`: no parent role). The failure
  then goes through `Failure.worldFail codeWalk` on the whole roster (`failW`): the main
  environment is `World.envs[0]` (= `Failure.fail` on its own victims, theorem
  `C03_roster_walk_is_fail`), every live bystander environment settles on its own, and the
  observation gets `(by (G…))` = per group `(env STATE (root …) (roles …))` / `(loose (STATE…))`.
  The spec speaks per environment (`specMain` ∧ `specGroups`): an environment with a failed
  critical task reports ERROR, one without still reports its state.
  Optional last input field `(label L)` (harness/props/c03/label.go; kinds FAILED LOST KILLED
  TERROR FINISHED INTERNAL — the failures announced by ONE message of the task's executor): what
  the `environmentId` label of the messages about the victim names — `stale`: an id no
  environment has (the executor was launched for an earlier environment that is gone), `none`: no
  label at all, `other`: the first live bystander environment (needs an `env` group); absent =
  the victim's own environment. The failure goes through `Failure.worldFailTagged` with that
  label (`labOf`); for the code as it is the label changes nothing (`C03_label_irrelevant_code`,
  tie `C03_internal_env_is_code`), so model observation and spec are those of the same input
  without the field: the victim's environment — the one the task belongs to NOW — ends in
  ERROR, whatever the messages say.
-/
import ControlModel.Model.FailureRoster

namespace Driver.C03
open RoleTree EnvM Failure

structure Task where
  crit : Bool
  host : Nat
  deriving Repr

/-- A bystander group (optional sixth input field, harness/props/c03/bystanders.go): the tasks of
    another environment, created before / after the main one (= standing before / after its tasks
    in the roster), which is either still alive (`env`, CONFIGURED) or was destroyed with keepTasks
    (`loose`: the tasks are in the roster without a parent role). -/
structure Group where
  pos : String   -- before | after
  own : String   -- loose | env
  tasks : List Task
  deriving Repr

structure Scen where
  live : St
  tasks : List Task
  victim : Nat
  kind : Kind
  instant : String
  groups : List Group := []
  label : String := "own"   -- own | stale | none | other: what the `environmentId` label of the victim's messages names
  deriving Repr

def parseTask : SExp → Option Task
  | .list [c, h] => do pure { crit := (← c.bool?), host := (← h.nat?) }
  | _ => none

def parseGroup : SExp → Option Group
  | .list [.atom pos, .atom own, .list ts] => do
    if pos != "before" && pos != "after" then none
    if own != "loose" && own != "env" then none
    let tasks ← ts.mapM? parseTask
    if tasks.isEmpty then none
    pure { pos := pos, own := own, tasks := tasks }
  | _ => none

def parseScen5 (x : SExp) : Option Scen :=
  match x with
  | .list [.atom live, .list ts, v, .atom k, .atom inst] => do
    let l ← St.parse? live
    if l ≠ .CONFIGURED ∧ l ≠ .RUNNING then none
    let tasks ← ts.mapM? parseTask
    let victim ← v.nat?
    let kind ← Kind.parse? k
    if victim ≥ tasks.length ∨ tasks.isEmpty then none
    if !(["idle", "race", "racelate", "raceself", "burst", "drop", "dropabrupt"].contains inst) then none
    -- learnt through reconciliation ⇔ the core was cut off
    if kind.viaReconciliation != (inst == "drop" || inst == "dropabrupt") then none
    pure { live := l, tasks := tasks, victim := victim, kind := kind, instant := inst }
  | _ => none

def parseScenG (x : SExp) : Option Scen :=
  match x with
  | .list [a, b, c, d, e] => parseScen5 (.list [a, b, c, d, e])
  | .list [a, b, c, d, e, .list gs] => do
    let sc ← parseScen5 (.list [a, b, c, d, e])
    let groups ← gs.mapM? parseGroup
    if groups.isEmpty then none
    pure { sc with groups := groups }
  | _ => none

/-- The kinds announced by one message of the task's executor (the messages that carry the label). -/
def labelKind : Kind → Bool
  | .FAILED | .LOST | .KILLED | .TERROR | .FINISHED | .INTERNAL => true
  | _ => false

def withLabel (sc : Scen) (l : String) : Option Scen :=
  if !(["stale", "none", "other"].contains l) then none
  else if !labelKind sc.kind then none
  else if l == "other" && !(sc.groups.any (·.own == "env")) then none
  else some { sc with label := l }

def parseScen (x : SExp) : Option Scen :=
  match x with
  | .list [a, b, c, d, e, .list [.atom "label", .atom l]] => (parseScenG (.list [a, b, c, d, e])).bind (withLabel · l)
  | .list [a, b, c, d, e, g, .list [.atom "label", .atom l]] => (parseScenG (.list [a, b, c, d, e, g])).bind (withLabel · l)
  | _ => parseScenG x

def liveT (l : St) : TState := if l = .RUNNING then .RUNNING else .CONFIGURED

def mkLeaves (ts : TState) : List Task → Forest
  | [] => .nil
  | t :: rest => .leaf false t.crit ts .INACTIVE (mkLeaves ts rest)

/-- The role tree as the deployment leaves it: loaded STANDBY/INACTIVE, every task reported
    ACTIVE, then CONFIGURED (then RUNNING) — through the model's own update functions, so an
    aggregator nobody forwards to keeps what it was loaded with (C11's barren aggregator). -/
def deployed (sc : Scen) (pend : List Nat := []) : Forest :=
  let n := sc.tasks.length
  let f0 : Forest := .agg .STANDBY .INACTIVE (mkLeaves .STANDBY sc.tasks) .nil
  let f0 := (List.range n).foldl (fun f i => (updStatus f [0, i] .ACTIVE).1) f0
  -- `pend`: the update of the LAST transition's reply has not been applied to these
  let cfgd := (List.range n).filter (fun i => sc.live = .RUNNING || !pend.contains i)
  let f1 := cfgd.foldl (fun f i => (updState f [0, i] .CONFIGURED).1) f0
  if sc.live = .RUNNING then
    ((List.range n).filter (fun i => !pend.contains i)).foldl (fun f i => (updState f [0, i] .RUNNING).1) f1
  else f1

def mkSys (sc : Scen) (pend : List Nat := []) : Sys :=
  let reqs : List Req := [.control .DEPLOY true false, .control .CONFIGURE true false] ++
    (if sc.live = .RUNNING then [.control .START_ACTIVITY true false] else [])
  { f := deployed sc pend, env := finalEnv [] sc.tasks.length {} reqs,
    updq := pend.map (fun i => ([0, i], if sc.live = .RUNNING then TState.RUNNING else TState.CONFIGURED)) }

def hostOf (sc : Scen) (i : Nat) : Nat := (sc.tasks.getD i { crit := false, host := 0 }).host
def critOf (sc : Scen) (i : Nat) : Bool := (sc.tasks.getD i { crit := false, host := 0 }).crit

def indices (sc : Scen) : List Nat := List.range sc.tasks.length

/-- Tasks that die: the victim, or everything on its executor / agent (one executor per host). -/
def victims (sc : Scen) : List Nat :=
  match sc.kind with
  | .EXEC | .EXEC0 | .AGENT | .AGENT0 | .RAGENT => (indices sc).filter (fun i => hostOf sc i = hostOf sc sc.victim)
  | _ => [sc.victim]

/-- The task whose reply is held back (same choice as the harness). -/
def holder (sc : Scen) : Option Nat :=
  let other := (indices sc).filter (fun i => i ≠ sc.victim ∧ hostOf sc i ≠ hostOf sc sc.victim)
  match other.getLast? with
  | some i => some i
  | none => ((indices sc).filter (fun i => i ≠ sc.victim)).getLast?

def raceEv (l : St) : Ev × TState :=
  if l = .RUNNING then (.STOP_ACTIVITY, .CONFIGURED) else (.START_ACTIVITY, .RUNNING)

def path (i : Nat) : List Nat := [0, i]

/-- The code as it is. -/
def cfg : Cfg := codeCfg

/-! ### the roster: the main environment's tasks among the bystanders' -/

/-- Index of a live bystander group's environment in `World.envs` (0 = the main environment). -/
def envIdx (sc : Scen) (gi : Nat) : Nat := 1 + ((sc.groups.take gi).filter (·.own == "env")).length

def groupEntries (sc : Scen) (gi : Nat) (g : Group) : List (Option Nat × RTask) :=
  (List.range g.tasks.length).map fun i =>
    (some gi, { owner := if g.own == "env" then some (envIdx sc gi) else none, path := path i,
                agent := (g.tasks.getD i { crit := false, host := 0 }).host,
                exec := (g.tasks.getD i { crit := false, host := 0 }).host })

/-- The roster in its own order, every entry tagged with its group (none: the main environment):
    groups created before the main environment, its own tasks, groups created after it.
    One executor per agent (the core re-uses the executor an offer lists). -/
def rosterTagged (sc : Scen) : List (Option Nat × RTask) :=
  let gs := (List.range sc.groups.length).zip sc.groups
  let part (pos : String) := (gs.filter (·.2.pos == pos)).flatMap (fun x => groupEntries sc x.1 x.2)
  let mine : List (Option Nat × RTask) := (indices sc).map fun i =>
    (none, { owner := some 0, path := path i, agent := hostOf sc i, exec := hostOf sc i })
  part "before" ++ mine ++ part "after"

def victimIdx (sc : Scen) : Nat :=
  (((List.range sc.groups.length).zip sc.groups).filter (·.2.pos == "before")).foldl (fun n x => n + x.2.tasks.length) 0 + sc.victim

def scopeOf (sc : Scen) : Scope :=
  let h := hostOf sc sc.victim
  match sc.kind with
  | .EXEC | .EXEC0 => .exec h h
  | .AGENT | .AGENT0 | .RAGENT => .agent h
  | _ => .task (victimIdx sc)

/-- A live bystander environment: deployed and CONFIGURED, idle, its watcher subscribed. -/
def groupSys (g : Group) : Sys :=
  mkSys { live := .CONFIGURED, tasks := g.tasks, victim := 0, kind := .FAILED, instant := "idle" }

def worldOf (sc : Scen) (a : Sys) : World :=
  { envs := a :: (sc.groups.filter (·.own == "env")).map groupSys, roster := (rosterTagged sc).map (·.2) }

/-- What the `environmentId` label of the messages about the victim names: an environment of the
    world (`World.envs` index; the first live bystander environment has index 1) or none. -/
def labOf (sc : Scen) : Option Nat :=
  match sc.label with
  | "own" => some 0
  | "other" => some 1
  | _ => none

/-- The failure event reaches the core: snapshot of the roster, the walk of the code, every
    message carrying the scenario's label (irrelevant for the code: `C03_label_irrelevant_code`). The
    main environment's part IS `Failure.fail` on its own victims (`C03_roster_walk_is_fail`). -/
def failW (sc : Scen) (k : Kind) (a : Sys) : World := worldFailTagged codeWalk cfg k (worldOf sc a) (scopeOf sc) (labOf sc)

/-- What the model says about the bystander groups (independent of the main environment's
    schedule: environments share nothing but the roster). -/
def byObs (sc : Scen) : List SExp :=
  let W := failW sc sc.kind (mkSys sc)
  let tagged := (rosterTagged sc).zip W.roster
  ((List.range sc.groups.length).zip sc.groups).map fun (gi, g) =>
    if g.own == "env" then
      match W.envs[envIdx sc gi]? with
      | some s0 =>
        let s := settle cfg 96 (drain cfg s0)
        let roles := (leaves s.f).map fun l => SExp.list [.atom l.2.1.name, .atom l.2.2.name]
        .list [.atom "env", .atom s.env.st.name, .list [.atom "root", .atom (rootState s.f).name, .atom (rootStatus s.f).name],
               .list [.atom "roles", .list roles]]
      | none => .list [.atom "env", .atom "?"]
    else
      .list [.atom "loose", .list ((tagged.filter (fun x => x.1.1 == some gi)).map (fun x => SExp.atom x.2.st.name))]

/-- The queued state update of task `i` runs now (and the watcher looks at what it was sent). -/
def applyTask (s : Sys) (i : Nat) : Sys :=
  match s.updq.findIdx? (fun x => x.1 == path i) with
  | some k => drain cfg (istep cfg s (.apply k true))
  | none => s

/-- The model's final system for the scenario; `late` = queued state updates run after everything
    else that is enabled (racelate: the watcher's GO_ERROR is already waiting for the mutex).
    (The `ready` bits of the model's inputs play no role on a buffered channel.) -/
def finalSys (sc : Scen) (finishFirst : Bool := false) (modes : List Nat := []) (late : Bool := false)
    (pend : List Nat := []) (stale : Nat := 0) (lost : Bool := false) (before : Option (List Nat) := none) : Option Sys :=
  let base := mkSys sc (if sc.instant == "idle" then pend else [])
  -- race / racelate / raceself with `pend`: replies that had been sent but whose state update had not run when the
  -- harness looked: `stale` = 0: they run before the failure all the same; 1: after it
  let applyAllR (s : Sys) : Sys := pend.foldl applyTask s
  -- `before = some b` (several updates pending): the updates of the tasks in `b` run before the failure, the others
  -- after it, the watcher subscribed — every split is a schedule of the model (`Label.apply k` in any order)
  let applyL (l : List Nat) (s : Sys) : Sys := l.foldl applyTask s
  let vs := (victims sc).map (fun i => (path i, true))
  let (ev, dst) := raceEv sc.live
  let fin (s : Sys) : Sys := if late then settleLate cfg 96 s else settle cfg 96 s
  -- through the roster: `(failW sc k s).envs[0]` = `Failure.fail cfg k s vs` (theorem C03_roster_walk_is_fail)
  let fail (k : Kind) (s : Sys) (vs : List (List Nat × Bool)) : Sys :=
    drain cfg (((failW sc k s).envs.head?).getD (Failure.fail cfg k s vs))
  let setLeaves (s : Sys) (ps : List (List Nat)) (v : TState) (r : Bool) : Sys :=
    ps.foldl (fun acc p => drain cfg (setLeaf cfg acc p v r)) s
  match sc.instant with
  | "idle" | "drop" | "dropabrupt" =>
    -- `stale` (only with `pend`): 0 = the pending updates run before the failure; 1 = after it, the watcher subscribed;
    -- 2 = watcher still starting: failure, updates, subscription; 3 = failure, subscription, updates
    let applyAll (s : Sys) : Sys := pend.foldl applyTask s
    match before, stale with
    | some b, _ => some (fin (fail sc.kind (applyL b base) vs))
    | none, 0 => some (fin (fail sc.kind (applyAll base) vs))
    | none, 1 => some (fin (fail sc.kind base vs))
    | none, 2 => some (fin (istep cfg (applyAll (fail sc.kind { base with w := .starting } vs)) .subscribe))
    | none, _ => some (fin (applyAll (istep cfg (fail sc.kind { base with w := .starting } vs) .subscribe)))
  | "race" | "racelate" => do
    let h ← holder sc
    if (victims sc).contains h then none   -- the reply that is held back would never come
    let others := (indices sc).filter (· ≠ h)
    let s1 := setLeaves base ((others.filter (fun i => !pend.contains i)).map path) dst true
    let s2 := { s1 with inflight := some { ev := ev, api := true, pending := [(path h, dst)], ok := true },
                        updq := (others.filter pend.contains).map (fun i => (path i, dst)) }
    match before with
    | some b => pure (fin (applyL (pend.filter (fun i => !b.contains i)) (fail sc.kind (applyL b s2) vs)))
    | none => pure (fin (if stale == 0 then fail sc.kind (applyAllR s2) vs else applyAllR (fail sc.kind s2 vs)))
  | "raceself" =>
    let others := (indices sc).filter (· ≠ sc.victim)
    let s1 := setLeaves base ((others.filter (fun i => !pend.contains i)).map path) dst true
    let s2 := { s1 with inflight := some { ev := ev, api := true, pending := [], ok := !(critOf sc sc.victim) },
                        updq := (others.filter pend.contains).map (fun i => (path i, dst)) }
    match before with
    | some b => some (fin (applyL (pend.filter (fun i => !b.contains i)) (fail sc.kind (applyL b s2) vs)))
    | none => some (fin (if stale == 0 then fail sc.kind (applyAllR s2) vs else applyAllR (fail sc.kind s2 vs)))
  | "burst" =>
    -- all replies have arrived. `modes`: per victim, how its own reply's `go updateTaskState(dst)` interleaves with
    -- the failure's `go updateTaskState(ERROR)`: 0 = reply first; 1 = failure first (a schedule of the model: the
    -- reply then overwrites task.state and role); 2 = the two goroutines interleaved (task.state keeps the failure's
    -- value, the role gets the reply's); 3, 4 see below. 2–4 split updateTaskState, which the model keeps atomic:
    -- they are constructed here, on top of schedule 1.
    let vm := (victims sc).zip (modes ++ (victims sc).map (fun _ => 0))
    let lateV := vm.filter (fun x => x.2 ≠ 0)
    let early := (indices sc).filter (fun i => !(lateV.any (fun x => x.1 == i)))
    let s2 := { base with inflight := some { ev := ev, api := true, pending := (indices sc).map (fun i => (path i, dst)), ok := true } }
    let s3 := irun cfg s2 ((indices sc).map (fun _ => Label.arrive))
    let s3 := early.foldl applyTask s3
    let s3 := if finishFirst then istep cfg s3 .finish else s3
    -- `lost` (one victim; only offered with the harness' `(again …)` evidence): the failure's update of the role's
    -- state is overwritten by the victim's own reply before the root looks — `failOneLost`
    let s4 := if lost then drain cfg (failOneLost cfg sc.kind s3 (path sc.victim)) else fail sc.kind s3 vs
    let s5 := lateV.foldl (fun (s : Sys) (x : Nat × Nat) =>
      let own := ownState s (path x.1) (roleStateAt s.f (path x.1))
      let s' := applyTask s x.1
      let s' := if (x.2 == 2 || x.2 == 4) && !(effect cfg sc.kind s3.env.st (critOf sc x.1)).roleOnly then { s' with roleOnly := (path x.1, own) :: s'.roleOnly } else s'
      -- 3, 4: as 1, 2, but the failure's forward to the root (`parent.updateState(ERROR)`: no recompute) comes last
      if (x.2 == 3 || x.2 == 4) && critOf sc x.1 && (effect cfg sc.kind s3.env.st (critOf sc x.1)).st == some TState.ERROR then
        match s'.f with
        | .agg _ su kids next => { s' with f := .agg .ERROR su kids next }
        | _ => s'
      else s') s4
    some (fin s5)
  | _ => none

def racing (sc : Scen) : Bool := sc.instant != "idle" && sc.instant != "drop" && sc.instant != "dropabrupt"

def dropToBody : List Step → List Step
  | [] => []
  | s :: rest => if isBody s then rest else dropToBody rest

def statusName : RunStatus → String
  | .started => "STARTED" | .doneOk => "DONE_OK" | .doneError => "DONE_ERROR"

def runEvents (log : List Step) : List SExp :=
  log.filterMap fun
    | .runEvent tr st _ _ => some (.list [.atom tr, .atom (statusName st)])
    | _ => none

def isVal : TV → Bool
  | .val _ => true
  | _ => false

def natsSx (xs : List Nat) : SExp := .list (xs.map SExp.ofNat)

def insertNat (x : Nat) : List Nat → List Nat
  | [] => [x]
  | y :: ys => if x < y then x :: y :: ys else if x = y then y :: ys else y :: insertNat x ys

def sortNats (xs : List Nat) : List Nat := xs.foldl (fun acc x => insertNat x acc) []

/-- The follow-up probe on the model: TASK_FAILED about the victim, delivered alone to the settled system. -/
def againOf (sc : Scen) (s : Sys) : St :=
  (settle cfg 96 (drain cfg (Failure.fail cfg .FAILED s [(path sc.victim, true)]))).env.st

def obsOf (sc : Scen) (s : Sys) (pend : List Nat := []) (again : Bool := false) : SExp :=
  let log := if racing sc && (s.log.any isBody) && s.transRes.isSome then dropToBody s.log else s.log
  let roles := (leaves s.f).map fun l => SExp.list [.atom l.2.1.name, .atom l.2.2.name]
  let trans := match s.transRes with
    | none => "-"
    | some (true, _) => "ok"
    | some (false, _) => "err"
  .list ([
    .list [.atom "pre", .atom sc.live.name]] ++
    (if pend.isEmpty then [] else [.list [.atom "pending", natsSx pend]]) ++ [
    .list [.atom "victims", natsSx (victims sc)],
    .list [.atom "env", .atom s.env.st.name],
    .list [.atom "root", .atom (rootState s.f).name, .atom (rootStatus s.f).name],
    .list [.atom "roles", .list roles],
    .list [.atom "run", .list (runEvents log)],
    .list [.atom "stamps", SExp.ofBool (isVal s.env.vars.soeor), SExp.ofBool (isVal s.env.vars.eoeor)],
    .list [.atom "stops", natsSx (sortNats (s.stopped.filterMap fun p => p.getLast?))],
    .list [.atom "trans", .atom trans]] ++
    (if sc.groups.isEmpty then [] else [.list [.atom "by", .list (byObs sc)]]) ++
    -- `1`: the victim's role had published ERROR (the update happened, and was overwritten afterwards)
    (if again then [.list [.atom "again", .atom (againOf sc s).name, SExp.ofBool true]] else []))

/-! ### Spec on what the implementation reported -/

def field (obs : SExp) (name : String) : Option (List SExp) :=
  match obs with
  | .list fs => fs.findSome? fun
    | .list (.atom n :: rest) => if n == name then some rest else none
    | _ => none
  | _ => none

def atom1 (obs : SExp) (name : String) : String :=
  match field obs name with
  | some (.atom a :: _) => a
  | _ => "?"

def anyCrit (sc : Scen) : Bool := (victims sc).any (critOf sc)

/-- Environment state expected without any failure: the live state, or the destination of
    the transition that was in flight. -/
def undisturbed (sc : Scen) : St :=
  if racing sc then (if sc.live = .RUNNING then .CONFIGURED else .RUNNING) else sc.live

/-- Per environment: a live bystander environment one of whose CRITICAL tasks is in the snapshot
    must report ERROR; one none of whose critical tasks failed must still report CONFIGURED. -/
def specGroups (sc : Scen) (impl : SExp) : Bool :=
  let tagged := rosterTagged sc
  let idx := (List.range tagged.length).zip tagged
  let obs : List SExp := match field impl "by" with
    | some [.list gs] => gs
    | _ => []
  ((List.range sc.groups.length).zip sc.groups).all fun (gi, g) =>
    if g.own != "env" then true else
      let critHit := idx.any fun (i, tg, t) => tg == some gi && (scopeOf sc).covers i t &&
        (g.tasks.getD (t.path.getLast?.getD 0) { crit := false, host := 0 }).crit
      let st := match obs[gi]? with
        | some (.list (.atom "env" :: .atom st :: _)) => st
        | _ => "?"
      if critHit then st == "ERROR" else st == "CONFIGURED"

def specMain (sc : Scen) (impl : SExp) : Bool :=
  let env := atom1 impl "env"
  if anyCrit sc then
    -- ends in ERROR, and if a run was (or became) active its end is recorded
    let runActive := sc.live = .RUNNING || atom1 impl "trans" == "ok"
    let stamps := match field impl "stamps" with
      | some [a, b] => a.bool?.getD false && b.bool?.getD false
      | _ => false
    env == "ERROR" && (!runActive || stamps)
  else
    env == (undisturbed sc).name

/-- The property per environment of the world: the main one and every live bystander. -/
def specOn (sc : Scen) (impl : SExp) : Bool := specMain sc impl && (sc.groups.isEmpty || specGroups sc impl)

def hypOf (sc : Scen) (impl : SExp) : String :=
  let env := atom1 impl "env"
  if anyCrit sc then
    if env == "ERROR" then "-"
    else if sc.kind.direct = .FINISHED then "finished_not_error"
    else "-"
  else "-"

def processLine (line : String) : String :=
  match SExp.fields line with
  | [inp, impl] =>
    match (SExp.parse inp).bind parseScen with
    | some sc =>
      -- environment choice read off the observation: tasks whose role was one state behind right before the injection
      let pend : List Nat := match (SExp.parse impl).bind (fun io => field io "pending") with
        | some [.list xs] =>
          if sc.instant == "idle" || sc.instant == "race" || sc.instant == "racelate" || sc.instant == "raceself" then
            (xs.filterMap SExp.nat?).filter (· < sc.tasks.length)
          else []
        | _ => []
      match finalSys sc false [] false pend 0 with
      | some sr =>
        let oR := toString (obsOf sc sr pend)
        -- the watcher goroutine may still be starting only if a critical victim's own update is among the pending
        -- ones and the failure is of a kind that puts the role into ERROR
        let lateOK := sc.instant == "idle" && pend.any (fun i => (victims sc).contains i && critOf sc i) && sc.kind.drives cfg sc.live
        let staleLate : List String :=
          if lateOK then [2, 3].filterMap fun m => (finalSys sc false [] false pend m).map (fun x => toString (obsOf sc x pend)) else []
        let staleSub : List String :=
          if pend.isEmpty then [] else
            [false, true].filterMap fun l => (finalSys sc false [] l pend 1).map (fun x => toString (obsOf sc x pend))
        -- several updates pending: some run before the failure, the others after it (watcher subscribed) — seen under
        -- heavy load (≈ 45 on 16 cores): `(pending (0 1))`, task 0's update before, task 1's after the executor loss
        let properSubs : List (List Nat) :=
          if pend.length < 2 then [] else
            (pend.foldl (fun acc i => acc.flatMap (fun l => [l, l ++ [i]])) [[]]).filter (fun l => !l.isEmpty && l.length < pend.length)
        let staleMixed : List String :=
          properSubs.flatMap fun b => [false, true].filterMap fun l =>
            (finalSys sc false [] l pend 0 false (some b)).map (fun x => toString (obsOf sc x pend))
        -- burst: whether the transition ends before or after the failure is handled, and how each victim's own
        -- reply interleaves with its failure, is not determined: accept any of these schedules (monitor style)
        let nv := (victims sc).length
        let modeLists : List (List Nat) :=
          if sc.instant == "burst" then
            (List.range nv).foldl (fun acc _ => acc.flatMap (fun l => [l ++ [0], l ++ [1], l ++ [2], l ++ [3], l ++ [4]])) [[]]
          else [[]]
        let variants : List String :=
          if sc.instant == "burst" then
            modeLists.flatMap fun ms => [false, true].filterMap fun ff => (finalSys sc ff ms).map (fun x => toString (obsOf sc x))
          else if sc.instant == "racelate" then
            -- the watcher's GO_ERROR already waits for the mutex: it can run before the held reply's state update
            ((finalSys sc false [] true pend 0).map (fun x => toString (obsOf sc x pend))).toList ++ staleSub ++ staleMixed
          else staleSub ++ staleMixed ++ staleLate
        -- burst with the follow-up evidence: the victim's failure was overwritten before the root looked
        let hasAgain := match (SExp.parse impl).bind (fun io => field io "again") with
          | some _ => true
          | none => false
        let lostV : List String :=
          if sc.instant == "burst" && hasAgain && (victims sc).length == 1 && anyCrit sc then
            [false, true].filterMap fun ff => (finalSys sc ff [] false [] 0 true).map (fun x => toString (obsOf sc x [] true))
          else []
        let vR := oR :: (variants ++ lostV)
        let model := if vR.contains impl then impl else oR
        match SExp.parse impl with
        | some io =>
          let spec := specOn sc io
          let hyp := if spec then "-"
            else if staleLate.contains impl && !(oR :: staleSub ++ staleMixed).contains impl then "stale_update_overwrites_error"
            else if lostV.contains impl && !(oR :: variants).contains impl then "stale_update_overwrites_error"
            else hypOf sc io
          s!"{model}\t{if spec then 1 else 0}\t{hyp}"
        | none => s!"{model}\t0\t-"
      | none => "BADSCENARIO\t0\t-"
    | none => "BADINPUT\t0\t-"
  | _ => "BADLINE\t0\t-"

end Driver.C03
