/- Driver for C04 (monitor over Model/Own + Spec.C04 on the observed views). -/
import Driver.OwnCommon

namespace Driver.C04
open Own Driver.OwnCommon

/-- Two creations of the same round that need a common detector (their
    check-and-insert windows can overlap: hypothesis `overlapFree` of
    `C04_det_excl_partial` is not guaranteed). -/
def overlappingNews (sc : Scenario) (ops : List OpIn) : Bool :=
  let ks := ops.filterMap (fun | .new k => some k | _ => none)
  ks.any (fun a => ks.any (fun b => decide (a < b) &&
    match sc.envs[a]?, sc.envs[b]? with
    | some ea, some eb => (specOf ea).dets.any (fun d => decide (d ∈ (specOf eb).dets))
    | _, _ => false))

/-- With reuseUnlockedTasks: two creations of one round that want a task of the same class on the same host (both may
    earmark one unlocked roster task: hypothesis `noClaimSteps` of `C04_inv` / `C04_overlapping_deploy_partial` is not
    guaranteed). -/
def overlappingClaims (sc : Scenario) (ops : List OpIn) : Bool :=
  let ks := ops.filterMap (fun | .new k => some k | _ => none)
  sc.reuse && ks.any (fun a => ks.any (fun b => decide (a < b) &&
    match sc.envs[a]?, sc.envs[b]? with
    | some ea, some eb => ea.roles.any (fun ra => ra.kind != .call &&
        eb.roles.any (fun rb => rb.kind != .call && ra.cls == rb.cls && ra.host == rb.host))
    | _, _ => false))

def judge (sc : Scenario) (ctxs : List RoundCtx) : Bool × String :=
  -- a detector race stays visible in every later snapshot: remember whether a round allowed it
  -- (and so does the environment a claim race leaves listed for ever)
  let rec go (cs : List RoundCtx) (raced : Bool) (claimRaced : Bool := false) : Bool × String :=
    match cs with
    | [] => (true, "-")
    | c :: rest =>
      let K := envsOfOps c.ops
      let raced := raced || overlappingNews sc c.ops
      let claimRaced := claimRaced || overlappingClaims sc c.ops
      if specC04Round K c.before c.after then go rest raced claimRaced
      -- a dead core is a plain violation: the model of the code as it is (codeCfg) cannot crash
      -- (C04_no_crash_code; finding reuse_full_claim_crash is fixed)
      else if c.after.crashed then (false, "-")
      else if frameOk K c.before c.after && exclusiveTasks c.after && killsUnowned c.before c.after
              && !exclusiveDets c.after && raced then (false, "create_race")
      -- the double commit of an earmarked task (finding reuse_claim_race): two environments reference one task, or — after
      -- both creations were given up — one of them stays listed, referencing a task that was killed under it
      else if frameOk K c.before c.after && exclusiveDets c.after && claimRaced
              && (!exclusiveTasks c.after || !killsUnowned c.before c.after) then (false, "reuse_claim_race")
      else (false, "-")
  go ctxs false

def processLine (line : String) : String := processWith judge line

end Driver.C04
