/- Driver for C04 (stub). -/
import ControlModel.Basic

namespace Driver.C04

def processLine (_line : String) : String := "UNIMPLEMENTED\t0\t-"

end Driver.C04
