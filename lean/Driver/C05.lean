/- Driver for C05: line = "input<TAB>implObs"; formats in harness/props/c05/c05.go. -/
import ControlModel.Model.Placement
import ControlModel.Spec.C05

namespace Driver.C05
open Placement

/-! ### parsing -/

def parseAttrs : SExp → Option Attrs
  | .atom _ => some []                       -- nil
  | .list xs => xs.mapM? fun
    | .list [.atom n, .atom v] => some (n, v)
    | .list [.atom n] => some (n, "")        -- non-text attribute reads as ""
    | _ => none

def parseCts (s : SExp) : Option Constraints := do
  (← s.list?).mapM? fun
    | .list [.atom a, .atom v, op] => do pure ⟨a, v, ← op.nat?⟩
    | _ => none

def parseRangesSx (s : SExp) : Option Ranges := do
  (← s.list?).mapM? fun
    | .list [b, e] => do pure (← b.nat?, ← e.nat?)
    | _ => none

def parseOptNat : SExp → Option (Option Nat)
  | .atom "-" => some none
  | s => s.nat?.map some

def parseOptRanges : SExp → Option (Option Ranges)
  | .atom "-" => some none
  | s => (parseRangesSx s).map some

def parseRes : SExp → Option Res
  | .list [c, m, p] => do pure { cpu := ← parseOptNat c, mem := ← parseOptNat m, ports := ← parseOptRanges p }
  | _ => none

def parseInb (s : SExp) : Option (List Bool) := do (← s.list?).mapM? SExp.bool?

def parseWants : SExp → Option Wants
  | .list [c, m, st, inb] => do
      pure { cpu := ← c.nat?, mem := ← m.nat?, static := ← parseRangesSx st, inbound := ← parseInb inb }
  | _ => none

def parseClass : SExp → Option Class
  | .list [cts, c, m, .atom e, inb] => do
      pure { cts := ← parseCts cts, cpu := ← c.nat?, mem := ← m.nat?, portsExpr := e.toList, inbound := ← parseInb inb }
  | .list [cts, c, m, .atom e, inb, .atom cmd] => do
      pure { cts := ← parseCts cts, cpu := ← c.nat?, mem := ← m.nat?, portsExpr := e.toList, inbound := ← parseInb inb, cmd := cmd }
  | _ => none

/-- Satisfy / RangesFromExpression as probed by the harness; the resource
    bookkeeping is the model of the code as it is (`codeCfg`, tied to the source
    by `C05_bookkeeping_is_code`), whatever the linked code does. -/
def parseMode (s r : String) : Mode := { satFixed := s != "c", rngFixed := r != "c", cfg := codeCfg }

/-! ### printing (must equal the Go side character for character) -/

def ctsSx (cts : Constraints) : SExp :=
  .list (cts.map fun c => .list [.atom c.attr, .atom c.value, SExp.ofNat c.op])

def rangesSx (rs : Ranges) : SExp := .list (rs.map fun r => .list [SExp.ofNat r.1, SExp.ofNat r.2])

def optRangesSx : Option Ranges → SExp
  | none => .atom "-"
  | some rs => rangesSx rs

/-- `resources.Ports(...)` of what is left: sorted and squashed. -/
def remainingSx (p : Option Ranges) : SExp := optRangesSx (p.map normalize)

def optNatSx : Option Nat → SExp
  | none => .atom "-"
  | some n => SExp.ofNat n

def taskFields (t : Task) : List SExp :=
  [.list (t.dyn.map SExp.ofNat), SExp.ofNat t.ctrl, SExp.ofNat t.cpu, SExp.ofNat t.mem, rangesSx t.request]

def outcomeSx (out : Outcome) : SExp :=
  if out.crashed then .list [.atom "crash"] else
  let accs := out.accepts.mergeSort (fun a b => a.oid ≤ b.oid)
  .list [.atom "round",
    .list (accs.map fun a => .list ([.atom "A", SExp.ofNat a.oid] ++
      a.launches.map fun l => .list (SExp.ofNat l.desc.id :: taskFields l.task))),
    .list (.atom "D" :: (out.declined.mergeSort (· ≤ ·)).map SExp.ofNat),
    .list (.atom "U" :: out.undeployed.map fun d => SExp.ofNat d.id),
    .list (.atom "X" :: out.undeployable.map fun d => SExp.ofNat d.id)]

/-! ### reading back what the implementation did -/

def parseTaskFields (static : Ranges) : List SExp → Option Task
  | [dyn, ctrl, cpu, mem, _req] => do
      pure { dyn := ← (← dyn.list?).mapM? SExp.nat?, ctrl := ← ctrl.nat?, cpu := ← cpu.nat?, mem := ← mem.nat?, static := static }
  | _ => none

def reqOf : List SExp → Option Ranges
  | [_, _, _, _, req] => parseRangesSx req
  | _ => none

/-- The static part of what the implementation requested = requested ranges
    minus drawn ports, compared as sets with the template's ranges. The
    observation does not list the static ranges separately, so the task is
    rebuilt with the static ranges the MODEL derives and its `request` is
    compared with the observed one. -/
def implTask (m : Mode) (c : Class) (fs : List SExp) : Option Task := do
  let t ← parseTaskFields (c.wants m).static fs
  let req ← reqOf fs
  if t.request = req then pure t else
    -- requested ranges differ from static ∪ drawn: record them all as static so every claim is counted
    pure { t with static := req }

partial def perms {α} : List α → List (List α)
  | [] => [[]]
  | xs => (List.range xs.length).flatMap fun i =>
      match xs[i]? with
      | some x => (perms (xs.eraseIdx i)).map (x :: ·)
      | none => []

/-! ### the cases -/

structure Ans where
  model : String
  spec : Bool
  hyp : String := "-"

def wrapObs (s r : String) (p : SExp) : String := toString (SExp.list [.atom s, .atom r, p])

def bad : Ans := { model := "BADINPUT", spec := false }

def doSat (m : Mode) (w : SExp → String) (as cts : SExp) (impl : SExp) : Ans :=
  match parseAttrs as, parseCts cts, impl.bool? with
  | some a, some c, some ans =>
    let spec := specSat a c ans
    let hyp := if !spec && !m.satFixed && satisfyAsCoded a c != satisfy a c then "satisfy_last_constraint_decides" else "-"
    { model := w (SExp.ofBool (m.sat a c)), spec, hyp }
  | some a, some c, none => { model := w (SExp.ofBool (m.sat a c)), spec := false }
  | _, _, _ => bad

def doMerge (w : SExp → String) (ch pa : SExp) (impl : SExp) : Ans :=
  match parseCts ch, parseCts pa with
  | some c, some p =>
    { model := w (ctsSx (mergeParent c p)), spec := match parseCts impl with
        | some got => specMerge c p got
        | none => false }
  | _, _ => bad

def doEff (w : SExp → String) (levels cls : SExp) (impl : SExp) : Ans :=
  match levels.list? >>= (·.mapM? parseCts) with
  | some chain =>
    let clsC : Option (Option Constraints) := match cls with
      | .atom _ => some none
      | s => (parseCts s).map some
    match clsC with
    | some cc =>
      let role := effective chain
      let desc := descriptorConstraints role cc
      let spec := match impl with
        | .list [r, d] =>
          match parseCts r, parseCts d with
          | some gr, some gd =>
            specEffective chain gr &&
            (match cc with
             | some k => specMerge gr k gd
             | none => gd = gr)
          | _, _ => false
        | _ => false
      { model := w (.list [ctsSx role, ctsSx desc]), spec }
    | none => bad
  | none => bad

def doRes (w : SExp → String) (r wn : SExp) (impl : SExp) : Ans :=
  match parseRes r, parseWants wn with
  | some r, some wn =>
    { model := w (SExp.ofBool (resSatisfy r wn)), spec := match impl.bool? with
        | some ans => specRes r wn ans
        | none => false }
  | _, _ => bad

def parseObsSx : Option Ranges → SExp
  | none => .atom "err"
  | some rs => .list (.atom "ok" :: rs.map fun r => .list [SExp.ofNat r.1, SExp.ofNat r.2])

def doParse (m : Mode) (w : SExp → String) (e : String) (impl : SExp) : Ans :=
  let mine := parseRanges m.rngFixed e.toList
  let want := parseRanges true e.toList
  let spec := impl == parseObsSx want
  let hyp := if !spec && !m.rngFixed && parseRanges false e.toList != want then "range_end_from_start" else "-"
  { model := w (parseObsSx mine), spec, hyp }

def doMk (m : Mode) (w : SExp → String) (ports cls : SExp) (impl : SExp) : Ans :=
  match parseOptRanges ports, parseClass cls with
  | some ps, some c =>
    let wn := c.wants m
    let offerRes : Res := { cpu := some 400, mem := some 400000, ports := ps }
    let model : SExp := match makeTask m.cfg wn ps with
      | .early p => .list [.atom "nil", remainingSx p, SExp.ofBool true]
      | .late p => .list [.atom "nil", remainingSx p, SExp.ofBool false]
      | .panic => .list [.atom "panic"]
      | .ok t p =>
        let rem := afterLaunch m.cfg offerRes t p
        .list ([.atom "ok"] ++ taskFields t ++ [remainingSx p, optNatSx rem.cpu, optNatSx rem.mem, SExp.ofBool false])
    let wantsAsWritten : Wants := { wn with static := (parseRanges true c.portsExpr).getD [] }
    let accepted := covers offerRes wantsAsWritten
    let (v, implPanicked) : MkVerdict × Bool := match impl with
      | .list (.atom "ok" :: fs) =>
        match implTask m c (fs.take 5) with
        | some t =>
          let v := mkVerdict ps c (some t) false
          ({ v with claims := v.claims || !accepted }, false)
        | none => ({ noCrash := false, templateOk := false, drawn := false, claims := false }, false)
      | .list (.atom "nil" :: _) => (mkVerdict ps c none false, false)
      | _ => (mkVerdict ps c none true, true)
    let spec := v.noCrash && v.templateOk && v.drawn && v.claims
    -- port_draw_panics and static_ports_not_reserved are repaired: a crash or a doubly claimed port is a plain violation
    let hyp :=
      if spec then "-"
      else if !v.noCrash then "-"
      else if !v.templateOk then
        (if !m.rngFixed && parseRanges false c.portsExpr != parseRanges true c.portsExpr then "range_end_from_start" else "-")
      else "-"
    { model := w model, spec := spec && !implPanicked, hyp }
  | _, _ => bad

def parseOffers (s : SExp) : Option (List Offer) := do
  let xs ← s.list?
  let os ← xs.mapM? fun
    | .list [as, r] => do pure (← parseAttrs as, ← parseRes r)
    | _ => none
  pure ((List.range os.length).zip os |>.map fun (i, (a, r)) => { oid := i, attrs := a, res := r })

def parseDescs (classes : List Class) (root : Constraints) (s : SExp) : Option (List Desc) := do
  let xs ← s.list?
  let ds ← xs.mapM? fun
    | .list [lv, ci] => do
        let chain ← (← lv.list?).mapM? parseCts
        let cls : Option Class ← match ci with
          | .atom "-" => some none
          | c => do let i ← c.nat?; pure (some (← classes[i]?))
        pure (effective (chain ++ [root]), cls)
    | _ => none
  pure ((List.range ds.length).zip ds |>.map fun (i, (r, c)) => { id := i, role := r, cls := c })

/-- Rebuild an `Outcome` from the implementation's observation. -/
def implOutcome (m : Mode) (descs : List Desc) : SExp → Option Outcome
  | .list [.atom "crash"] => some { accepts := [], declined := [], undeployed := [], undeployable := [], crashed := true }
  | .list [.atom "round", .list accs, .list (.atom "D" :: ds), .list (.atom "U" :: us), .list (.atom "X" :: xs)] => do
    let getD (s : SExp) : Option Desc := do let i ← s.nat?; descs[i]?
    let accepts ← accs.mapM? fun
      | .list (.atom "A" :: o :: ts) => do
          let ls ← ts.mapM? fun
            | .list (d :: fs) => do
                let d ← getD d
                let c ← d.cls
                pure (⟨d, ← implTask m c fs⟩ : Launch)
            | _ => none
          pure (⟨← o.nat?, ls⟩ : Accept)
      | _ => none
    pure { accepts, declined := ← ds.mapM? SExp.nat?, undeployed := ← us.mapM? getD, undeployable := ← xs.mapM? getD, crashed := false }
  | _ => none

def classDiffers (c : Class) : Bool := parseRanges false c.portsExpr != parseRanges true c.portsExpr

def doRound (m : Mode) (w : SExp → String) (cls root offers descs : SExp) (impl : SExp) : Ans :=
  match cls.list? >>= (·.mapM? parseClass), parseCts root, parseOffers offers with
  | some classes, some rootC, some os =>
    match parseDescs classes rootC descs with
    | some ds =>
      let implStr := w impl
      let cands := (perms os).map fun order => w (outcomeSx (round m os ds order))
      let model := if cands.contains implStr then implStr else cands.headD "NONE"
      match implOutcome m ds impl with
      | none => { model, spec := false }
      | some out =>
        let v := roundVerdict os out
        let launchedDiffer := out.accepts.any fun a => a.launches.any fun l => match l.desc.cls with
          | some c => classDiffers c
          | none => false
        -- port_draw_panics, cpu_mem_not_subtracted and static_ports_not_reserved are repaired (C05_round_spec proves
        -- every clause for the code as it is): a crash, an overdrawn offer or a doubly claimed port is a plain violation
        let hyp :=
          if v.all then "-"
          else if !v.noCrash then "-"
          else if !v.constraintsOk then (if m.satFixed then "-" else "satisfy_last_constraint_decides")
          else if !v.templateOk then (if !m.rngFixed && launchedDiffer then "range_end_from_start" else "-")
          else "-"
        { model, spec := v.all, hyp }
    | none => bad
  | _, _, _ => bad

/-! ### histories: loads and rounds on one manager -/

def parseLoads (s : SExp) : Option (List (Key × Class)) := do
  (← s.list?).mapM? fun
    | .list [k, c] => do pure (← k.nat?, ← parseClass c)
    | _ => none

def parseDescRefs (root : Constraints) (s : SExp) : Option (List DescRef) := do
  let xs ← s.list?
  let ds ← xs.mapM? fun
    | .list [lv, ci] => do
        let chain ← (← lv.list?).mapM? parseCts
        let key : Option Key ← match ci with
          | .atom "-" => some none
          | c => do pure (some (← c.nat?))
        pure (effective (chain ++ [root]), key)
    | _ => none
  pure ((List.range ds.length).zip ds |>.map fun (i, (r, k)) => { id := i, role := r, key := k })

/-- A step without its lock order (an environment choice the driver infers per round). -/
def parseStep : SExp → Option Step
  | .list [loads, root, offers, descs] => do
      let rootC ← parseCts root
      let os ← parseOffers offers
      pure { loads := ← parseLoads loads, offers := os, descs := ← parseDescRefs rootC descs, order := os }
  | _ => none

/-- The model: the store is carried from step to step by `storeLoad` (the code's
    store: `codeCfg` overwrites); per round the lock order that reproduces the
    observation is chosen among all orders. The spec: every round of what the
    IMPLEMENTATION did, judged against the templates AS LAST LOADED (`resolvedDescs`,
    which does not know the store). -/
def doHist (m : Mode) (w : SExp → String) (stepsSx : List SExp) (impl : SExp) : Ans :=
  match stepsSx.mapM? parseStep with
  | none => bad
  | some steps =>
    let implRounds : List SExp := match impl with
      | .list (.atom "hist" :: rs) => rs
      | _ => []
    -- model, round by round
    let rec go (s : Store) (sts : List Step) (obs : List SExp) : List SExp :=
      match sts with
      | [] => []
      | st :: rest =>
        let s' := storeLoad m s st.loads
        let ds := st.descs.map (resolveBy (storeGet s'))
        let cands := (perms st.offers).map fun order => outcomeSx (round m st.offers ds order)
        let want := obs.head?
        let pick := match want with
          | some o => if cands.contains o then o else cands.headD (.atom "NONE")
          | none => cands.headD (.atom "NONE")
        pick :: go s' rest obs.tail
    let rounds := go [] steps implRounds
    let model : SExp :=
      if rounds.any (· == .list [.atom "crash"]) then .list [.atom "crash"] else .list (.atom "hist" :: rounds)
    -- spec on the implementation's observation
    if impl == .list [.atom "crash"] then { model := w model, spec := false } else
    let resolved := resolvedDescs [] steps
    if implRounds.length != steps.length then { model := w model, spec := false } else
    let outs : Option (List Outcome) := ((resolved.zip implRounds).mapM? fun (ds, o) => implOutcome m ds o)
    match outs with
    | none => { model := w model, spec := false }
    | some outs =>
      let spec := histVerdict steps outs
      -- the first round that fails names the excluded class, as `round` does
      let hyp :=
        if spec then "-" else
        match ((steps.zip outs).find? fun (st, out) => !(roundVerdict st.offers out).all) with
        | none => "-"
        | some (st, out) =>
          let v := roundVerdict st.offers out
          let launchedDiffer := out.accepts.any fun a => a.launches.any fun l => match l.desc.cls with
            | some c => classDiffers c
            | none => false
          if !v.noCrash then "-"
          else if !v.constraintsOk then (if m.satFixed then "-" else "satisfy_last_constraint_decides")
          else if !v.templateOk then (if !m.rngFixed && launchedDiffer then "range_end_from_start" else "-")
          else "-"
      { model := w model, spec, hyp }

def processLine (line : String) : String :=
  let ans : Ans :=
    match SExp.fields line with
    | [inp, impl] =>
      match SExp.parse inp, SExp.parse impl with
      | some (.list (.atom kind :: args)), some (.list [.atom s, .atom r, payload]) =>
        let m := parseMode s r
        let w := wrapObs s r
        match kind, args with
        | "sat", [as, cts] => doSat m w as cts payload
        | "merge", [c, p] => doMerge w c p payload
        | "eff", [lv, cls] => doEff w lv cls payload
        | "res", [r, wn] => doRes w r wn payload
        | "parse", [.atom e] => doParse m w e payload
        | "mk", [p, c] => doMk m w p c payload
        | "round", [cls, root, os, ds] => doRound m w cls root os ds payload
        | "hist", steps => doHist m w steps payload
        | _, _ => bad
      | _, _ => bad
    | _ => { model := "BADLINE", spec := false }
  s!"{ans.model}\t{if ans.spec then 1 else 0}\t{ans.hyp}"

end Driver.C05
