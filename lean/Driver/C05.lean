/- Driver for C05 (stub). -/
import ControlModel.Basic

namespace Driver.C05

def processLine (_line : String) : String := "UNIMPLEMENTED\t0\t-"

end Driver.C05
