/- Driver for C06 (monitor over Model/Own + Spec.C06 on the observed views). -/
import Driver.OwnCommon

namespace Driver.C06
open Own Driver.OwnCommon

/-- Hypothesis excluded by finding launch_pending_leak: no task of the environment is
    scripted to be still starting (or dead) when its deployment is given up. (`nohost` — the offer for the role's host
    carried no hostname — is a prompt launch: the task comes up; it just cannot be locked.) -/
def launchesPromptIn (e : EnvIn) : Bool := e.roles.all (fun r => r.kind == .call || r.launch == "ok" || r.launch == "nohost")

/-- Why `cleanAfter k keep v` fails: `some hyp` if every failing clause is explained by an
    excluded hypothesis the input violates, `none` otherwise.
    * a task still owned by the dead environment is never explained (`C06_destroyed_clean_code`,
      `C06_failed_create_clean_code` have no hook hypothesis: finding destroy_hooks_unreleased is fixed);
    * a task neither killed nor ended nor in the roster is explained iff the environment's deployment was
      scripted to be given up while tasks were still starting (launch_pending_leak). -/
def explain (sc : Scenario) (_names : List String) (k : Nat) (keep : Bool) (v : View) (strict : Bool := false) : Option String :=
  match sc.envs[k]? with
  | none => none
  | some e =>
    let listed := !v.envs.all (fun E => decide (E.env ≠ k))
    let ownedRows := v.roster.filter (fun r => decide (r.owner = some k))
    let leaks := if keep then [] else v.master.filter (fun m => !(decide (m.label ≠ k) || m.killed || decide (m.mesos = .terminal)
        || v.roster.any (fun r => decide (r.task = m.task) && decide (r.owner = none))))
    -- a destroy that answered success: a task of the environment that is still running without a KILL and sits in the
    -- roster was put back by a kill that failed — never explained (the request had to answer an error)
    let putBack := if keep || !strict then [] else v.master.filter (fun m => !(decide (m.label ≠ k) || m.killed || decide (m.mesos = .terminal))
        && v.roster.any (fun r => decide (r.task = m.task) && decide (r.owner = none)))
    let dets := !v.dets.all (fun d => v.envs.any (fun E => decide (d ∈ E.dets)))
    let calls := !v.calls.all (fun c => decide (c.1 ≠ k) || decide (c.2.1 = c.2.2))
    if listed || dets || calls then none
    else if !ownedRows.isEmpty then none
    else if !putBack.isEmpty then none
    else if !leaks.isEmpty && launchesPromptIn e then none
    else if !leaks.isEmpty then some "launch_pending_leak"
    else none

/-- What the round's results oblige: the creations that failed (the environment must be clean afterwards). -/
def claims (c : RoundCtx) : List (Nat × Bool) :=
  (c.ops.zipIdx).flatMap (fun p =>
    match p.1, c.ro.results.getD p.2 .hang with
    | .new k, .err _ => [(k, false)]
    -- a creation and a destroy issued while it was in flight: each answer obliges on its own
    | .newd k _ _ _, .nd cr _ _ => (match cr with | .err _ => [(k, false)] | _ => [])
    | _, _ => [])

/-- … and the destroy requests that answered success (clean, and every task killed unless kept). -/
def destroyClaims (c : RoundCtx) : List (Nat × Bool) :=
  (c.ops.zipIdx).flatMap (fun p =>
    match p.1, c.ro.results.getD p.2 .hang with
    | .destroy k _ _ kp, .ok => [(k, kp)]
    | .newd k _ _ kp, .nd _ dr _ => (match dr with | .ok => [(k, kp)] | _ => [])
    | _, _ => [])

def judge (sc : Scenario) (ctxs : List RoundCtx) : Bool × String :=
  let rec go (cs : List RoundCtx) : Bool × String :=
    match cs with
    | [] => (true, "-")
    | c :: rest =>
      let cl := claims c
      let dl := destroyClaims c
      if specC06Round cl dl c.hungNow c.ro.hk c.after then go rest
      -- requests that do not return because the environment manager's mutex is deadlocked (the core's own goroutine dump
      -- showed a TeardownEnvironment waiting for a read lock it already holds behind a waiting writer): open finding
      -- teardown_recursive_rlock (C06_finding_teardown_recursive_rlock, C06_lookup_is_code)
      else if Own.Rw.nestedInCode && c.wedged && c.hungNow && hooksAfterRelease c.ro.hk then (false, "teardown_recursive_rlock")
      -- a request that does not return is a plain violation: the model of the code as it is never
      -- hangs (C06_teardown_returns_code, C06_teardown_never_hangs_code; finding teardown_registration_race is fixed)
      else if c.after.crashed || !hooksAfterRelease c.ro.hk || c.hungNow then (false, "-")
      else
        let bad := cl.filter (fun x => !cleanAfter x.1 x.2 c.after)
        let badD := dl.filter (fun x => !destroyedClean x.1 x.2 c.after)
        let ex := bad.map (fun x => explain sc c.names x.1 x.2 c.after)
          ++ badD.map (fun x => explain sc c.names x.1 x.2 c.after true)
        if ex.all Option.isSome then (false, (ex.head?.getD none).getD "-") else (false, "-")
  go ctxs

def processLine (line : String) : String := processWith judge line

end Driver.C06
