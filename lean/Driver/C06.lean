/- Driver for C06 (monitor over Model/Own + Spec.C06 on the observed views). -/
import Driver.OwnCommon

namespace Driver.C06
open Own Driver.OwnCommon

/-- DESTROY / after_DESTROY hook roles of an environment as the model sees them. -/
def hookRefs (e : EnvIn) : List HookRef :=
  (e.roles.zipIdx).filterMap (fun p =>
    if p.1.kind = .hook then some { task := p.2, weight := p.1.weight, after := p.1.after } else none)

/-- Hypothesis of `C06_destroyed_clean_partial` excluded by finding destroy_hooks_unreleased. -/
def singleWeightIn (e : EnvIn) : Bool := singleWeight (hookRefs e)

/-- Hypothesis excluded by finding launch_pending_leak: no task of the environment is
    scripted to be still starting (or dead) when its deployment is given up. -/
def launchesPromptIn (e : EnvIn) : Bool := e.roles.all (fun r => r.kind == .call || r.launch == "ok")

/-- Why `cleanAfter k keep v` fails: `some hyp` if every failing clause is explained by an
    excluded hypothesis the input violates, `none` otherwise. -/
def explain (sc : Scenario) (k : Nat) (keep : Bool) (v : View) : Option String :=
  match sc.envs[k]? with
  | none => none
  | some e =>
    let listed := !v.envs.all (fun E => decide (E.env ≠ k))
    let owned := !v.roster.all (fun r => decide (r.owner ≠ some k))
    let leak := !(keep || v.master.all (fun m => decide (m.label ≠ k) || m.killed || decide (m.mesos = .terminal)
        || v.roster.any (fun r => decide (r.task = m.task) && decide (r.owner = none))))
    let dets := !v.dets.all (fun d => v.envs.any (fun E => decide (d ∈ E.dets)))
    let calls := !v.calls.all (fun c => decide (c.1 ≠ k) || decide (c.2.1 = c.2.2))
    if listed || dets || calls then none
    else if owned && singleWeightIn e then none
    else if leak && launchesPromptIn e && singleWeightIn e then none
    else if owned then some "destroy_hooks_unreleased"
    else if leak then (if !launchesPromptIn e then some "launch_pending_leak" else some "destroy_hooks_unreleased")
    else none

/-- What the round's results oblige: environments that must be clean afterwards. -/
def claims (c : RoundCtx) : List (Nat × Bool) :=
  (c.ops.zipIdx).filterMap (fun p =>
    match p.1, c.ro.results.getD p.2 .hang with
    | .destroy k _ _ kp, .ok => some (k, kp)
    | .new k, .err _ => some (k, false)
    | _, _ => none)

def judge (sc : Scenario) (ctxs : List RoundCtx) : Bool × String :=
  let rec go (cs : List RoundCtx) : Bool × String :=
    match cs with
    | [] => (true, "-")
    | c :: rest =>
      let cl := claims c
      if specC06Round cl c.hungNow c.ro.hk c.after then go rest
      else if c.after.crashed || !hooksAfterRelease c.ro.hk then (false, "-")
      else if c.hungNow then (false, "teardown_rendezvous_race")
      else
        let bad := cl.filter (fun x => !cleanAfter x.1 x.2 c.after)
        let ex := bad.map (fun x => explain sc x.1 x.2 c.after)
        if ex.all Option.isSome then (false, (ex.head?.getD none).getD "-") else (false, "-")
  go ctxs

def processLine (line : String) : String := processWith judge line

end Driver.C06
