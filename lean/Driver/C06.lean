/- Driver for C06 (monitor over Model/Own + Spec.C06 on the observed views). -/
import Driver.OwnCommon

namespace Driver.C06
open Own Driver.OwnCommon

/-- DESTROY / after_DESTROY hook roles of an environment as the model sees them. -/
def hookRefs (e : EnvIn) : List HookRef :=
  (e.roles.zipIdx).filterMap (fun p =>
    if p.1.kind = .hook then some { task := p.2, weight := p.1.weight, after := p.1.after } else none)

/-- Hypothesis of `C06_destroyed_clean_partial` excluded by finding destroy_hooks_unreleased. -/
def singleWeightIn (e : EnvIn) : Bool := singleWeight (hookRefs e)

/-- Hypothesis excluded by finding launch_pending_leak: no task of the environment is
    scripted to be still starting (or dead) when its deployment is given up. -/
def launchesPromptIn (e : EnvIn) : Bool := e.roles.all (fun r => r.kind == .call || r.launch == "ok")

/-- Is the task with view key `x` a hook task of environment `k` (name `k.j`, role j a hook)? -/
def isHookOf (sc : Scenario) (names : List String) (k : Nat) (x : Nat) : Bool :=
  match names[x]?, sc.envs[k]? with
  | some n, some e =>
    (e.roles.zipIdx).any (fun p => p.1.kind == .hook && n == s!"{k}.{p.2}")
  | _, _ => false

/-- Why `cleanAfter k keep v` fails: `some hyp` if every failing clause is explained by an
    excluded hypothesis the input violates, `none` otherwise.
    * a task still owned by the dead environment is explained iff it is one of its DESTROY hook tasks
      (released only at the last weight and only while their role is ACTIVE: destroy_hooks_unreleased);
    * a task neither killed nor ended nor in the roster is explained iff the environment's deployment was
      scripted to be given up while tasks were still starting (launch_pending_leak). -/
def explain (sc : Scenario) (names : List String) (k : Nat) (keep : Bool) (v : View) : Option String :=
  match sc.envs[k]? with
  | none => none
  | some e =>
    let listed := !v.envs.all (fun E => decide (E.env ≠ k))
    let ownedRows := v.roster.filter (fun r => decide (r.owner = some k))
    let leaks := if keep then [] else v.master.filter (fun m => !(decide (m.label ≠ k) || m.killed || decide (m.mesos = .terminal)
        || v.roster.any (fun r => decide (r.task = m.task) && decide (r.owner = none))))
    let dets := !v.dets.all (fun d => v.envs.any (fun E => decide (d ∈ E.dets)))
    let calls := !v.calls.all (fun c => decide (c.1 ≠ k) || decide (c.2.1 = c.2.2))
    if listed || dets || calls then none
    else if !ownedRows.all (fun r => isHookOf sc names k r.task) then none
    else
      let freeLeaks := leaks.filter (fun m => !ownedRows.any (fun r => decide (r.task = m.task)))
      if !freeLeaks.isEmpty && launchesPromptIn e then none
      else if !ownedRows.isEmpty then some "destroy_hooks_unreleased"
      else if !freeLeaks.isEmpty then some "launch_pending_leak"
      else none

/-- What the round's results oblige: environments that must be clean afterwards. -/
def claims (c : RoundCtx) : List (Nat × Bool) :=
  (c.ops.zipIdx).filterMap (fun p =>
    match p.1, c.ro.results.getD p.2 .hang with
    | .destroy k _ _ kp, .ok => some (k, kp)
    | .new k, .err _ => some (k, false)
    | _, _ => none)

def judge (sc : Scenario) (ctxs : List RoundCtx) : Bool × String :=
  let rec go (cs : List RoundCtx) : Bool × String :=
    match cs with
    | [] => (true, "-")
    | c :: rest =>
      let cl := claims c
      if specC06Round cl c.hungNow c.ro.hk c.after then go rest
      else if c.after.crashed || !hooksAfterRelease c.ro.hk then (false, "-")
      else if c.hungNow then (false, "teardown_registration_race")
      else
        let bad := cl.filter (fun x => !cleanAfter x.1 x.2 c.after)
        let ex := bad.map (fun x => explain sc c.names x.1 x.2 c.after)
        if ex.all Option.isSome then (false, (ex.head?.getD none).getD "-") else (false, "-")
  go ctxs

def processLine (line : String) : String := processWith judge line

end Driver.C06
