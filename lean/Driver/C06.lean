/- Driver for C06 (stub). -/
import ControlModel.Basic

namespace Driver.C06

def processLine (_line : String) : String := "UNIMPLEMENTED\t0\t-"

end Driver.C06
