/- Driver for C07 (stub). -/
import ControlModel.Basic

namespace Driver.C07

def processLine (_line : String) : String := "UNIMPLEMENTED\t0\t-"

end Driver.C07
