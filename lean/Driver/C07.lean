/-
  Driver for C07. Line = "input<TAB>implObs", see harness/props/c07/c07.go.

  input  := (n (raft entry) sched [route]) entry := - | (raw idx)
  route  := (svc k)                        which local.Service object caller c goes through (c mod k);
                                           the model is blind to it: every caller runs the protocol itself
          | (rpc k)                        caller c goes through the gRPC hop of remote apricot c mod k: the
                                           protocol call is the same, its answer crosses `viaHop codeHop`
                                           (Model/RunRemote.lean: an error comes back as (0, that error))
          | (inst k)                       START-UPS ARE STEPS (Model/RunStartup.lean): k instances, none up at
                                           the beginning; `(s j)` constructs instance j; caller c asks instance
                                           c mod k and cannot be launched before it is up
  sched  := ((r c) | (w c) | (e c) | (f raw) | (d) | (x c) | (s j))*      (s j) only with (inst k)
  obs    := (calls store)  |  (calls store insts (own (B A)…))            the latter with (inst k)
  insts  := ((j istatus start end reqs) …)  for j = 0..k-1; reqs = what Consul processed FOR THE CONSTRUCTION
  istatus:= down | starting | up | (failed CLASS)
  own    := levels of the counter before/after every write of the code under test that Consul applied
  calls  := ((c status start end reqs) …)  for c = 0..n-1
  status := idle | pending | dead | (ok N) | (err CLASS V)
  reqs   := ((get C) | (put I BODY ANS))*  requests Consul PROCESSED for that caller
  store  := (raft entry)

  ENVIRONMENT-LEVEL stream (the first element of the input is a list), see harness/props/c07/envstream.go:

  input  := (hooks reqs nTasks)             harness/envh's format (Driver/EnvCommon.lean), requests T | C | D
  obs    := (E (cls state rn var (n…)) …)   per request: error class, state, currentRunNumber and the
                                            run_number variable afterwards, run numbers published (STARTED)

  Model: the environment machine of Model/Env.lean decides results, states and which requests are
  attempts; the NUMBERS come from Model/RunAttempts.lean (one call of the protocol per attempt, the
  counter starting absent): number k of the machine is the number obtained by the k-th call.
-/
import ControlModel.Basic
import ControlModel.Model.RunNumber
import ControlModel.Model.RunAttempts
import ControlModel.Model.RunRemote
import ControlModel.Model.RunStartup
import ControlModel.Spec.C07
import Driver.EnvCommon

namespace Driver.C07
open RunNumber

def parseEntry : SExp → Option (Option Entry)
  | .atom "-" => some none
  | .list [.atom raw, i] => do pure (some { raw := raw.toList, idx := (← i.nat?) })
  | _ => none

def parseStore : SExp → Option Store
  | .list [r, e] => do pure { entry := (← parseEntry e), raft := (← r.nat?) }
  | _ => none

def parseStep : SExp → Option Step
  | .list [.atom "r", c] => do pure (.read (← c.nat?))
  | .list [.atom "w", c] => do pure (.cas (← c.nat?))
  | .list [.atom "e", c] => do pure (.fail (← c.nat?))
  | .list [.atom "x", c] => do pure (.crash (← c.nat?))
  | .list [.atom "f", .atom raw] => some (.foreign raw.toList)
  | .list [.atom "d"] => some .del
  | _ => none

def errName : Err → String
  | .ok => "ok" | .parse => "parse" | .cas => "cas" | .http => "http" | .exhausted => "exhausted"

def optNat : Option Nat → SExp
  | none => .atom "-"
  | some n => .ofNat n

def getReq : SExp := .list [.atom "get", .atom "1"]

/-- `hop` = the caller sits behind a gRPC hop: its STATUS is what came back through the hop; the
    requests are what Consul processed for the call (recorded on the far side of the hop). -/
def callSx (c : Nat) (hop : Option Hop := none) : CState → SExp
  | .idle => .list [.ofNat c, .atom "idle", .atom "-", .atom "-", .list []]
  | .holding _ _ t => .list [.ofNat c, .atom "pending", .ofNat t, .atom "-", .list [getReq]]
  | .dead t => .list [.ofNat c, .atom "dead", optNat t, .atom "-", .list (if t.isSome then [getReq] else [])]
  | .done v e t t' q =>
    let seen : CState := match hop with
      | none => .done v e t t' q
      | some h => viaHop h (.done v e t t' q)
    let status := match seen with
      | .done v' .ok _ _ _ => SExp.list [.atom "ok", .ofNat v']
      | .done v' e' _ _ _ => SExp.list [.atom "err", .atom (errName e'), .ofNat v']
      | _ => SExp.atom "?"
    let reqs := match q with
      | none => [getReq]
      | some i =>
        let ans := match e with | .ok => "true" | .cas => "false" | _ => "500"
        [getReq, .list [.atom "put", .ofNat i, .atom (String.ofList (fmtU32 v)), .atom ans]]
    .list [.ofNat c, status, .ofNat t, .ofNat t', .list reqs]

def storeSx (st : Store) : SExp :=
  .list [.ofNat st.raft, match st.entry with
    | none => .atom "-"
    | some e => .list [.atom (String.ofList e.raw), .ofNat e.idx]]

def obsSx (n : Nat) (s : Sys) (hop : Option Hop := none) : SExp :=
  .list [.list ((List.range n).map fun c => callSx c hop (s.callers c)), storeSx s.store]

/-! ### start-ups as steps -/

def parseSStep : SExp → Option SStep
  | .list [.atom "s", j] => do pure (.start (← j.nat?))
  | x => (parseStep x).map .base

def instSx (j : Nat) : IState → SExp
  | .down => .list [.ofNat j, .atom "down", .atom "-", .atom "-", .list []]
  | .probing t => .list [.ofNat j, .atom "starting", .ofNat t, .atom "-", .list []]
  | .up t t' => .list [.ofNat j, .atom "up", .ofNat t, .ofNat t', .list []]

def ownSx (own : List (Nat × Nat)) : SExp :=
  .list (.atom "own" :: own.map fun ba => .list [.ofNat ba.1, .ofNat ba.2])

def sobsSx (n k : Nat) (s : SSys) : SExp :=
  .list [.list ((List.range n).map fun c => callSx c none (s.base.callers c)), storeSx s.base.store,
         .list ((List.range k).map fun j => instSx j (s.inst j)), ownSx s.own]

def parseOwn : SExp → Option (List (Nat × Nat))
  | .list (.atom "own" :: ps) => ps.mapM? fun
    | .list [b, a] => do pure ((← b.nat?), (← a.nat?))
    | _ => none
  | _ => none

/-- `(inst k)` as the optional fourth element. -/
def routeInst : List SExp → Option Nat
  | [.list [.atom "inst", k]] => match k.nat? with | some k => if 1 ≤ k && k ≤ 4 then some k else none | none => none
  | _ => none

def startsWithin (k : Nat) (sched : List SStep) : Bool :=
  sched.all fun | .start j => decide (j < k) | _ => true

/-- Read the implementation's observation back as `CallObs`. -/
def parseCall : SExp → Option CallObs
  | .list [c, status, t, t', .list reqs] => do
    let ok ← match status with
      | .list [.atom "ok", n] => do pure (some (← n.nat?))
      | _ => pure none
    let refused := reqs.any fun
      | .list [.atom "put", _, _, .atom "false"] => true
      | _ => false
    let wrote := reqs.any fun
      | .list [.atom "put", _, _, .atom "true"] => true
      | _ => false
    pure { caller := (← c.nat?), ok := ok, started := t.nat?.getD 0, ended := t'.nat?.getD 0, refused := refused,
           wrote := wrote }
  | _ => none

/-! ### environment-level stream -/

def iresClass : EnvM.IRes → String
  | .ok => "ok"
  | .err cls _ => cls

def nums (l : List Nat) : SExp := .list (l.map SExp.ofNat)

/-- The model's observation of a request history. -/
def envModel (i : Driver.EnvCommon.Input) : SExp :=
  let reqs := i.reqs
  let rs := EnvM.runSeq i.hooks i.nTasks {} reqs
  let as := RunAttempts.atts i.hooks i.nTasks {} reqs
  let ns := RunAttempts.attempts RunAttempts.codeEnvCfg codeProto ⟨none, 0⟩ 0 as
  -- what the successive calls (made and not failing) returned
  let calls := (as.zip ns).filterMap fun (a, n) => if a.call == .ok then some n else none
  -- the machine's number k is the number of the k-th such call (0 = no number)
  let real (k : Nat) : SExp :=
    if k == 0 then .ofNat 0 else
      match calls[k - 1]? with
      | some (some n) => .ofNat n
      | _ => .atom "?"
  .list (.atom "E" :: (rs.zip ns).map fun (r, n) =>
    .list [.atom (iresClass r.2.1.toIRes), .atom r.2.2.st.name, real r.2.2.rn,
           (match r.2.2.vars.rnVar with | none => .atom "absent" | some k => real k),
           nums n.toList])

/-- The numbers each request published, read back from the implementation's observation. -/
def parseEnvObs : SExp → Option (List (List Nat))
  | .list (.atom "E" :: es) => es.mapM? fun
    | .list [_, _, _, _, .list ns] => ns.mapM? SExp.nat?
    | _ => none
  | _ => none

def processEnv (inp impl : String) : String :=
  match Driver.EnvCommon.parseInput inp with
  | none => "BADINPUT\t0\t-"
  | some i =>
    if i.preqs.any (fun | .par .. => true | .one _ => false) then "BADINPUT\t0\t-" else
    let model := envModel i
    let spec := match (SExp.parse impl).bind parseEnvObs with
      | some pubs => SpecEnv pubs
      | none => false            -- a panic or an unparsable observation is never accepted
    s!"{model}\t{if spec then 1 else 0}\t-"

/-- The optional fourth element of a protocol input. -/
def routeOk : List SExp → Bool
  | [] => true
  | [.list [.atom "svc", k]] => match k.nat? with | some k => 1 ≤ k && k ≤ 4 | none => false
  | [.list [.atom "rpc", k]] => match k.nat? with | some k => 1 ≤ k && k ≤ 4 | none => false
  | _ => false

/-- Every caller of an `(rpc k)` case sits behind the hop as the code has it. -/
def routeHop : List SExp → Option Hop
  | [.list [.atom "rpc", _]] => some codeHop
  | _ => none

def processLine (line : String) : String :=
  match SExp.fields line with
  | [inp, impl] =>
    match SExp.parse inp with
    | some (.list [.list _, .list _, _]) => processEnv inp impl
    | some (.list [n, st, .list steps, .list [.atom "inst", kx]]) =>
      match n.nat?, parseStore st, steps.mapM? parseSStep, routeInst [.list [.atom "inst", kx]] with
      | some n, some st, some sched, some k =>
        if !(decide st.WF) || !startsWithin k sched then "BADINPUT\t0\t-" else
        let p := codeProto
        let home : Homes := fun c => some (c % k)
        let s := srun codeStart p home sched (sinit st)
        let model := sobsSx n k s
        let fm := SForeignMonotone codeStart p home sched (sinit st)
        let parsed : Option (List CallObs × List (Nat × Nat)) := do
          match (← SExp.parse impl) with
          | .list [.list cs, _, .list _, own] => pure ((← cs.mapM? parseCall), (← parseOwn own))
          | _ => none
        let spec := match parsed with
          | none => false          -- a panic or an unparsable observation is never accepted
          | some (cs, own) => SpecStart fm st.level cs own
        s!"{model}\t{if spec then 1 else 0}\t-"
      | _, _, _, _ => "BADINPUT\t0\t-"
    | some (.list (n :: st :: .list steps :: route)) =>
      match n.nat?, parseStore st, steps.mapM? parseStep with
      | some n, some st, some sched =>
        if !(decide st.WF) || !routeOk route then "BADINPUT\t0\t-" else
        let p := codeProto
        let s := run p sched (init st)
        let model := obsSx n s (routeHop route)
        let fm := ForeignMonotone p sched (init st)
        let nw := NoWrap p sched (init st)
        let calls : Option (List CallObs) := do
          match (← SExp.parse impl) with
          | .list [.list cs, _] => cs.mapM? parseCall
          | _ => none
        let (spec, hyp) :=
          match calls with
          | none => (false, "-")
          | some cs =>
            if SpecObs fm st.level cs then (true, "-")
            else if refusedIsErr cs && ownWriteB cs && fm && !nw then (false, "uint32_wrap")
            else (false, "-")
        s!"{model}\t{if spec then 1 else 0}\t{hyp}"
      | _, _, _ => "BADINPUT\t0\t-"
    | _ => "BADINPUT\t0\t-"
  | _ => "BADLINE\t0\t-"

end Driver.C07
