/- Driver for C08 (stub). -/
import ControlModel.Basic

namespace Driver.C08

def processLine (_line : String) : String := "UNIMPLEMENTED\t0\t-"

end Driver.C08
