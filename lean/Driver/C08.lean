/- Driver for C08 (monitor + Spec.C08 on the observed trace). -/
import Driver.EnvCommon
import ControlModel.Spec.C08

namespace Driver.C08
open EnvM Driver.EnvCommon

def processLine (line : String) : String :=
  processWith (fun i tr =>
    let ok := specC08 i.hooks i.reqs tr
    (ok, if !ok && !noLaterSameMomentAwait i.hooks then "await_weight_not_visited" else "-")) line

end Driver.C08
