/- Driver for C08 (monitor + Spec.C08 on the observed trace). -/
import Driver.EnvCommon
import ControlModel.Spec.C08

namespace Driver.C08
open EnvM Driver.EnvCommon

def processLine (line : String) : String :=
  -- no excluded hypothesis: the class of the former finding `await_weight_not_visited` (a call awaiting a later
  -- weight of its own trigger moment) is judged like every other input since the repair
  processWith (fun i tr => (specC08 i.hooks i.reqs tr, "-")) line

end Driver.C08
