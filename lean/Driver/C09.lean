/- Driver for C09 (monitor + Spec.C09 on the observed trace). -/
import Driver.EnvCommon
import ControlModel.Spec.C09

namespace Driver.C09
open EnvM Driver.EnvCommon

def processLine (line : String) : String :=
  processWith (fun i tr => (specC09 i.hooks i.reqs tr, "-")) line

end Driver.C09
