/- Driver for C09 (monitor + Spec.C09 on the observed trace). -/
import Driver.EnvCommon
import ControlModel.Spec.C09

namespace Driver.C09
open EnvM Driver.EnvCommon

/-- The model runs on `i.hooks` = the scripts pushed through `(*Call).Call()`'s exit logic (`codeCall`);
    the property is judged on the hooks with the ways forgotten (a failing execution is a failing
    execution) and on the ways the trace names. -/
def processLine (line : String) : String :=
  processWithRaw (fun i tr impl => (specC09K i.khooks i.reqs tr (parseWays impl), "-")) line

end Driver.C09
