/- Driver for C09 (stub). -/
import ControlModel.Basic

namespace Driver.C09

def processLine (_line : String) : String := "UNIMPLEMENTED\t0\t-"

end Driver.C09
