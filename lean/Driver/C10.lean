/- Driver for C10 (monitor + Spec.C10 on the observed trace). -/
import Driver.EnvCommon
import ControlModel.Spec.C10

namespace Driver.C10
open EnvM Driver.EnvCommon

def processLine (line : String) : String :=
  processWith (fun i tr =>
    let ok := specC10 i.hooks i.reqs tr
    -- the only class still excused is the open finding `run_end_missing_after_forced_error` (the API glue forced
    -- the state). A rewritten end stamp is NOT excused any more (finding `end_stamp_rewritten_after_failed_teardown`
    -- is repaired: `C10_eoeor_once_code`): it is a plain violation, whatever the requests were.
    (ok, if ok then "-"
         else if specC10Relaxed i.hooks i.reqs tr then "run_end_missing_after_forced_error" else "-")) line

end Driver.C10
