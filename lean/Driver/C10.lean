/- Driver for C10 (monitor + Spec.C10 on the observed trace). -/
import Driver.EnvCommon
import ControlModel.Spec.C10

namespace Driver.C10
open EnvM Driver.EnvCommon

def processLine (line : String) : String :=
  processWith (fun i tr =>
    let ok := specC10 i.hooks i.reqs tr
    (ok, if ok then "-"
         else if specC10Relaxed i.hooks i.reqs tr then "run_end_missing_after_forced_error"
         else if !noFailedTeardown i.reqs then "end_stamp_rewritten_after_failed_teardown" else "-")) line

end Driver.C10
