/- Driver for C10 (stub). -/
import ControlModel.Basic

namespace Driver.C10

def processLine (_line : String) : String := "UNIMPLEMENTED\t0\t-"

end Driver.C10
