/- Driver for C11: line = "(tree updates)<TAB>implObs"; see harness/props/c11. -/
import ControlModel.Model.RoleTree
import ControlModel.Model.RoleTreeConc
import ControlModel.Spec.C11
import ControlModel.Spec.C11Conc
import ControlModel.Model.RoleTraits
import ControlModel.Spec.C11Traits

namespace Driver.C11
open RoleTree

/-- `(T crit)`, `(C crit)`: basic task / call; `(T crit TRIGGER)`, `(C crit TRIGGER)`: hook. -/
partial def parseTForest : List SExp → Option TForest
  | [] => some .nil
  | .list (.atom "A" :: kids) :: rest => do
      let k ← parseTForest kids
      let n ← parseTForest rest
      pure (.agg .STANDBY .INACTIVE k n)
  | .list (.atom "N" :: kids) :: rest => do
      -- made by workflow.NewAggregatorRole: zero values, nothing folded yet
      let k ← parseTForest kids
      let n ← parseTForest rest
      pure (.agg .UNKNOWN .UNDEFINED k n)
  | .list [.atom "T", c] :: rest => do
      let n ← parseTForest rest
      pure (.leaf false ⟨← c.bool?, false⟩ .STANDBY .INACTIVE n)
  | .list [.atom "C", c] :: rest => do
      let n ← parseTForest rest
      pure (.leaf true ⟨← c.bool?, false⟩ .STANDBY .INACTIVE n)
  | .list [.atom "T", c, .atom trig] :: rest => do
      let n ← parseTForest rest
      pure (.leaf false ⟨← c.bool?, !trig.isEmpty⟩ .STANDBY .INACTIVE n)
  | .list [.atom "C", c, .atom trig] :: rest => do
      let n ← parseTForest rest
      pure (.leaf true ⟨← c.bool?, !trig.isEmpty⟩ .STANDBY .INACTIVE n)
  | _ => none

/-- The concurrent model (Model/RoleTreeConc.lean) works on the tree without traits. -/
def parseForest (xs : List SExp) : Option Forest := (parseTForest xs).map forget

def parsePath (p : SExp) : Option (List Nat) := do
  (← p.list?).mapM? SExp.nat?

def parseUpdate : SExp → Option Update
  | .list [.atom "S", p, .atom v] => do pure (.state (← parsePath p) (← TState.parse? v))
  | .list [.atom "U", p, .atom v] => do pure (.status (← parsePath p) (← TStatus.parse? v))
  | _ => none

def dumpSx (f : TForest) : SExp :=
  .list ((dumpT f).map fun (s, u) => .list [.atom s.name, .atom u.name])

/-- Refill a forest's values from a pre-order dump. -/
def refill : TForest → List (TState × TStatus) → Option (TForest × List (TState × TStatus))
  | .nil, d => some (.nil, d)
  | .leaf c tr _ _ next, (s, u) :: d => do
      let (n, d') ← refill next d
      pure (.leaf c tr s u n, d')
  | .agg _ _ kids next, (s, u) :: d => do
      let (k, d1) ← refill kids d
      let (n, d2) ← refill next d1
      pure (.agg s u k n, d2)
  | _, [] => none

def parseDump (d : SExp) : Option (List (TState × TStatus)) := do
  (← d.list?).mapM? fun
    | .list [.atom s, .atom u] => do pure ((← TState.parse? s), (← TStatus.parse? u))
    | _ => none

/-! ### concurrent mode: input `(conc tree pre threads sched)`, see harness/props/c11/conc.go -/

def parseThread : SExp → Option (Nat × TState)
  | .list [i, .atom v] => do pure ((← i.nat?), (← TState.parse? v))
  | _ => none

def traceSx (tr : List (String × List Nat)) : SExp :=
  .list (tr.map fun (o, ws) => .list (.atom o :: ws.map SExp.ofNat))

def processConc (tree : SExp) (pre thr sched : List SExp) (impl : String) : String :=
  match parseForest [tree], pre.mapM? parseUpdate, thr.mapM? parseThread, sched.mapM? SExp.nat? with
  | some f0, some us, some ths, some sc =>
    let f1 := run f0 us
    let T := Conc.flatten f1 ths
    if !T.wf then "REJECT:tree-not-wellformed\t0\t-" else
    let c0 := Conc.initCfg f1
    -- the hypotheses of C11_conc_spec, checked for this very input
    if !(Conc.errUp T c0.st) then "REJECT:initial-tree-not-error-closed\t0\t-" else
    let (fine, trace) := Conc.replay T c0 sc
    let fin := Conc.exec T c0 fine
    let n := T.nodes.length
    let stati := (dump f1).map (·.2)
    let modelDump : SExp := .list ((List.range n).map fun k =>
      .list [.atom (fin.st k).name, .atom (stati.getD k .UNDEFINED).name])
    let model : SExp :=
      if Conc.quiescent T fin then .list [.atom "conc", traceSx trace, modelDump]
      else .list [.atom "conc-not-quiescent", traceSx trace, modelDump]
    -- Spec.C11conc on what the implementation reported when every UpdateState had returned
    let spec : Bool :=
      match SExp.parse impl with
      | some (.list [.atom "conc", _, d]) =>
        match parseDump d with
        | some ds =>
          let sts := ds.map (·.1)
          Conc.concOk T c0.st (fun k => sts.getD k .UNKNOWN) && ds.length == n && ds.map (·.2) == stati
        | none => false
      | _ => false
    s!"{model}\t{if spec then 1 else 0}\t-"
  | _, _, _, _ => "BADINPUT\t0\t-"

def processLine (line : String) : String :=
  match SExp.fields line with
  | [inp, impl] =>
    match SExp.parse inp with
    | some (.list [.atom "conc", tree, .list pre, .list thr, .list sched]) => processConc tree pre thr sched impl
    | some (.list [tree, .list ups]) =>
      match parseTForest [tree], ups.mapM? parseUpdate with
      | some f, some us =>
        let model := SExp.list ((traceT f us).map dumpSx)
        -- Spec on what the implementation reported
        let implForests : Option (List TForest) := do
          let ds ← (← SExp.parse impl).list?
          ds.mapM? fun d => do
            let (g, rest) ← refill f (← parseDump d)
            if rest.isEmpty then pure g else none
        let (spec, hyp) :=
          match implForests with
          | none => (false, "-")
          | some gs =>
            if !(uniformInitT f) then
              -- non-uniform presets (N nodes): per update, the path above the updated leaf is re-folded
              (stepsOkT gs us && gs.length == us.length + 1 && (gs.head?.map dumpT) == some (dumpT f), "-")
            else
            let sOk := gs.all stateOkT
            let uOk := gs.all statusOkT
            if sOk && uOk then (true, "-")
            else if uOk && !(noBarrenT f) then (false, "barren_aggregator")
            else (false, "-")
        s!"{model}\t{if spec then 1 else 0}\t{hyp}"
      | _, _ => "BADINPUT\t0\t-"
    | _ => "BADINPUT\t0\t-"
  | _ => "BADLINE\t0\t-"

end Driver.C11
