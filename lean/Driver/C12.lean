/- Driver for C12: line = "(cmds script [executors])<TAB>(events final)"; see harness/props/c12.

   Monitor style. The implementation's observation is the linearisation the
   harness recorded (send calls, ProcessResponse calls, callbacks). The driver
   replays it on `CmdQueue.step`: sends and response arrivals are applied where
   they were observed; the model's INTERNAL steps (a caller receiving its
   response, a caller timing out, commit completing) are not observable, so they
   are placed using the outcome the implementation finally reported — and the
   replay REJECTs when no placement exists (a reply reported that the model never
   delivers to that caller, a reply that reached a pending caller but another one
   is reported, a second callback, a result that is not the model's `commit`, …).
   Each send event also carries the response timeout and the arguments of the
   command object the send function was handed: they must be those of the
   model's single-target command (`sendView`). A `P` event (ProcessResponse
   returned) is no step of the model; its `early` flag forbids placing the
   caller's timeout before the lookup of that reply.
   The hand-over of the answer: `(L c)` = the caller of a late-listener command
   reaches its receive (`listen c`; every other command listens from the start);
   `(B c held)` = a goroutine dump found the consumer blocked in the send on c's
   callback channel: the model must have c's commit over and its answer on offer,
   not taken; `(B c idle|passed)` = the consumer is past c: the model needs the
   rendezvous (`take c`) to have happened, i.e. a reported callback. A command is
   dequeued (`start`) only when no other command of its queue is between dequeue
   and rendezvous; a callback whose listener reports it later than the next
   command's first send is taken at that send (receiving and recording are two steps).
   The servent mutex: the replay runs on the queue layer, which the lock layer
   (Model/CmdLock: leave windows, the mutex) refines (`C12_lock_refines`); a reply issued
   from inside a send call that then fails is replayed as `sendFail` followed by an inert
   `deliver` — for the caller the same as the lock layer's `expire; deliver; unregister`
   (`C12_window_reply_leaks_not_fails`). `(stuck c L S)` = two goroutine dumps prove
   that command c is wedged behind the servent mutex: never a behaviour of the model
   (`C12_lock_free_at_rest`, `C12_never_stuck`, `C12_can_always_complete_in_windows`).
   Spec.C12 is evaluated on the same observation, independently of the replay. -/
import ControlModel.Basic
import ControlModel.Model.CmdQueue
import ControlModel.Model.CmdHandover
import ControlModel.Spec.C12

namespace Driver.C12
open CmdQueue

def parseCmds (x : SExp) : Option (List Cmd) := do
  let cs ← x.list?
  let rec go (i : Nat) : List SExp → Option (List Cmd)
    | [] => some []
    | .list (_q :: tmo :: ts) :: rest => do
        let tg ← ts.mapM? fun
          | .list [t, _] => t.nat?
          | .list [t, _, _] => t.nat?
          | _ => none
        let ar ← ts.mapM? fun
          | .list [t, _, a] => do pure [((← t.nat?), (← a.nat?))]
          | _ => some []
        let more ← go (i + 1) rest
        pure ({ id := 100 + i, targets := tg, tmo := ← tmo.nat?, args := ar.flatten } :: more)
    | _ => none
  go 0 cs

def parseEntry : SExp → Option TResp
  | .list [.atom "own", id, sender, tag, err] => do
      pure (.own ⟨← id.nat?, ← sender.nat?, ← tag.nat?, ← err.bool?⟩)
  | .list [.atom "synth", id, .atom "send"] => do pure (.synth (← id.nat?) .send)
  | .list [.atom "synth", id, .atom "timeout"] => do pure (.synth (← id.nat?) .timeout)
  | _ => none

/-- A result plus, for a multi-response, the keys of `Errors()`. -/
def parseResult : SExp → Option (Result × List Nat)
  | .atom "nil" => some (.nil, [])
  | .list [.atom "single", e] => do pure (.single (← parseEntry e), [])
  | .list [.atom "multi", id, .list ents, .list (.atom "errs" :: errs)] => do
      let m ← ents.mapM? fun
        | .list [t, e] => do pure ((← t.nat?), (← parseEntry e))
        | _ => none
      pure (.multi (← id.nat?) m, ← errs.mapM? SExp.nat?)
  | _ => none

def parseEvent : SExp → Option (Ev × List Nat)
  | .list [.atom "S", c, t, ok, tmo, arg] => do
      pure (.send (← c.nat?) (← t.nat?) (← ok.bool?) (← tmo.nat?) (← arg.nat?), [])
  | .list [.atom "R", id, t, tag, err] => do
      pure (.resp ⟨← id.nat?, ← t.nat?, ← tag.nat?, ← err.bool?⟩, [])
  | .list [.atom "P", id, t, tag, err, early] => do
      pure (.ret ⟨← id.nat?, ← t.nat?, ← tag.nat?, ← err.bool?⟩ (← early.bool?), [])
  | .list [.atom "D", c, res] => do
      let (r, errs) ← parseResult res
      pure (.done (← c.nat?) r, errs)
  | .list [.atom "L", c] => do pure (.listen (← c.nat?), [])
  | .list [.atom "B", c, .atom "held"] => do pure (.probe (← c.nat?) .held, [])
  | .list [.atom "B", c, .atom "idle"] => do pure (.probe (← c.nat?) .idle, [])
  | .list [.atom "B", c, .atom "passed"] => do pure (.probe (← c.nat?) .passed, [])
  | .list [.atom "stuck", c, l, s] => do
      let _ ← l.nat?
      let _ ← s.nat?
      pure (.stuck (← c.nat?), [])
  | _ => none

def parseFinal : SExp → Option (Nat × Result)
  | .list [c, res] => do pure ((← c.nat?), (← parseResult res).1)
  | _ => none

/-! canonical form: a Go map has no order -/

def insertSorted (e : Nat × TResp) : List (Nat × TResp) → List (Nat × TResp)
  | [] => [e]
  | x :: xs => if e.1 ≤ x.1 then e :: x :: xs else x :: insertSorted e xs

def canon : Result → Result
  | .multi id m => .multi id (m.foldr insertSorted [])
  | r => r

def insertNat (e : Nat) : List Nat → List Nat
  | [] => [e]
  | x :: xs => if e ≤ x then e :: x :: xs else x :: insertNat e xs

def sortNat (l : List Nat) : List Nat := l.foldr insertNat []

def showEntry : TResp → String
  | .own r => s!"own[{r.id},{r.sender},tag{r.tag}]"
  | .synth id .send => s!"sendErr[{id}]"
  | .synth id .timeout => s!"timeout[{id}]"

def showResult : Result → String
  | .nil => "nil"
  | .single e => s!"single:{showEntry e}"
  | .multi id m => s!"multi[{id}]:" ++ ",".intercalate (m.map fun (t, e) => s!"{t}={showEntry e}")

def posOf (l : List Nat) (t : Nat) : Option Nat := l.findIdx? (· == t)

/-- What the implementation finally reported for caller `i` (first callback of its command). -/
def want (cmds : List Cmd) (evs : List Ev) (i : Ref) : Option TResp := do
  let cmd ← cmds[i.1]?
  let t ← cmd.targets[i.2]?
  let res ← evs.findSome? fun
    | .done c r => if c == i.1 then some r else none
    | _ => none
  entryOf cmd res t

/-- The queue each command is enqueued on. -/
def parseQs (x : SExp) : Option (List Nat) := do
  let cs ← x.list?
  cs.mapM? fun
    | .list (q :: _) => q.nat?
    | _ => none

/-- The optional third field of the input: the assignment of targets to executors,
    `((t e)*)` — target `t` (its task id) sits behind agent+executor `e`; a target that is
    not listed has an executor of its own. The replay does not use it: the code's key holds
    the whole target, and with that key the assignment does not enter the model
    (`C12_executors_irrelevant`, `C12_own_or_error_every_partition`; tie `C12_key_cfg_is_code`). -/
def parseEx : List SExp → Option (List (Nat × Nat))
  | [] => some []
  | [.list ps] => ps.mapM? fun
      | .list [t, e] => do pure ((← t.nat?), (← e.nat?))
      | _ => none
  | _ => none

/-- Monitor state: the model's state (queue layer on top of the servent/commit
    layer) plus the commands whose reported callback has been matched. -/
structure Mon where
  s : QState
  reported : List Nat

def baseStep (cmds : List Cmd) (qs : List Nat) (s : QState) (st : Step) : QState :=
  qstep cmds (queueOf qs) s (.base st)

def settleCallers (cmds : List Cmd) (qs : List Nat) (evs : List Ev) (c : Nat) : List Nat → QState → Except String QState
  | [], s => pure s
  | p :: ps, s =>
    match (s.base.call (c, p)).pc with
    | .finished _ => settleCallers cmds qs evs c ps s
    | .waiting =>
      match want cmds evs (c, p) with
      | some (.synth _ .timeout) => settleCallers cmds qs evs c ps (baseStep cmds qs s (.timeout (c, p)))
      | some e => throw s!"implementation reports {showEntry e} for caller ({c},{p}) which per the model is still waiting and can only time out"
      | none => throw s!"no entry reported for caller ({c},{p})"
    | _ => throw s!"commit of command {c} over before the send to its target #{p}"

/-- `commit` of the dequeued command `c` returns: every caller still waiting times
    out (that is what the implementation reports for it), then `complete c`. -/
def completeStarted (cmds : List Cmd) (qs : List Nat) (evs : List Ev) (s : QState) (c : Nat) : Except String QState := do
  if s.base.completed c then return s
  let some cmd := cmds[c]? | throw s!"unknown command {c}"
  let s ← settleCallers cmds qs evs c (List.range cmd.targets.length) s
  let s := baseStep cmds qs s (.complete c)
  if !s.base.completed c then throw s!"command {c} cannot complete in the model"
  pure s

/-- Another command of the same queue shows activity, so the hand-over of `c0`
    must be over: the rendezvous took place (the listener's record of it may come
    later in the trace — receiving and recording are two steps). -/
def forceTake (cmds : List Cmd) (qs : List Nat) (evs : List Ev) (s : QState) (c0 by_ : Nat) : Except String QState := do
  if !s.listening c0 then
    throw s!"command {by_} was dequeued while the answer of command {c0} (same queue) had not been taken: nobody was listening on its callback channel yet, the hand-over must wait"
  if !evs.any (isDone c0) then
    throw s!"command {by_} was dequeued although no answer ever arrived on the callback channel of command {c0} (same queue): the hand-over must wait for the caller"
  let s ← completeStarted cmds qs evs s c0
  let s := qstep cmds (queueOf qs) s (.take c0)
  if !s.taken c0 then throw s!"command {by_} was dequeued while the answer of command {c0} (same queue) could not have been taken"
  pure s

/-- Dequeue `c` (`start c`): the consumer of its queue must be free. -/
def ensureStarted (cmds : List Cmd) (qs : List Nat) (evs : List Ev) (s : QState) (c : Nat) : Except String QState := do
  if s.base.started c then return s
  let mut s := s
  for c0 in List.range cmds.length do
    if c0 != c && queueOf qs c0 == queueOf qs c && s.base.started c0 && !s.taken c0 then
      s ← forceTake cmds qs evs s c0 c
  -- a command without targets is dequeued without any send: nothing shows its turn but
  -- its callback, and the listener's record of that may come after the next command's
  -- first send. Such a command, once its caller listens, has its whole turn here.
  for c0 in List.range cmds.length do
    if c0 != c && queueOf qs c0 == queueOf qs c && !s.base.started c0 && !s.taken c0 && s.listening c0 &&
        evs.any (isDone c0) && (cmds[c0]?.map (·.targets.isEmpty)).getD false then
      s := baseStep cmds qs s (.start c0)
      s ← completeStarted cmds qs evs s c0
      s := qstep cmds (queueOf qs) s (.take c0)
  let s' := baseStep cmds qs s (.start c)
  if !s'.base.started c then throw s!"command {c} cannot be dequeued in the model"
  pure s'

def onSend (cmds : List Cmd) (qs : List Nat) (evs : List Ev) (s : QState) (c t : Nat) (ok : Bool) (tmo arg : Nat) :
    Except String QState := do
  let some cmd := cmds[c]? | throw s!"send for unknown command {c}"
  let some p := posOf cmd.targets t | throw s!"send of command {c} to {t}, which is not one of its targets"
  if (s.base.call (c, p)).pc ≠ .idle then throw s!"second send of command {c} to target {t}"
  -- the command object the caller runs with (commit: MakeSingleTarget) is what the send function is handed
  match sendView cmds (c, p) ok with
  | some (.send _ _ _ mtmo marg) =>
    if mtmo ≠ tmo ∨ marg ≠ arg then
      throw s!"send of command {c} to target {t}: handed a command with response timeout {tmo} and arguments {arg}, the model's single-target command has {mtmo} and {marg}"
  | _ => throw s!"no single-target command of command {c} for target {t}"
  if s.base.completed c then throw s!"send of command {c} to target {t} after its commit was over"
  let s ← ensureStarted cmds qs evs s c
  let s := baseStep cmds qs s (.register (c, p))
  pure (baseStep cmds qs s (if ok then .sendOk (c, p) else .sendFail (c, p)))

def onResp (cmds : List Cmd) (qs : List Nat) (evs : List Ev) (s : QState) (r : Resp) : Except String QState :=
  match s.base.pending r.key with
  | none => pure s
  | some i =>
    match want cmds evs i with
    | some (.own r') =>
      if r' = r then pure (baseStep cmds qs (baseStep cmds qs s (.deliver r)) (.recv i))
      else throw s!"reply tag{r.tag} reaches the pending call ({r.id},{r.sender}) but the implementation reports {showEntry (.own r')} for it"
    | some (.synth _ .timeout) =>
      -- the timeout can have fired before this reply was looked up — unless the reply's
      -- ProcessResponse is known to have returned before the timer could fire: then it
      -- found the pending call and returned only after handing the reply over
      if evs.contains (.ret r true) then
        throw s!"reply tag{r.tag} was looked up while the call ({r.id},{r.sender}) was pending and before its timeout could fire, but the implementation reports a timeout for it"
      else pure (baseStep cmds qs (baseStep cmds qs s (.timeout i)) (.deliver r))
    | some (.synth _ .send) => throw s!"call ({r.id},{r.sender}) was sent but the implementation reports a send error"
    | none => pure (baseStep cmds qs s (.deliver r))

def onDone (cmds : List Cmd) (qs : List Nat) (evs : List Ev) (m : Mon) (c : Nat) (res : Result) (errs : List Nat) :
    Except String Mon := do
  if c ≥ cmds.length then throw s!"callback for unknown command {c}"
  if m.reported.contains c then
    throw s!"callback for command {c}, which the model has already answered (exactly-once broken)"
  let mut s := m.s
  if !s.listening c then throw s!"callback of command {c} received although nobody listens to it yet"
  if !s.taken c then
    -- a command without targets is dequeued without any send
    s ← ensureStarted cmds qs evs s c
    s ← completeStarted cmds qs evs s c
    s := qstep cmds (queueOf qs) s (.take c)
    if !s.taken c then throw s!"callback for command {c}, whose answer the model cannot hand over"
  match s.received.find? (·.1 == c) with
  | some (_, mres) =>
    if canon mres ≠ canon res then
      throw s!"result of command {c}: implementation {showResult (canon res)}, model {showResult (canon mres)}"
    if sortNat (errTargets mres) ≠ sortNat errs then
      throw s!"Errors() of command {c}: implementation {sortNat errs}, model {sortNat (errTargets mres)}"
    pure { s := s, reported := c :: m.reported }
  | none => throw "no callback"

def showWhere : Where → String
  | .held => "blocked in the hand-over"
  | .idle => "idle in its receive on the queue channel"
  | .passed => "busy with a command enqueued behind it"

/-- The consumer goroutine of `c`'s queue was found there. `held`: `commit` of `c`
    is over and its answer on offer, not taken. `idle` / `passed`: the loop body
    of `c` is over, which in the model needs the rendezvous with the caller. -/
def onProbe (cmds : List Cmd) (qs : List Nat) (evs : List Ev) (s : QState) (c : Nat) (w : Where) : Except String QState := do
  if c ≥ cmds.length then throw s!"probe of unknown command {c}"
  match w with
  | .held =>
    let s ← ensureStarted cmds qs evs s c
    let s ← completeStarted cmds qs evs s c
    if s.taken c then throw s!"consumer found blocked handing over the answer of command {c}, which its caller has already received"
    pure s
  | _ =>
    if !s.taken c then
      throw s!"the consumer of command {c}'s queue was found {showWhere w} while nothing had arrived on the callback channel of command {c}: the consumer did not wait for the caller (the answer was dropped or left behind); in the model the hand-over waits for the caller, however late it listens"
    pure s

def monitor (cmds : List Cmd) (qs : List Nat) (all : List (Ev × List Nat)) (final : List (Nat × Result)) : Except String Unit := do
  let evs := all.map (·.1)
  let late := lateSet evs
  let mut m : Mon := { s := qinit, reported := [] }
  -- a caller that does `Enqueue(cmd, notify); <-notify` listens from the start
  for c in List.range cmds.length do
    if !late.contains c then m := { m with s := qstep cmds (queueOf qs) m.s (.listen c) }
  for (e, errs) in all do
    match e with
    | .send c t ok tmo arg => m := { m with s := ← onSend cmds qs evs m.s c t ok tmo arg }
    | .resp r => m := { m with s := ← onResp cmds qs evs m.s r }
    | .ret r e =>
      -- ProcessResponse returns at once (nothing pending) or after the hand-over: no step of its own
      if !(evs.takeWhile (· != .ret r e)).contains (.resp r) then
        throw s!"ProcessResponse of reply tag{r.tag} returned before it was issued"
    | .done c res => m ← onDone cmds qs evs m c res errs
    | .listen c =>
      if m.s.listening c then throw s!"second listener for command {c}"
      m := { m with s := qstep cmds (queueOf qs) m.s (.listen c) }
    | .probe c w => m := { m with s := ← onProbe cmds qs evs m.s c w }
    | .stuck c =>
      throw s!"command {c} is wedged for ever behind the servent mutex: goroutines of its commit are parked in s.mu.Lock() while every other goroutine inside the Servent is parked too (ProcessResponse in its hand-over on call.Done), none is in RunCommand's select, none runs — the mutex is held by a goroutine that can never release it. In the model the mutex is released BEFORE the hand-over, is free whenever anybody is blocked, a reply that meets a caller on its way out is parked holding nothing, and every dequeued command can always complete"
  let s := m.s
  for c in List.range cmds.length do
    if s.taken c = false then throw s!"command {c} never completed: no answer arrived on its callback channel"
    if !m.reported.contains c then throw s!"command {c}: its callback was never reported"
  if final.length ≠ s.received.length then
    throw s!"{final.length} results read at the end, model delivered {s.received.length}"
  for (c, res) in final do
    match s.received.find? (·.1 == c) with
    | some (_, mres) =>
      if canon mres ≠ canon res then
        throw s!"result of command {c} read at the end: {showResult (canon res)}, delivered {showResult (canon mres)}"
    | none => throw s!"result for command {c} which the model never answered"

def processLine (line : String) : String :=
  match SExp.fields line with
  | [inp, impl] =>
    match SExp.parse inp with
    | some (.list (cs :: _script :: exs)) =>
      match parseCmds cs, parseQs cs, parseEx exs with
      | some cmds, some qs, some _ex =>
        match SExp.parse impl with
        | some (.list [.list evs, .list fin]) =>
          match evs.mapM? parseEvent, fin.mapM? parseFinal with
          | some all, some final =>
            let model := match monitor cmds qs all final with
              | .ok _ => "ACCEPT"
              | .error e => "REJECT:" ++ e
            let spec := Spec cmds qs (all.map (·.1)) final
            s!"{model}\t{if spec then 1 else 0}\t-"
          | _, _ => "REJECT:observation holds something that is neither a scripted reply nor a synthesised error, or a send call that was handed something other than the command restricted to its target\t0\t-"
        | _ => "REJECT:unparseable observation\t0\t-"
      | _, _, _ => "BADINPUT\t0\t-"
    | _ => "BADINPUT\t0\t-"
  | _ => "BADLINE\t0\t-"

end Driver.C12
