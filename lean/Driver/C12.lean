/- Driver for C12 (stub). -/
import ControlModel.Basic

namespace Driver.C12

def processLine (_line : String) : String := "UNIMPLEMENTED\t0\t-"

end Driver.C12
