/- Driver for C12: line = "(cmds script)<TAB>(events final)"; see harness/props/c12.

   Monitor style. The implementation's observation is the linearisation the
   harness recorded (send calls, ProcessResponse calls, callbacks). The driver
   replays it on `CmdQueue.step`: sends and response arrivals are applied where
   they were observed; the model's INTERNAL steps (a caller receiving its
   response, a caller timing out, commit completing) are not observable, so they
   are placed using the outcome the implementation finally reported — and the
   replay REJECTs when no placement exists (a reply reported that the model never
   delivers to that caller, a reply that reached a pending caller but another one
   is reported, a second callback, a result that is not the model's `commit`, …).
   Each send event also carries the response timeout and the arguments of the
   command object the send function was handed: they must be those of the
   model's single-target command (`sendView`). A `P` event (ProcessResponse
   returned) is no step of the model; its `early` flag forbids placing the
   caller's timeout before the lookup of that reply.
   Spec.C12 is evaluated on the same observation, independently of the replay. -/
import ControlModel.Basic
import ControlModel.Model.CmdQueue
import ControlModel.Spec.C12

namespace Driver.C12
open CmdQueue

def parseCmds (x : SExp) : Option (List Cmd) := do
  let cs ← x.list?
  let rec go (i : Nat) : List SExp → Option (List Cmd)
    | [] => some []
    | .list (_q :: tmo :: ts) :: rest => do
        let tg ← ts.mapM? fun
          | .list [t, _] => t.nat?
          | .list [t, _, _] => t.nat?
          | _ => none
        let ar ← ts.mapM? fun
          | .list [t, _, a] => do pure [((← t.nat?), (← a.nat?))]
          | _ => some []
        let more ← go (i + 1) rest
        pure ({ id := 100 + i, targets := tg, tmo := ← tmo.nat?, args := ar.flatten } :: more)
    | _ => none
  go 0 cs

def parseEntry : SExp → Option TResp
  | .list [.atom "own", id, sender, tag, err] => do
      pure (.own ⟨← id.nat?, ← sender.nat?, ← tag.nat?, ← err.bool?⟩)
  | .list [.atom "synth", id, .atom "send"] => do pure (.synth (← id.nat?) .send)
  | .list [.atom "synth", id, .atom "timeout"] => do pure (.synth (← id.nat?) .timeout)
  | _ => none

/-- A result plus, for a multi-response, the keys of `Errors()`. -/
def parseResult : SExp → Option (Result × List Nat)
  | .atom "nil" => some (.nil, [])
  | .list [.atom "single", e] => do pure (.single (← parseEntry e), [])
  | .list [.atom "multi", id, .list ents, .list (.atom "errs" :: errs)] => do
      let m ← ents.mapM? fun
        | .list [t, e] => do pure ((← t.nat?), (← parseEntry e))
        | _ => none
      pure (.multi (← id.nat?) m, ← errs.mapM? SExp.nat?)
  | _ => none

def parseEvent : SExp → Option (Ev × List Nat)
  | .list [.atom "S", c, t, ok, tmo, arg] => do
      pure (.send (← c.nat?) (← t.nat?) (← ok.bool?) (← tmo.nat?) (← arg.nat?), [])
  | .list [.atom "R", id, t, tag, err] => do
      pure (.resp ⟨← id.nat?, ← t.nat?, ← tag.nat?, ← err.bool?⟩, [])
  | .list [.atom "P", id, t, tag, err, early] => do
      pure (.ret ⟨← id.nat?, ← t.nat?, ← tag.nat?, ← err.bool?⟩ (← early.bool?), [])
  | .list [.atom "D", c, res] => do
      let (r, errs) ← parseResult res
      pure (.done (← c.nat?) r, errs)
  | _ => none

def parseFinal : SExp → Option (Nat × Result)
  | .list [c, res] => do pure ((← c.nat?), (← parseResult res).1)
  | _ => none

/-! canonical form: a Go map has no order -/

def insertSorted (e : Nat × TResp) : List (Nat × TResp) → List (Nat × TResp)
  | [] => [e]
  | x :: xs => if e.1 ≤ x.1 then e :: x :: xs else x :: insertSorted e xs

def canon : Result → Result
  | .multi id m => .multi id (m.foldr insertSorted [])
  | r => r

def insertNat (e : Nat) : List Nat → List Nat
  | [] => [e]
  | x :: xs => if e ≤ x then e :: x :: xs else x :: insertNat e xs

def sortNat (l : List Nat) : List Nat := l.foldr insertNat []

def showEntry : TResp → String
  | .own r => s!"own[{r.id},{r.sender},tag{r.tag}]"
  | .synth id .send => s!"sendErr[{id}]"
  | .synth id .timeout => s!"timeout[{id}]"

def showResult : Result → String
  | .nil => "nil"
  | .single e => s!"single:{showEntry e}"
  | .multi id m => s!"multi[{id}]:" ++ ",".intercalate (m.map fun (t, e) => s!"{t}={showEntry e}")

def posOf (l : List Nat) (t : Nat) : Option Nat := l.findIdx? (· == t)

/-- What the implementation finally reported for caller `i` (first callback of its command). -/
def want (cmds : List Cmd) (evs : List Ev) (i : Ref) : Option TResp := do
  let cmd ← cmds[i.1]?
  let t ← cmd.targets[i.2]?
  let res ← evs.findSome? fun
    | .done c r => if c == i.1 then some r else none
    | _ => none
  entryOf cmd res t

def onSend (cmds : List Cmd) (s : State) (c t : Nat) (ok : Bool) (tmo arg : Nat) : Except String State := do
  let some cmd := cmds[c]? | throw s!"send for unknown command {c}"
  let some p := posOf cmd.targets t | throw s!"send of command {c} to {t}, which is not one of its targets"
  if (s.call (c, p)).pc ≠ .idle then throw s!"second send of command {c} to target {t}"
  -- the command object the caller runs with (commit: MakeSingleTarget) is what the send function is handed
  match sendView cmds (c, p) ok with
  | some (.send _ _ _ mtmo marg) =>
    if mtmo ≠ tmo ∨ marg ≠ arg then
      throw s!"send of command {c} to target {t}: handed a command with response timeout {tmo} and arguments {arg}, the model's single-target command has {mtmo} and {marg}"
  | _ => throw s!"no single-target command of command {c} for target {t}"
  let s := step cmds s (.start c)
  let s := step cmds s (.register (c, p))
  pure (step cmds s (if ok then .sendOk (c, p) else .sendFail (c, p)))

def onResp (cmds : List Cmd) (evs : List Ev) (s : State) (r : Resp) : Except String State :=
  match s.pending r.key with
  | none => pure s
  | some i =>
    match want cmds evs i with
    | some (.own r') =>
      if r' = r then pure (step cmds (step cmds s (.deliver r)) (.recv i))
      else throw s!"reply tag{r.tag} reaches the pending call ({r.id},{r.sender}) but the implementation reports {showEntry (.own r')} for it"
    | some (.synth _ .timeout) =>
      -- the timeout can have fired before this reply was looked up — unless the reply's
      -- ProcessResponse is known to have returned before the timer could fire: then it
      -- found the pending call and returned only after handing the reply over
      if evs.contains (.ret r true) then
        throw s!"reply tag{r.tag} was looked up while the call ({r.id},{r.sender}) was pending and before its timeout could fire, but the implementation reports a timeout for it"
      else pure (step cmds (step cmds s (.timeout i)) (.deliver r))
    | some (.synth _ .send) => throw s!"call ({r.id},{r.sender}) was sent but the implementation reports a send error"
    | none => pure (step cmds s (.deliver r))

def settleCallers (cmds : List Cmd) (evs : List Ev) (c : Nat) : List Nat → State → Except String State
  | [], s => pure s
  | p :: ps, s =>
    match (s.call (c, p)).pc with
    | .finished _ => settleCallers cmds evs c ps s
    | .waiting =>
      match want cmds evs (c, p) with
      | some (.synth _ .timeout) => settleCallers cmds evs c ps (step cmds s (.timeout (c, p)))
      | some e => throw s!"implementation reports {showEntry e} for caller ({c},{p}) which per the model is still waiting and can only time out"
      | none => throw s!"no entry reported for caller ({c},{p})"
    | _ => throw s!"callback of command {c} before the send to its target #{p}"

def onDone (cmds : List Cmd) (evs : List Ev) (s : State) (c : Nat) (res : Result) (errs : List Nat) :
    Except String State := do
  let some cmd := cmds[c]? | throw s!"callback for unknown command {c}"
  -- a command without targets is dequeued without any send
  let s := if cmd.targets.isEmpty then step cmds s (.start c) else s
  let s ← settleCallers cmds evs c (List.range cmd.targets.length) s
  let before := s.callbacks.length
  let s := step cmds s (.complete c)
  if s.callbacks.length = before then
    throw s!"callback for command {c}, which the model has already answered or never started (exactly-once broken)"
  match s.callbacks.getLast? with
  | some (_, mres) =>
    if canon mres ≠ canon res then
      throw s!"result of command {c}: implementation {showResult (canon res)}, model {showResult (canon mres)}"
    if sortNat (errTargets mres) ≠ sortNat errs then
      throw s!"Errors() of command {c}: implementation {sortNat errs}, model {sortNat (errTargets mres)}"
    pure s
  | none => throw "no callback"

def monitor (cmds : List Cmd) (all : List (Ev × List Nat)) (final : List (Nat × Result)) : Except String Unit := do
  let evs := all.map (·.1)
  let mut s := init
  for (e, errs) in all do
    match e with
    | .send c t ok tmo arg => s ← onSend cmds s c t ok tmo arg
    | .resp r => s ← onResp cmds evs s r
    | .ret r e =>
      -- ProcessResponse returns at once (nothing pending) or after the hand-over: no step of its own
      if !(evs.takeWhile (· != .ret r e)).contains (.resp r) then
        throw s!"ProcessResponse of reply tag{r.tag} returned before it was issued"
    | .done c res => s ← onDone cmds evs s c res errs
  for c in List.range cmds.length do
    if s.completed c = false then throw s!"command {c} never completed"
  if final.length ≠ s.callbacks.length then
    throw s!"{final.length} results read at the end, model delivered {s.callbacks.length}"
  for (c, res) in final do
    match s.callbacks.find? (·.1 == c) with
    | some (_, mres) =>
      if canon mres ≠ canon res then
        throw s!"result of command {c} read at the end: {showResult (canon res)}, delivered {showResult (canon mres)}"
    | none => throw s!"result for command {c} which the model never answered"

def processLine (line : String) : String :=
  match SExp.fields line with
  | [inp, impl] =>
    match SExp.parse inp with
    | some (.list [cs, _script]) =>
      match parseCmds cs with
      | some cmds =>
        match SExp.parse impl with
        | some (.list [.list evs, .list fin]) =>
          match evs.mapM? parseEvent, fin.mapM? parseFinal with
          | some all, some final =>
            let model := match monitor cmds all final with
              | .ok _ => "ACCEPT"
              | .error e => "REJECT:" ++ e
            let spec := Spec cmds (all.map (·.1)) final
            s!"{model}\t{if spec then 1 else 0}\t-"
          | _, _ => "REJECT:observation holds something that is neither a scripted reply nor a synthesised error, or a send call that was handed something other than the command restricted to its target\t0\t-"
        | _ => "REJECT:unparseable observation\t0\t-"
      | none => "BADINPUT\t0\t-"
    | _ => "BADINPUT\t0\t-"
  | _ => "BADLINE\t0\t-"

end Driver.C12
