/- Driver for C13 (stub). -/
import ControlModel.Basic

namespace Driver.C13

def processLine (_line : String) : String := "UNIMPLEMENTED\t0\t-"

end Driver.C13
