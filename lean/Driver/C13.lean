/-
  Driver for C13: line = "(hosts classes tree)<TAB>(launch configure)"; see harness/props/c13.

  The launch section of implObs (local bind maps and TaskInfo ports produced by
  the real makeTaskForMesosResources) is environment-determined, so it is
  checked as a monitor (REJECT:<why> if it violates the launch postcondition the
  theorems assume); the configure section is predicted by the model of the code
  AS IT IS (`configure` = `configureWith codeCfg`: the per-task alias check of
  configureTasks included) from the input and the launch section, and the answer
  is "(launch configure_model)".

  Template form: line = "(hosts classes ttree sw)<TAB>(launch configure seen)" — the
  workflow template (iterators, templated names / targets / aliases, see
  harness/props/c13/tmpl.go) is expanded by the model (`expand`: every generated
  role instantiates its own copy of the declarations in its own context), the
  answer is "(launch configure_model seen_model)" and the Spec evaluated on the
  implementation's outcome is `SpecT`: the outcome judged against the template AS
  WRITTEN, instantiated per generated role, plus the resolved text itself.
-/
import ControlModel.Model.Channels
import ControlModel.Spec.C13

namespace Driver.C13
open Channels

/-- `(type snd rcv rate)`, "" = field absent in the YAML: the harness then renders the direction's
    usual `type` (push for bind, pull for connect) and `Channel.UnmarshalYAML` defaults the rest. -/
def parseMisc (dirType : String) : SExp → Option Misc
  | .list [.atom ty, .atom snd, .atom rcv, .atom rate] => do
      let num (s : String) : Option Nat := if s.isEmpty then some 1000 else s.toNat?
      pure { type := if ty.isEmpty then dirType else ty, snd := (← num snd), rcv := (← num rcv),
             rate := if rate.isEmpty then "0" else rate }
  | _ => none

def parseInbound : SExp → Option Inbound
  | .list [.atom n, .atom tr, .atom ad, .atom tg, .atom g] => do
      pure { name := n, transport := (← Transport.parse? tr), addressing := (← Addressing.parse? ad),
             target := tg, global := g, misc := { type := "push" } }
  | .list [.atom n, .atom tr, .atom ad, .atom tg, .atom g, m] => do
      pure { name := n, transport := (← Transport.parse? tr), addressing := (← Addressing.parse? ad),
             target := tg, global := g, misc := (← parseMisc "push" m) }
  | _ => none

def parseOutbound : SExp → Option Outbound
  | .list [.atom n, .atom tr, .atom tg] => do
      pure { name := n, transport := (← Transport.parse? tr), target := tg, misc := { type := "pull" } }
  | .list [.atom n, .atom tr, .atom tg, m] => do
      pure { name := n, transport := (← Transport.parse? tr), target := tg, misc := (← parseMisc "pull" m) }
  | _ => none

/-- Text of a property key → structured key; anything that is not exactly the rendering of a
    channel key stays verbatim. -/
def parseKey (s : String) : Key :=
  let cs := s.toList
  let pre := "chans.".toList
  let stripSuffix (l suf : List Char) : Option String :=
    if suf.isSuffixOf l then some (String.ofList (l.take (l.length - suf.length))) else none
  let cand : List Key :=
    if pre.isPrefixOf cs then
      let rest := cs.drop pre.length
      let sock : List Key := match stripSuffix rest ".numSockets".toList with
        | some n => [Key.sockets n] | none => []
      sock ++ Field.all.filterMap fun f => (stripSuffix rest (".0." ++ f.name).toList).map fun n => Key.chan n f
    else []
  match cand.find? fun k => k.render == s with
  | some k => k
  | none => .other s

def parsePMap (s : SExp) : Option PMap := do
  (← s.list?).mapM? fun
    | .list [.atom k, .atom v] => some (parseKey k, v)
    | _ => none

def parseBinds (s : SExp) : Option (List Inbound) := do (← s.list?).mapM? parseInbound
def parseConnects (s : SExp) : Option (List Outbound) := do (← s.list?).mapM? parseOutbound

partial def parseForest : List SExp → Option Forest
  | [] => some .nil
  | .list (.atom "A" :: .atom n :: b :: c :: kids) :: rest => do
      pure (.agg n (← parseBinds b) (← parseConnects c) (← parseForest kids) (← parseForest rest))
  | .list [.atom "T", .atom n, .atom cls, h, b, c] :: rest => do
      pure (.task n cls (← h.nat?) (← parseBinds b) (← parseConnects c) (← parseForest rest))
  | _ => none

def parseClass : SExp → Option (String × Class)
  | .list [.atom n, .atom _mode, b, c] => do pure (n, { bind := (← parseBinds b), connect := (← parseConnects c) })
  | .list [.atom n, .atom _mode, b, c, props] => do
      pure (n, { bind := (← parseBinds b), connect := (← parseConnects c), props := (← parsePMap props) })
  | _ => none

def parseRange : SExp → Option (Nat × Nat)
  | .list [a, b] => do pure ((← a.nat?), (← b.nat?))
  | _ => none

def parseHost : SExp → Option (String × List (Nat × Nat))
  | .list (.atom h :: rs) => do pure (h, (← rs.mapM? parseRange))
  | _ => none

def parseEndpoint : SExp → Option Endpoint
  | .list [.atom "tcp", .atom h, p, .atom tr] => do pure (.tcp h (← p.nat?) (← Transport.parse? tr))
  | .list [.atom "ipc", .atom path, .atom tr] => do pure (.ipc path (← Transport.parse? tr))
  | _ => none

structure Launched where
  path : String
  host : String
  loc : BindMap
  ports : List (Nat × Nat)

def parseLaunched : SExp → Option Launched
  | .list [.atom p, .atom h, .list kvs, .list ports] => do
      let loc ← kvs.mapM? fun
        | .list [.atom k, e] => do pure (k, (← parseEndpoint e))
        | _ => none
      pure { path := p, host := h, loc := loc, ports := (← ports.mapM? parseRange) }
  | _ => none

/-- `none` = an outcome the model has no name for ("err other", malformed). -/
def parseCfg : SExp → Option (Except Err (List PMap))
  | .list [.atom "ok", .list per] => do
      let res ← per.mapM? parsePMap
      pure (.ok res)
  | .list [.atom "err", .atom "alias_conflict"] => some (.error .aliasConflict)
  | .list [.atom "err", .atom "unmatched"] => some (.error .unmatched)
  | _ => none

/-! printing -/

def endpointSx : Endpoint → SExp
  | .tcp h p tr => .list [.atom "tcp", .atom h, .ofNat p, .atom tr.name]
  | .ipc path tr => .list [.atom "ipc", .atom path, .atom tr.name]

def rangeSx (r : Nat × Nat) : SExp := .list [.ofNat r.1, .ofNat r.2]

def launchedSx (l : Launched) : SExp :=
  .list [.atom l.path, .atom l.host, .list (l.loc.map fun kv => .list [.atom kv.1, endpointSx kv.2]),
         .list (l.ports.map rangeSx)]

def insertSorted (x : String × String) : List (String × String) → List (String × String)
  | [] => [x]
  | y :: ys => if x.1 < y.1 then x :: y :: ys else y :: insertSorted x ys

/-- The whole map, keys rendered, sorted by key text (as the harness prints the real one). -/
def sortPMap (p : PMap) : List (String × String) := (p.map fun kv => (kv.1.render, kv.2)).foldr insertSorted []

def cfgSx : Except Err (List PMap) → SExp
  | .ok res => .list [.atom "ok", .list (res.map fun p => .list ((sortPMap p).map fun (k, v) =>
      .list [.atom k, .atom v]))]
  | .error e => .list [.atom "err", .atom e.name]

/-! the launch monitor -/

def inRanges (rs : List (Nat × Nat)) (p : Nat) : Bool := rs.any fun r => r.1 ≤ p && p ≤ r.2

def distinct [BEq α] : List α → Bool
  | [] => true
  | x :: xs => !xs.contains x && distinct xs

/-- Endpoints a task allocated, one per channel (non-alias keys). -/
def ownEndpoints (t : Task) : List Endpoint := (t.loc.filter fun kv => !isAlias kv.1).map (·.2)

def monitor (hosts : List (String × List (Nat × Nat))) (decls : List TaskDecl) (ls : List Launched)
    (tasks : List Task) : Option String :=
  if decls.length != ls.length then some "task_count"
  else if !((decls.zip ls).all fun (d, l) => d.path == l.path && (hosts[d.hostIdx]?).map (·.1) == some l.host)
    then some "path_or_host"
  else if !(tasks.all launchOk) then some "launch_postcondition"
  else if !(tasks.all fun t => t.inbound.all fun c => c.global.isEmpty || (Assoc.get t.loc (aliasKey c.global)).isSome)
    then some "alias_missing"
  else if !(tasks.all fun t => distinct (t.loc.map (·.1))) then some "duplicate_key"
  -- every allocated TCP port is >= 9000, was offered by the task's host and is requested in the TaskInfo
  else if !((decls.zip ls).all fun (d, l) => l.loc.all fun kv => match kv.2 with
      | .tcp _ p _ => 9000 ≤ p && inRanges l.ports p && inRanges ((hosts[d.hostIdx]?).map (·.2) |>.getD []) p
      | .ipc _ _ => true)
    then some "port_not_offered_or_not_requested"
  -- no endpoint is handed out twice (per host for ports, globally for fresh IPC paths)
  else if !(distinct ((tasks.map fun t => (ownEndpoints t).filterMap fun e => match e with
      | .tcp _ p _ => some (t.host, p) | .ipc _ _ => none).flatten))
    then some "port_reused"
  else if !(distinct ((tasks.map fun t => (ownEndpoints t).filterMap fun e => match e with
      | .ipc p _ => some p | .tcp _ _ _ => none).flatten))
    then some "ipc_path_reused"
  else if !decide (WFP tasks) then some "not_wellformed"
  -- the local bind map is exactly what the modelled allocation loop yields for the endpoints handed out
  else if !(tasks.all fun t =>
      let eps := t.inbound.map fun c => (Assoc.get t.loc c.name).getD default
      let want := allocLocal [] t.inbound eps
      want.all (fun kv => decide (Assoc.get t.loc kv.1 = some kv.2)) &&
      t.loc.all (fun kv => decide (Assoc.get want kv.1 = some kv.2)))
    then some "alloc_loop_mismatch"
  else none

/-! the template form: `(hosts classes ttree sw)` / `(launch configure seen)` -/

def parseSeg : SExp → Option Seg
  | .atom s => some (.lit s)
  | .list [.atom "v", .atom x] => some (.var x)
  | .list [.atom "pp"] => some .parentPath
  | .list [.atom "pn"] => some .parentName
  | .list [.atom "tp"] => some .thisPath
  | .list [.atom "tn"] => some .thisName
  | _ => none

def parseTmpl : SExp → Option Tmpl
  | .atom "" => some []
  | .atom s => some [.lit s]
  | .list segs => segs.mapM? parseSeg

/-- Role names are resolved at STAGE4: no `This()` yet. -/
def nameTmplOk (t : Tmpl) : Bool := t.all fun s => s != .thisPath && s != .thisName

def parseInT : SExp → Option InT
  | .list [.atom n, .atom tr, .atom ad, .atom tg, g] => do
      pure { name := n, transport := (← Transport.parse? tr), addressing := (← Addressing.parse? ad),
             target := tg, global := (← parseTmpl g), misc := { type := "push" } }
  | .list [.atom n, .atom tr, .atom ad, .atom tg, g, m] => do
      pure { name := n, transport := (← Transport.parse? tr), addressing := (← Addressing.parse? ad),
             target := tg, global := (← parseTmpl g), misc := (← parseMisc "push" m) }
  | _ => none

def parseOutT : SExp → Option OutT
  | .list [.atom n, .atom tr, tg] => do
      pure { name := n, transport := (← Transport.parse? tr), target := (← parseTmpl tg), misc := { type := "pull" } }
  | .list [.atom n, .atom tr, tg, m] => do
      pure { name := n, transport := (← Transport.parse? tr), target := (← parseTmpl tg), misc := (← parseMisc "pull" m) }
  | _ => none

def parseBindsT (s : SExp) : Option (List InT) := do (← s.list?).mapM? parseInT
def parseConnectsT (s : SExp) : Option (List OutT) := do (← s.list?).mapM? parseOutT

partial def parseTForest : List SExp → Option TForest
  | [] => some .nil
  | .list (.atom "A" :: n :: b :: c :: kids) :: rest => do
      let nm ← parseTmpl n
      if !nameTmplOk nm then none
      pure (.agg nm (← parseBindsT b) (← parseConnectsT c) (← parseTForest kids) (← parseTForest rest))
  | .list [.atom "T", n, .atom cls, h, b, c] :: rest => do
      let nm ← parseTmpl n
      if !nameTmplOk nm then none
      pure (.task nm cls (← h.nat?) (← parseBindsT b) (← parseConnectsT c) (← parseTForest rest))
  | .list [.atom "I", .atom v, .list vals, body] :: rest => do
      pure (.iter v (← vals.mapM? SExp.str?) (← parseTForest [body]) (← parseTForest rest))
  | _ => none

def parseSeen : SExp → Option SeenDecl
  | .list [.atom p, b, c] => do pure { path := p, bind := (← parseBinds b), connect := (← parseConnects c) }
  | _ => none

def miscSx (m : Misc) : SExp := .list [.atom m.type, .ofNat m.snd, .ofNat m.rcv, .atom m.rate]

def inboundSx (c : Inbound) : SExp :=
  .list [.atom c.name, .atom c.transport.name, .atom (match c.addressing with | .tcp => "tcp" | .ipc => "ipc"),
         .atom c.target, .atom c.global, miscSx c.misc]

def outboundSx (o : Outbound) : SExp := .list [.atom o.name, .atom o.transport.name, .atom o.target, miscSx o.misc]

def seenSx (d : SeenDecl) : SExp :=
  .list [.atom d.path, .list (d.bind.map inboundSx), .list (d.connect.map outboundSx)]

/-- Everything after parsing. `tmpl` = the template and the declarations the loaded workflow
    handed out (template form only); `decls` carry the host index the harness placed the task on. -/
def judge (hosts : List (String × List (Nat × Nat))) (classes : List (String × Class)) (decls : List TaskDecl)
    (ls : List Launched) (cfg : SExp) (tmpl : Option (TForest × List SeenDecl)) : String :=
  let tasks : List Task := (decls.zip ls).map fun (d, l) => mkTask classes d l.path l.host l.loc
  match monitor hosts decls ls tasks with
  | some why => s!"REJECT:{why}\t0\t-"
  | none =>
    let model := configureP tasks
    let modelObs := match tmpl with
      | none => SExp.list [.list (ls.map launchedSx), cfgSx model]
      | some _ => SExp.list [.list (ls.map launchedSx), cfgSx model, .list (decls.map fun (d : TaskDecl) => seenSx d.seen)]
    -- the Spec, with the weakening flags (a, b); for a template: against the template as written
    let specW (a b : Bool) (r : Except Err (List PMap)) : Bool :=
      match tmpl with
      | none => decide (SpecPW a b tasks r)
      | some (root, seen) =>
          decide (SpecTPW a b classes root (ls.map fun l => (l.path, l.host, l.loc)) seen r)
    let (spec, hyp) :=
      match parseCfg cfg with
      | none => (false, "-")
      | some r =>
        if specW false false r then (true, "-")
        else
          -- attribute the failure to the excluded hypothesis only if nothing else is wrong. (The
          -- class "two channels of one task name one alias" is no longer excluded: the code rejects
          -- it — Cfg.aliasPerTask — and an outcome that lets it through is a plain violation.)
          let ntOk := noInboundTarget tasks
          if !ntOk && specW true false r then (false, "inbound_target_still_advertised")
          else (false, "-")
    s!"{modelObs}\t{if spec then 1 else 0}\t{hyp}"

def processLine (line : String) : String :=
  match SExp.fields line with
  | [inp, impl] =>
    match SExp.parse inp, SExp.parse impl with
    | some (.list [.list hs, .list cs, tree]), some (.list [.list launch, cfg]) =>
      match hs.mapM? parseHost, cs.mapM? parseClass, parseForest [tree], launch.mapM? parseLaunched with
      | some hosts, some classes, some forest, some ls =>
        judge hosts classes (flatten "" [] [] forest) ls cfg none
      | _, _, _, _ => "BADINPUT\t0\t-"
    | some (.list [.list hs, .list cs, tree, _sw]), some (.list [.list launch, cfg, .list seen]) =>
      match hs.mapM? parseHost, cs.mapM? parseClass, parseTForest [tree], launch.mapM? parseLaunched,
            seen.mapM? parseSeen with
      | some hosts, some classes, some root, some ls, some seen =>
        -- placement convention of the harness: the j-th generated task role (tree order) runs on
        -- host (base + j) mod #hosts, `base` = the host field of its role template
        let decls := (templateDecls root).zipIdx.map fun (d, j) =>
          { d with hostIdx := (d.hostIdx + j) % hosts.length }
        judge hosts classes decls ls cfg (some (root, seen))
      | _, _, _, _, _ => "BADINPUT\t0\t-"
    | _, _ => "BADINPUT\t0\t-"
  | _ => "BADLINE\t0\t-"

end Driver.C13
