/- Driver for C14: line = "(style env tree tmpl)<TAB>implObs" (static form),
   "(style env tree tmpl ops)<TAB>implObs" (loaded tree + runtime writes) or
   "(E style (SD SV U) tree tmpl sched)<TAB>implObs" (a real Environment driven through its
   transitions: the environment's own variable writes); see harness/props/c14. -/
import ControlModel.Model.Vars
import ControlModel.Model.VarsTree
import ControlModel.Model.VarsEnv
import ControlModel.Spec.C14

namespace Driver.C14
open Vars

def parseKV (s : SExp) : Option KV := do
  (← s.list?).mapM? fun
    | .list [.atom k, .atom v] => some (k, v)
    | _ => none

def parseLevel : List SExp → Option Level
  | [d, v, u] => do pure { defaults := (← parseKV d), vars := (← parseKV v), userVars := (← parseKV u) }
  | _ => none

/-- Pre-order list of roles with their paths (own level first, environment last). -/
partial def walk (tmpl : Option (KV × KV)) (above : Path) : SExp → Option (List RoleIn)
  | .list (.atom kind :: d :: v :: u :: l :: kids) => do
      let own ← parseLevel [d, v, u]
      let locals ← parseKV l
      let path := own :: above
      let me : RoleIn := { path := path, locals := locals, tmpl := if kind == "T" then tmpl else none }
      let below ← kids.mapM? (walk tmpl path)
      pure (me :: below.flatten)
  | _ => none

def keysOfKV (m : KV) : List String := m.map (·.1)

def sortDedup (ks : List String) : List String :=
  (ks.mergeSort (fun a b => !(b < a))).eraseDups

def keyUniverse (env : Option Level) (roles : List RoleIn) (tmpl : Option (KV × KV)) : List String :=
  let lv (x : Level) := keysOfKV x.defaults ++ keysOfKV x.vars ++ keysOfKV x.userVars
  let envKeys := match env with | some e => lv e | none => []
  let roleKeys := roles.flatMap fun r => (match r.path with | own :: _ => lv own | [] => []) ++ keysOfKV r.locals
  let tmplKeys := match tmpl with | some (a, b) => keysOfKV a ++ keysOfKV b | none => []
  sortDedup (envKeys ++ roleKeys ++ tmplKeys)

def kvSx (m : KV) : SExp := .list (m.map fun (k, v) => .list [.atom k, .atom v])

def obsSx (o : RoleObs) : SExp :=
  .list [kvSx o.stack, kvSx o.fstack, .list (o.maps.map kvSx), .list (o.gets.map kvSx), .list (o.stages.map kvSx),
    match o.task with
    | none => .list []
    | some (c, p) => .list [kvSx c, kvSx p]]

def parseObs : SExp → Option RoleObs
  | .list [st, fst, .list maps, .list gets, .list stages, task] => do
      let t ← match task with
        | .list [] => some none
        | .list [c, p] => do pure (some ((← parseKV c), (← parseKV p)))
        | _ => none
      pure { stack := (← parseKV st), fstack := (← parseKV fst), maps := (← maps.mapM? parseKV), gets := (← gets.mapM? parseKV),
             stages := (← stages.mapM? parseKV), task := t }
  | _ => none

/-! ### loaded trees + runtime writes (five-element input) -/

def parseNode (kind : String) (d v u l : SExp) : Option Node := do
  let own ← parseLevel [d, v, u]
  -- `N` = the SITE of an include role (its single child is the root of the included workflow)
  pure { own := own, locals := (← parseKV l), task := kind == "T", site := kind == "N" }

/-- Sibling template roles (plain or iterator) → `TForest`. -/
partial def parseSiblings : List SExp → Option TForest
  | [] => some .nil
  | .list [.atom "I", .atom var, .list vals, .list (.atom kind :: d :: v :: u :: l :: kids)] :: more => do
      let vs ← vals.mapM? SExp.str?
      pure (.iter var vs (← parseNode kind d v u l) (← parseSiblings kids) (← parseSiblings more))
  | .list (.atom kind :: d :: v :: u :: l :: kids) :: more => do
      if kind == "I" then none else
      pure (.role (← parseNode kind d v u l) (← parseSiblings kids) (← parseSiblings more))
  | _ => none

def parseWrite : SExp → Option Write
  | .list [.atom tag, .list addr, .atom k, .atom v] => do
      let a ← addr.mapM? SExp.nat?
      match tag with
      | "S" => some { on := a, global := false, op := .set k v }
      | "G" => some { on := a, global := true, op := .set k v }
      | _ => none
  | .list [.atom tag, .list addr, .atom k] => do
      let a ← addr.mapM? SExp.nat?
      match tag with
      | "D" => some { on := a, global := false, op := .del k }
      | "X" => some { on := a, global := true, op := .del k }
      | _ => none
  | _ => none

def nodeKeys (n : Node) : List String :=
  keysOfKV n.own.defaults ++ keysOfKV n.own.vars ++ keysOfKV n.own.userVars ++ keysOfKV n.locals

def tforestKeys : TForest → List String
  | .nil => []
  | .role n kids next => nodeKeys n ++ tforestKeys kids ++ tforestKeys next
  | .iter var _ n kids next => var :: nodeKeys n ++ tforestKeys kids ++ tforestKeys next

def envTmpl (envL tmplL : List SExp) : Option (Option Level × Option (KV × KV)) := do
  let env ← match envL with
    | [] => some none
    | l => (parseLevel l).map some
  let tmpl ← match tmplL with
    | [] => some none
    | [a, b] => do pure (some ((← parseKV a), (← parseKV b)))
    | _ => none
  pure (env, tmpl)

/-- model observation (code as it is), Spec on the implementation's observation, hypothesis id (none left) -/
def verdict (keys : List String) (roles specRoles : List RoleIn) (impl : String)
    (specOn : List RoleObs → Bool := caseOk keys specRoles) : String :=
  if !keysClear keys then "BADINPUT\t0\t-" else
  let special : KV := specialKeys.map fun k => (k, "?")
  let model := SExp.list (roles.map fun r => obsSx (modelObs keys special r))
  let obs? : Option (List RoleObs) :=
    match (SExp.parse impl).bind SExp.list? with
    | some os => os.mapM? parseObs
    | none => none
  let spec := match obs? with | some obs => specOn obs | none => false
  -- no excluded class: `modelObs` is the model of the code as it is (`codeCfg`, with the repair
  -- of task_template_defaults_over_vars) and `C14_model_meets_spec_code` holds without
  -- hypothesis, so every Spec failure is a plain violation
  let hyp := "-"
  s!"{model}\t{if spec then 1 else 0}\t{hyp}"

/-! ### an environment driven through its transitions (six-element input, first element `E`) -/

def parseItem : SExp → Option Item
  | .list [.atom "T", .atom ev] => (EnvM.Ev.parse? ev).map (Item.trans · true)
  | .list [.atom "F", .atom ev] => (EnvM.Ev.parse? ev).map (Item.trans · false)
  | s => (parseWrite s).map Item.write

def parseSnap : SExp → Option SnapObs
  | .list [.atom st, .atom res, .list roles] => do
      pure { state := st, res := res, roles := (← roles.mapM? parseObs) }
  | _ => none

def snapSx (keys : List String) (special : KV) (tmpl : Option (KV × KV)) (p : EnvSt × String) : SExp :=
  .list [.atom p.1.st.name, .atom p.2, .list ((p.1.roles tmpl).map fun r => obsSx (modelObs keys special r))]

/-- model = the interpretation of `envWriteTable` (the code's rows); Spec = `envOk` (the documented kinds +
    "a user-supplied value is never displaced") on what the implementation showed. -/
def verdictEnv (keys : List String) (sd sv u : KV) (t tLoaded : Forest) (items : List Item) (tmpl : Option (KV × KV))
    (impl : String) : String :=
  if !keysClear keys then "BADINPUT\t0\t-" else
  let special : KV := specialKeys.map fun k => (k, "?")
  -- `tLoaded` = the template loaded step by step (`load codeLoad`), `t` = the template as the rule reads it
  let model := SExp.list ((snapshots envWriteTable sd sv u tLoaded items).map (snapSx keys special tmpl))
  let obs? : Option (List SnapObs) :=
    match (SExp.parse impl).bind SExp.list? with
    | some os => os.mapM? parseSnap
    | none => none
  let spec := match obs? with | some obs => envOk keys sd sv u t items tmpl obs | none => false
  s!"{model}\t{if spec then 1 else 0}\t-"

def processLine (line : String) : String :=
  match SExp.fields line with
  | [inp, impl] =>
    match SExp.parse inp with
    | some (.list [.atom "E", _style, .list [sdS, svS, uS], tree, .list tmplL, .list schedL]) =>
      match parseKV sdS, parseKV svS, parseKV uS, envTmpl [] tmplL, parseSiblings [tree], schedL.mapM? parseItem with
      | some sd, some sv, some u, some (_, tmpl), some tf, some items =>
        let tmplKeys := match tmpl with | some (a, b) => keysOfKV a ++ keysOfKV b | none => []
        let keys := sortDedup (envKeys ++ keysOfKV sd ++ keysOfKV sv ++ keysOfKV u ++ tforestKeys tf ++ tmplKeys
                               ++ items.filterMap Item.key?)
        verdictEnv keys sd sv u (expand tf) (load codeLoad tf) items tmpl impl
      | _, _, _, _, _, _ => "BADINPUT\t0\t-"
    | some (.list [_style, .list envL, tree, .list tmplL]) =>
      match envTmpl envL tmplL with
      | some (env, tmpl) =>
        let above : Path := match env with | some e => [e] | none => []
        match walk tmpl above tree with
        | some roles => verdict (keyUniverse env roles tmpl) roles roles impl
        | none => "BADINPUT\t0\t-"
      | none => "BADINPUT\t0\t-"
    | some (.list [_style, .list envL, tree, .list tmplL, .list opsL]) =>
      match envTmpl envL tmplL, parseSiblings [tree], opsL.mapM? parseWrite with
      | some (env, tmpl), some tf, some ws =>
        let above : Path := match env with | some e => [e] | none => []
        -- the MODEL loads the template step by step (`load codeLoad`: where each kind of role publishes
        -- its iterator Locals) and mutates the loaded tree write by write; the SPEC reads the template by
        -- the rule (`expand`) and replays, per role, only the writes made on that role or on an ancestor
        let loaded := expand tf
        let roles := rolesAfter (load codeLoad tf) ws above tmpl
        let specRoles := rolesReplayed loaded ws above tmpl
        let lv (x : Level) := keysOfKV x.defaults ++ keysOfKV x.vars ++ keysOfKV x.userVars
        let envKeys := match env with | some e => lv e | none => []
        let tmplKeys := match tmpl with | some (a, b) => keysOfKV a ++ keysOfKV b | none => []
        let keys := sortDedup (envKeys ++ tforestKeys tf ++ tmplKeys ++ ws.map (·.op.key))
        verdict keys roles specRoles impl (loadedOk keys tf ws above tmpl)
      | _, _, _ => "BADINPUT\t0\t-"
    | _ => "BADINPUT\t0\t-"
  | _ => "BADLINE\t0\t-"

end Driver.C14
