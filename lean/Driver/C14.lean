/- Driver for C14 (stub). -/
import ControlModel.Basic

namespace Driver.C14

def processLine (_line : String) : String := "UNIMPLEMENTED\t0\t-"

end Driver.C14
