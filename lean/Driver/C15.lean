/- Driver for C15: line = "template<TAB>implObs"; see harness/props/c15.

   template := role                                  (the root, an aggregator)
   role     := (A hdr role*) | (T hdr (field*) crit) | (C hdr (field*) crit) | (I range var role)
             | (N hdr field doc*)      include role: header at the include site, `include:` expression, the
                                       documents of the workflow repository this site can name (distinct files)
   doc      := (D file hdr role*)      one workflow document: file name, root role
   hdr      := (name enabled ((k field)*) ((k field)*) ((k v)*) ((k field)*) ((k field)*) ((k field)*))
                 name enabled defaults     vars         uvars    constraints  binds        connects
   field    := (part*)     part := (t text) | (s se) | (b be)
   se       := (lit s) | (var x)
   be       := (eq se se) | (ne se se) | (and be be) | (or be be) | (not be) | (const 0|1)
   range    := (R field field) | (L field)

   implObs  := (all X) | (diff X0 … X7)      X := err | none | tree
   model answers (all X).

   The model judged with is the code AS IT IS (`Load.codeCfg`, tied to the source by
   `C15_pruning_is_code`). It shows none of the three formerly recorded behaviours
   (`C15_no_recorded_behaviour_code`), so no input is excused any more: hyp is always `-`, and an
   implementation that swallows an `enabled` error again, drops an iterator by its template's raw
   text again or keeps a hollow aggregator again is a plain disagreement with spec = 0.
-/
import ControlModel.Model.Load
import ControlModel.Spec.C15

namespace Driver.C15
open Load

def parseSE : SExp → Option SE
  | .list [.atom "lit", .atom s] => some (.lit s)
  | .list [.atom "var", .atom x] => some (.var x)
  | _ => none

partial def parseBE : SExp → Option BE
  | .list [.atom "eq", a, b] => do pure (.eq (← parseSE a) (← parseSE b))
  | .list [.atom "ne", a, b] => do pure (.ne (← parseSE a) (← parseSE b))
  | .list [.atom "and", a, b] => do pure (.and (← parseBE a) (← parseBE b))
  | .list [.atom "or", a, b] => do pure (.or (← parseBE a) (← parseBE b))
  | .list [.atom "not", a] => do pure (.not (← parseBE a))
  | .list [.atom "const", c] => do pure (.const (← c.bool?))
  | _ => none

def parsePart : SExp → Option Part
  | .list [.atom "t", .atom s] => some (.text s)
  | .list [.atom "s", e] => (parseSE e).map .str
  | .list [.atom "b", e] => (parseBE e).map .bool
  | _ => none

def parseField (s : SExp) : Option Field := do (← s.list?).mapM? parsePart

def parseKF (s : SExp) : Option (List (String × Field)) := do
  (← s.list?).mapM? fun
    | .list [.atom k, f] => do pure (k, ← parseField f)
    | _ => none

def parseKV (s : SExp) : Option Env := do
  (← s.list?).mapM? fun
    | .list [.atom k, .atom v] => some (k, v)
    | _ => none

def parseHdr : SExp → Option Hdr
  | .list [n, e, d, v, u, c, b, co] => do
    pure { name := ← parseField n, enabled := ← parseField e, defaults := ← parseKF d, vars := ← parseKF v,
           uvars := ← parseKV u, cons := ← parseKF c, binds := ← parseKF b, connects := ← parseKF co }
  | _ => none

def parseRange : SExp → Option RangeT
  | .list [.atom "R", b, e] => do pure (.fromTo (← parseField b) (← parseField e))
  | .list [.atom "L", f] => do pure (.list (← parseField f))
  | _ => none

mutual
partial def parseRole (s : SExp) (next : Tmpl) : Option Tmpl :=
  match s with
  | .list (.atom "A" :: h :: kids) => do pure (.agg (← parseHdr h) (← parseRoles kids) next)
  | .list [.atom "T", h, .list xs, c] => do pure (.task (← parseHdr h) (← xs.mapM? parseField) (← c.bool?) next)
  | .list [.atom "C", h, .list xs, c] => do pure (.call (← parseHdr h) (← xs.mapM? parseField) (← c.bool?) next)
  | .list [.atom "I", r, .atom v, b] => do pure (.iter (← parseRange r) v (← parseRole b .nil) next)
  | .list (.atom "N" :: h :: inc :: docs) => do
    let files := docs.filterMap fun
      | .list (.atom "D" :: .atom f :: _) => some f
      | _ => none
    if files.length != docs.length || files.eraseDups.length != files.length then none
    pure (.incl (← parseHdr h) (← parseField inc) (← parseDocs docs) next)
  | _ => none
partial def parseRoles : List SExp → Option Tmpl
  | [] => some .nil
  | r :: rest => do parseRole r (← parseRoles rest)
partial def parseDocs : List SExp → Option Tmpl
  | [] => some .nil
  | .list (.atom "D" :: .atom f :: h :: kids) :: rest => do
    pure (.doc f (← parseHdr h) (← parseRoles kids) (← parseDocs rest))
  | _ => none
end

/-- Canonical form of a Go map: first binding per key, sorted by key. -/
def canonEnv (e : Env) : SExp :=
  let dedup := e.foldl (fun acc (kv : String × String) => if acc.any (fun x => x.1 == kv.1) then acc else acc ++ [kv]) []
  let sorted := dedup.mergeSort (fun a b => a.1 < b.1 || a.1 == b.1)
  .list (sorted.map fun (k, v) => .list [.atom k, .atom v])

def listEnv (e : Env) : SExp := .list (e.map fun (k, v) => .list [.atom k, .atom v])

def infoSx (i : Info) : SExp :=
  .list [.atom i.name, .atom i.enabled, canonEnv i.ownD, canonEnv i.ownV, listEnv i.cons, listEnv i.binds,
         listEnv i.connects, canonEnv i.stack]

partial def treeSx : Tree → List SExp
  | .nil => []
  | .agg i k n => .list (.atom "A" :: infoSx i :: treeSx k) :: treeSx n
  | .task i x c n => .list [.atom "T", infoSx i, .list (x.map .atom), SExp.ofBool c] :: treeSx n
  | .call i x c n => .list [.atom "C", infoSx i, .list (x.map .atom), SExp.ofBool c] :: treeSx n
  | .iter k n => .list (.atom "I" :: treeSx k) :: treeSx n

def loadedSx : Loaded → SExp
  | .error => .atom "err"
  | .none => .atom "none"
  | .tree t => match treeSx t with
    | [x] => x
    | xs => .list (.atom "forest" :: xs)

def processLine (line : String) : String :=
  match SExp.fields line with
  | [inp, impl] =>
    match (SExp.parse inp).bind (fun s => parseRole s .nil) with
    | some t =>
      let o := proc codeCfg {} [] t
      let model := loadedSx o.loaded
      let modelStr := toString (SExp.list [.atom "all", model])
      -- Spec on what the implementation reported: all eight settings agree and the common
      -- result is what the property demands (compared in canonical text form).
      let want := toString (SExp.list [.atom "all", loadedSx (idealLoad t)])
      let spec := impl == want
      -- no excluded hypothesis is left for this property (the three former classes are fixed)
      s!"{modelStr}\t{if spec then 1 else 0}\t-"
    | none => "BADINPUT\t0\t-"
  | _ => "BADLINE\t0\t-"

end Driver.C15
