/- Driver for C15 (stub). -/
import ControlModel.Basic

namespace Driver.C15

def processLine (_line : String) : String := "UNIMPLEMENTED\t0\t-"

end Driver.C15
