/- Driver for C16 (stub). -/
import ControlModel.Basic

namespace Driver.C16

def processLine (_line : String) : String := "UNIMPLEMENTED\t0\t-"

end Driver.C16
