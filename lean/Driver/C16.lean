/- Driver for C16: line = "(WIRING MODE FLAVOUR EVT SRC DST (outcome*))<TAB>implObs" or
   "(rule OK TRIG SAMEEVT STATEISDST)<TAB>implObs"; see harness/props/c16/c16.go. -/
import ControlModel.Basic
import ControlModel.Model.FairMQ
import ControlModel.Spec.C16

namespace Driver.C16
open FairMQ

/-- Names/parsers of one control mode's device vocabulary. -/
structure Vocab (σ ε : Type) where
  sName : σ → String
  eName : ε → String
  sParse : String → Option σ
  eParse : String → Option ε

def fmqVocab : Vocab FState FEvent := ⟨FState.name, FEvent.name, FState.parse?, FEvent.parse?⟩
def directVocab : Vocab O2State O2Event := ⟨O2State.name, O2Event.name, O2State.parse?, O2Event.parse?⟩

def reportedName : Option O2State → String
  | none => ""
  | some s => s.name

def parseReported (s : String) : Option (Option O2State) :=
  if s == "" then some none else (O2State.parse? s).map some

def parseErr : String → Option ErrKind
  | "nil" => some .nil
  | "rejected" => some .rejected
  | "transport" => some .transport
  | "unimplemented" => some .unimplemented
  | _ => none

def obsOf {σ ε : Type} (V : Vocab σ ε) (rpc : Bool) (r : Run σ ε) : SExp :=
  .list [.atom (reportedName r.reported), .atom r.err.name,
    .list (r.steps.map fun s => .list [.atom (V.eName s.ask.evt), .atom (V.sName s.ask.src),
      .atom (if rpc then "-" else V.sName s.ask.dst), SExp.ofBool s.ask.args]),
    .atom (V.sName r.final)]

def parseAsk {σ ε : Type} (V : Vocab σ ε) : SExp → Option (Ask σ ε)
  | .list [.atom e, .atom s, .atom d, a] => do
    let src ← V.sParse s
    let dst := if d == "-" then src else (V.sParse d).getD src
    pure ⟨← V.eParse e, src, dst, ← a.bool?⟩
  | _ => none

/-- What the implementation did, as a `Run` (device path replayed with the input's script). -/
def implRun {σ ε : Type} [DecidableEq σ] (V : Vocab σ ε) (D : Dev σ ε) (strict : Bool) (dev0 : σ)
    (script : List Outcome) (impl : String) : Option (Run σ ε) :=
  match SExp.parse impl with
  | some (.list [.atom rep, .atom err, .list trace, .atom fin]) => do
    let asks ← trace.mapM? (parseAsk V)
    pure (Run.ofObs D strict dev0 script (← parseReported rep) (← parseErr err) asks (← V.sParse fin))
  | _ => none

def answer (model : SExp) (spec : Bool) (hyp : String) : String :=
  s!"{model}\t{if spec then 1 else 0}\t{if spec then "-" else hyp}"

def processRule (ok trig same isDst : SExp) (impl : String) : String :=
  match ok.bool?, trig, same.bool?, isDst.bool? with
  | some ok, .atom trig, some same, some isDst =>
    let ex := trig == "EXECUTOR"
    let err := accept ok ex same isDst
    let st (b : Bool) := if b then "RUNNING" else "CONFIGURED"
    let model := SExp.list [.atom (st isDst), .atom err.name]
    let spec :=
      match SExp.parse impl with
      | some (.list [.atom s, .atom e]) =>
        match parseErr e with
        | some e => ruleOk ok ex same isDst (s == st isDst) e
        | none => false
      | _ => false
    answer model spec "-"
  | _, _, _, _ => "BADINPUT\t0\t-"

def processLine (line : String) : String :=
  match SExp.fields line with
  | [inp, impl] =>
    match SExp.parse inp with
    | some (.list [.atom "rule", ok, trig, same, isDst]) => processRule ok trig same isDst impl
    | some (.list [.atom wiring, .atom mode, .atom flavour, .atom evt, .atom src, .atom dst, .list script]) =>
      match O2Event.parse? evt, O2State.parse? src, O2State.parse? dst,
            script.mapM? (fun o => o.str?.bind Outcome.parse?) with
      | some evt, some src, some dst, some script =>
        -- rpc = the real client over the protobuf transport, json = over the JSON transport: DST is not on the wire
        let rpc := wiring.startsWith "rpc" || wiring.startsWith "json"
        let cfg := codeCfg   -- the model of the code as it is (a wiring suffix "fixed" is accepted and means nothing any more)
        let strict := flavour == "strict"
        if mode == "FAIRMQ" then
          let m := (commitFMQ cfg evt src dst).run fmqDev strict (fmqOf src) script
          let (spec, hyp) :=
            match implRun fmqVocab fmqDev strict (fmqOf src) script impl with
            | some r =>
              (imageOk o2Of r && successOk fmqOf dst r && rollbackOk fmqDev o2Of (rollbackEvt evt) r,
               hypOf strict r)
            | none => (false, "-")
          answer (obsOf fmqVocab rpc m) spec hyp
        else if mode == "DIRECT" then
          let m := (commitDirect evt src dst).run directDev strict src script
          let (spec, hyp) :=
            match implRun directVocab directDev strict src script impl with
            | some r => (imageOk some r && successOk id dst r, hypOf strict r)
            | none => (false, "-")
          answer (obsOf directVocab rpc m) spec hyp
        else "BADINPUT\t0\t-"
      | _, _, _, _ => "BADINPUT\t0\t-"
    | _ => "BADINPUT\t0\t-"
  | _ => "BADLINE\t0\t-"

end Driver.C16
