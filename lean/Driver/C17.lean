/- Driver for C17 (stub). -/
import ControlModel.Basic

namespace Driver.C17

def processLine (_line : String) : String := "UNIMPLEMENTED\t0\t-"

end Driver.C17
