/- Driver for C17: line = "(kind behaviour (op …) [shape])<TAB>implObs"; see harness/props/c17.
   A schedule element `(par A B)` (request B delivered while A is being served) makes the model's answer a SET of
   observations (`runI`): MONITOR — the model column repeats the implementation's observation when it is one of
   them, and otherwise shows the first one (the two requests served one after the other). The Spec column is the
   same `SpecAll`, read request by request (`SpecAllI`).
   The command shape (sh | sha | ex | exa) is parsed and validated but has no influence on the model run
   (`runIn`): the implementation's observation is compared with the same model observation for every shape. -/
import ControlModel.Model.ExecTask
import ControlModel.Spec.C17
import ControlModel.Model.ExecOverlap

namespace Driver.C17
open ExecTask

def resSx : Res → SExp
  | .ok => .atom "ok" | .none => .atom "none" | .dead => .atom "dead" | .loopexit => .atom "loopexit"
  | .ignored => .atom "ignored" | .notask => .atom "notask" | .norpc => .atom "norpc" | .nonhook => .atom "nonhook"
  | .resp st err => .list [.atom "r", .atom st.name, SExp.ofBool err]
  | .hresp err => .list [.atom "h", SExp.ofBool err]
  | .crash s => .list [.atom "crash", .atom s.name]
  | .hang => .atom "hang"

def emitSx : Emit → SExp
  | .running => .list [.atom "S", .atom "RUNNING"]
  | .term f => .list [.atom "S", .atom f.name]
  | .btt f vol code => .list [.atom "E", .atom f.name, SExp.ofBool vol, SExp.ofInt code]

def obsSx (o : Obs) : SExp :=
  .list [.list (.atom "res" :: o.res.map resSx), .list (.atom "emits" :: o.emits.map emitSx),
         .list [.atom "alive", match o.alive with | some b => SExp.ofBool b | none => .atom "-"],
         .list (.atom "sigs" :: o.sigs.map (fun s => .atom s.name))]

def parseRes : SExp → Option Res
  | .atom "ok" => some .ok | .atom "none" => some .none | .atom "dead" => some .dead
  | .atom "loopexit" => some .loopexit | .atom "notask" => some .notask | .atom "norpc" => some .norpc
  | .atom "nonhook" => some .nonhook | .atom "hang" => some .hang | .atom "ignored" => some .ignored
  | .list [.atom "r", .atom st, e] => do pure (.resp (← Dev.parse? st) (← e.bool?))
  | .list [.atom "h", e] => do pure (.hresp (← e.bool?))
  | .list [.atom "crash", .atom s] => do pure (.crash (← Site.parse? s))
  | _ => none

def parseEmit : SExp → Option Emit
  | .list [.atom "S", .atom "RUNNING"] => some .running
  | .list [.atom "S", .atom f] => do pure (.term (← Fin.parse? f))
  | .list [.atom "E", .atom f, v, c] => do pure (.btt (← Fin.parse? f) (← v.bool?) (← c.int?))
  | _ => none

def parseObs : SExp → Option Obs
  | .list [.list (.atom "res" :: rs), .list (.atom "emits" :: es), .list [.atom "alive", a], .list (.atom "sigs" :: sg)] => do
    let res ← rs.mapM? parseRes
    let emits ← es.mapM? parseEmit
    let alive ← match a with
      | .atom "-" => some none
      | x => (x.bool?).map some
    let sigs ← sg.mapM? (fun x => do Sig.parse? (← x.str?))
    pure { res := res, emits := emits, alive := alive, sigs := sigs }
  | _ => none

/-- The known-finding class an input belongs to, chosen by the conjunct of Spec that failed.
    Judged with the model of the code as it is (`codeCfg`): only the classes of the findings that are still
    open are named; a failure in a repaired class (stop of an unreaped child, full channel, KILL of an inactive
    task, crashing launches, KILL before the TASK_RUNNING timer) has no excuse and is a plain violation; so is a
    survivor of a launch the executor gave up (`giveupTerminates`: true of the code as it is for every group). -/
def hypOf (k : Kind) (b : Beh) (ops : List Op) (o : Obs) : String :=
  let nv (P : St → Op → Bool) : Bool := !never codeCfg P k b ops      -- the schedule meets the class
  if !noStuck o.res then
    if nv killNoRpc then "kill_unready_ctl_panics"
    else "-"
  else if !nothingAfter o.emits then
    if nv killLive then "basic_kill_spares_child"
    else "-"
  else if !noSurvivors ops o then
    if nv killLive then "basic_kill_spares_child"
    else if nv killHelpers then "ctl_kill_spares_helpers"
    else "-"
  else if !stopTerminates k ops o then
    if nv stopSpares then "basic_stop_spares_helpers"
    else "-"
  else "-"

def judge (k : Kind) (b : Beh) (shp : Shape) (ops : List Op) (impl : String) : String :=
  if !validCase k b || !validShape k b shp then "BADINPUT\t0\t-" else
  let model := obsSx (runIn codeCfg k b shp ops).obs
  match (SExp.parse impl).bind parseObs with
  | some o =>
    let spec := SpecAll k ops o
    s!"{model}\t{if spec then 1 else 0}\t{if spec then "-" else hypOf k b ops o}"
  | none => s!"{model}\t0\t-"

/-! ### schedules with overlapping requests -/

def iresSx : IRes → SExp
  | .one r => resSx r
  | .par ra rb => .list [.atom "par", resSx ra, resSx rb]

def iobsSx (o : IObs) : SExp :=
  .list [.list (.atom "res" :: o.res.map iresSx), .list (.atom "emits" :: o.emits.map emitSx),
         .list [.atom "alive", match o.alive with | some b => SExp.ofBool b | none => .atom "-"],
         .list (.atom "sigs" :: o.sigs.map (fun s => .atom s.name))]

def parseIRes : SExp → Option IRes
  | .list [.atom "par", a, b] => do pure (.par (← parseRes a) (← parseRes b))
  | x => (parseRes x).map .one

def parseIObs : SExp → Option IObs
  | .list [.list (.atom "res" :: rs), .list (.atom "emits" :: es), .list [.atom "alive", a], .list (.atom "sigs" :: sg)] => do
    let res ← rs.mapM? parseIRes
    let emits ← es.mapM? parseEmit
    let alive ← match a with
      | .atom "-" => some none
      | x => (x.bool?).map some
    let sigs ← sg.mapM? (fun x => do Sig.parse? (← x.str?))
    pure { res := res, emits := emits, alive := alive, sigs := sigs }
  | _ => none

def parseItem : SExp → Option Item
  | .list [.atom "par", .atom a, .atom b] => do pure (.par (← Op.parse? a) (← Op.parse? b))
  | .atom a => (Op.parse? a).map .one
  | _ => none

/-- The known-finding class of an input with overlaps, chosen by the conjunct that failed. The classes of the
    sequential model are read on every element (an overlap meets a class if either of its requests does in the
    state in which the pair arrives). Judged with the model of the code as it is: the two classes that were about
    overlaps as such are repaired — a crash while a KILL overlaps a START / a trigger, or a second terminal status
    after two overlapping KILLs, has no excuse and is a plain violation. What is left of KILL ∥ (request that starts
    a child) is a face of the open finding `basic_kill_spares_child`: Kill neither signals a child nor keeps the
    request in flight from starting one, so the child can outlive (and report after) the terminal status. -/
def hypOfI (k : Kind) (b : Beh) (items : List Item) (o : IObs) : String :=
  let nv (P : St → Op → Bool) : Bool := !neverI codeCfg (liftReq P) k b items
  let nvp (Q : St → Op → Op → Bool) : Bool := !neverI codeCfg (liftPair Q) k b items
  let (ops, fo) := o.flat items
  if !noStuck fo.res then
    if nv killNoRpc then "kill_unready_ctl_panics"
    else "-"
  else if !oneTerminal fo.emits then "-"
  else if !nothingAfter fo.emits then
    if nv killLive || nvp overlapKillSpawn then "basic_kill_spares_child"
    else "-"
  else if !noSurvivors ops fo then
    if nv killLive || nvp overlapKillSpawn then "basic_kill_spares_child"
    else if nv killHelpers then "ctl_kill_spares_helpers"
    else "-"
  else if !stopTerminates k ops fo then
    if nv stopSpares then "basic_stop_spares_helpers"
    else "-"
  else "-"

def judgeI (k : Kind) (b : Beh) (shp : Shape) (items : List Item) (impl : String) : String :=
  if !validCase k b || !validShape k b shp || !items.all (Item.ok k) then "BADINPUT\t0\t-" else
  let models := (runI codeCfg k b items).map (fun o => toString (iobsSx o.obs))
  let model := if models.contains impl then impl else models.headD "REJECT:no-model-run"
  match (SExp.parse impl).bind parseIObs with
  | some o =>
    let spec := SpecAllI k items o
    s!"{model}\t{if spec then 1 else 0}\t{if spec then "-" else hypOfI k b items o}"
  | none => s!"{model}\t0\t-"

def processLine (line : String) : String :=
  match SExp.fields line with
  | [inp, impl] =>
    let go (ks bs : String) (opsx : List SExp) (shape : Option String) : String :=
      match Kind.parse? ks, Beh.parse? bs with
      | some k, some b =>
        let shp? : Option Shape := match shape with
          | none => some (Shape.default b)
          | some t => Shape.parse? t
        match shp? with
        | none => "BADINPUT\t0\t-"
        | some shp =>
          match opsx.mapM? (fun x => do Op.parse? (← x.str?)) with
          | some ops => judge k b shp ops impl                    -- a plain schedule: one model run
          | none =>
            match opsx.mapM? parseItem with
            | some items => judgeI k b shp items impl             -- overlaps: a set of model runs
            | none => "BADINPUT\t0\t-"
      | _, _ => "BADINPUT\t0\t-"
    match SExp.parse inp with
    | some (.list [.atom ks, .atom bs, .list opsx]) => go ks bs opsx none
    | some (.list [.atom ks, .atom bs, .list opsx, .atom t]) => go ks bs opsx (some t)
    | _ => "BADINPUT\t0\t-"
  | _ => "BADLINE\t0\t-"

end Driver.C17
