/-
  Driver for C18. Line = "input<TAB>implObs", see harness/props/c18 (world.go: observation).

  input := (K KV0 (ACTION…))                      the script; only KV0 matters here (`(stubborn MODE)` = the tasks
                                                  alive at that moment outlive every KILL: nothing to replay, the
                                                  model's tasks only die when the trace shows a terminal update;
                                                  `(park I VIA) (env P)… (unpark)` = environment I is torn down with
                                                  the answers to its KILL calls held back, environments are created
                                                  meanwhile: shows in the trace as (destroy E) … (launch …) … (destroyed E OK))
  obs   := (EV…)  the master's trace of the REAL core, projected, plus the harness' markers:
    (kv F|-) (start L) (sub L F|- FO) (subd F) (recon N HTTP) (launch E T) (upd T STATE recon|-|other DELIVERED)
    (kill T HTTP) (drop) (killcore) (term) (exited) (destroy E) (destroyed E OK) (teardown)
    (envs (E STATE T…)…) (own PHASE (T LOCKED STATUS)…) (quiet L (T LIFE STATE [hid])…)
    (sparse none|exec|agent|both)             from here on the answers the master BUILDS to a RECONCILE lack the optional fields
                                              executor_id / agent_id / both (harness: sim.SetReconcileOmit); an update that lacks
                                              a field says so in a 6th field: (upd T STATE REASON DELIVERED noexec|noagent|noids);
                                              REASON vol = a reconciliation update the master volunteers (harness: (nudge))
    (hide T…) (unhide T…) (mute) (unmute)     what the master can report in answer to a RECONCILE changes
                                              (harness: sim.HideFromReconcile / SetReconcileSilent); a `hid` row of a
                                              quiet point = alive, but the master would not report it
    envs = GetEnvironments(showAll, showTaskInfos): every environment with the tasks its roles hold (locked); a row may end
    in (loose T…): tasks the roles of that environment reference that are NOT locked (environments the harness asked to
    destroy are left out) — owned by a live environment and not known as owned;
    own = GetTasks: the roster.
  tasks tN, barrier tasks bN (reconciliation updates about tasks nobody knows), environments eN, framework ids fN.

  MONITOR (modelObs = ACCEPT | REJECT:<why>): the trace is replayed as a history of Model/SparseStatus.lean over
  Model/Resubscribe.lean (the layers over Model/Reconcile.lean whose steps `hide`/`unhide`/`mute`/`unmute` change what the
  master answers, and `handleSparse` = a message that lacks agent_id / executor_id is handled) with
  the configuration and the id-copy guards the code has NOW (`Spec.C18.codeCfg`, `Spec.C18.codeGuards`, from the regenerated facts): what the master and
  the harness did become steps (coreStart, coreKill, coreTerm, subscribe, drop, launch, status, reconUpdate,
  release — a teardown the harness asked for is split: `releaseBegin` at (destroy E), `releaseEnd` at (destroyed E OK)
  or at the next synchronisation, so launches recorded in between are interleaved with it as they were in the
  real core), every event put on the stream is read and handled at once, and what the model's core then does
  (SUBSCRIBE with/without id, RECONCILE, KILL per task) must be what the real core was seen doing between two
  quiet points, as multisets; the roster must be what GetTasks said before every disturbance and after every
  restart, and what the model's environments hold (`St.held`) must be what GetEnvironments said they hold; the
  master's reconciliation answers must be the ones the model's master gives.

  SPEC (specOnImpl): `Spec.C18.all` on a log rebuilt from the observation ALONE (no model state): SUBSCRIBEs
  and mesos_fid values as seen, every KILL classified by what preceded it in the trace (reconciliation update /
  ordinary update / a teardown the harness asked for or the core's own shutdown) and by what GetTasks said
  the core owned at the last snapshot — owned = locked in the roster (GetTasks) OR held by a listed environment
  (GetEnvironments): a task the roster has lost is still owned —, quiet points with the master's live rows of
  earlier lives. RECONCILE
  calls are in that log too, so `orphansKilledEachRound` asks for a KILL of every orphan listed at a quiet point
  that is newer than the latest RECONCILE of that life (scripts with `(stubborn …)`: the orphan outlives its KILL).
  The SUBSCRIBE/SUBSCRIBED pairs of the trace (`Sub`: presented id, assigned id, accepted = a RECONCILE call or a
  quiet point followed on that stream) are rebuilt too: `identityKept` / `oneFramework` (`Spec.C18.allR`), and so are the
  views at the quiet points — every task a listed environment references, and whether it is locked: `heldLocked`
  (`Spec.C18.allS`). "Owned" of a KILL = locked in the roster OR referenced by a listed environment, locked or not.
  hyp = late_orphan_never_reconciled when only the orphan clauses fail and the replayed history violates
  `noLateOrphans` (the excluded hypothesis of C18_visible_orphans_killed_partial);
  hyp = reconnect_kills_owned when only `ownedSpared` fails, the code has no roster test, and the replayed
  history violates `noReconnWhileOwning` (the excluded hypothesis of C18_owned_spared_partial).
-/
import ControlModel.Basic
import ControlModel.Spec.C18

namespace Driver.C18
open Reconcile Spec.C18

def barrierBase : Nat := 1000000

inductive TEv where
  | kv (f : Option Nat)
  | start (l : Nat)
  | sub (l : Nat) (f : Option Nat) (fo : Bool)
  | subd (f : Nat)
  | recon (n http : Nat)
  | launch (e t : Nat)
  | upd (t : Nat) (s : MState) (r : Reason) (d : Bool) (vol : Bool) (noAgent noExec : Bool)
  | kill (t http : Nat)
  | drop | killcore | term | exited | teardown
  | destroy (e : Nat)
  | destroyed (e : Nat) (ok : Bool)
  | envs (rows : List (Nat × List Nat × List Nat))   -- environment, tasks it holds locked, tasks it references unlocked
  | sparse (noAgent noExec : Bool)
  | own (phase : String) (rows : List (Nat × Bool))
  | quiet (l : Nat) (rows : List (Nat × Nat × MState × Bool))
  | hide (ts : List Nat)
  | unhide (ts : List Nat)
  | mute | unmute

def pref (p : Char) (base : Nat) : SExp → Option Nat
  | .atom s =>
    match s.toList with
    | c :: rest => if c == p then (String.ofList rest).toNat?.map (· + base) else none
    | [] => none
  | _ => none

def taskRef (x : SExp) : Option Nat := (pref 't' 0 x).orElse (fun _ => pref 'b' barrierBase x)
def envRef : SExp → Option Nat := pref 'e' 0
def fidRef : SExp → Option (Option Nat)
  | .atom "-" => some none
  | x => (pref 'f' 0 x).map some

def stateOfShort (s : String) : Option MState := stateOfName ("TASK_" ++ s)

def parseEv : SExp → Option TEv
  | .list [.atom "kv", f] => do pure (.kv (← fidRef f))
  | .list [.atom "start", l] => do pure (.start (← l.nat?))
  | .list [.atom "sub", l, f, fo] => do pure (.sub (← l.nat?) (← fidRef f) (← fo.bool?))
  | .list [.atom "subd", f] => do pure (.subd (← pref 'f' 0 f))
  | .list [.atom "recon", n, h] => do pure (.recon (← n.nat?) (← h.nat?))
  | .list [.atom "launch", e, t] => do pure (.launch (← envRef e) (← taskRef t))
  | .list [.atom "upd", t, .atom s, .atom r, d] => do
    pure (.upd (← taskRef t) (← stateOfShort s) (if r == "recon" || r == "vol" then .recon else .none) (← d.bool?) (r == "vol") false false)
  | .list [.atom "upd", t, .atom s, .atom r, d, .atom om] => do
    let (na, ne) ← (match om with
      | "noexec" => some (false, true) | "noagent" => some (true, false) | "noids" => some (true, true) | _ => none)
    pure (.upd (← taskRef t) (← stateOfShort s) (if r == "recon" || r == "vol" then .recon else .none) (← d.bool?) (r == "vol") na ne)
  | .list [.atom "sparse", .atom om] =>
    match om with
    | "none" => some (.sparse false false) | "exec" => some (.sparse false true)
    | "agent" => some (.sparse true false) | "both" => some (.sparse true true) | _ => none
  | .list [.atom "kill", t, h] => do pure (.kill (← taskRef t) (← h.nat?))
  | .list [.atom "drop"] => some .drop
  | .list [.atom "killcore"] => some .killcore
  | .list [.atom "term"] => some .term
  | .list [.atom "exited"] => some .exited
  | .list [.atom "teardown"] => some .teardown
  | .list [.atom "destroy", e] => do pure (.destroy (← envRef e))
  | .list [.atom "destroyed", e, ok] => do pure (.destroyed (← envRef e) (← ok.bool?))
  | .list (.atom "envs" :: rows) => do
    pure (.envs (← rows.mapM? fun
      | .list (e :: _ :: ts) => do
        let loose := ts.filterMap fun | .list (.atom "loose" :: ls) => some ls | _ => none
        let held := ts.filter fun | .list _ => false | _ => true
        pure ((← envRef e), (← held.mapM? taskRef), (← loose.flatten.mapM? taskRef))
      | _ => none))
  | .list (.atom "own" :: .atom phase :: rows) => do
    pure (.own phase (← rows.mapM? fun | .list [t, l, _] => do pure ((← taskRef t), (← l.bool?)) | _ => none))
  | .list (.atom "quiet" :: l :: rows) => do
    pure (.quiet (← l.nat?) (← rows.mapM? fun
      | .list [t, life, .atom s] => do pure ((← taskRef t), (← life.nat?), (← stateOfShort s), false)
      | .list [t, life, .atom s, .atom "hid"] => do pure ((← taskRef t), (← life.nat?), (← stateOfShort s), true)
      | _ => none))
  | .list (.atom "hide" :: ts) => do pure (.hide (← ts.mapM? taskRef))
  | .list (.atom "unhide" :: ts) => do pure (.unhide (← ts.mapM? taskRef))
  | .list [.atom "mute"] => some .mute
  | .list [.atom "unmute"] => some .unmute
  | _ => none

/-! ## the monitor -/

def W : World := World.complete

structure Mon where
  r : RSt
  hist : List RStep := []         -- newest first
  mark : Nat := 0                 -- length of `s.log` at the last synchronisation
  seen : List String := []        -- SUBSCRIBE/RECONCILE calls of the real core since then
  kills : List (Nat × Bool) := [] -- its KILL calls since then: task, and whether the master held the task terminal already
  window : List Nat := []         -- tasks that were in the model's roster at some point since then
  expAns : List Upd := []         -- reconciliation answers the model's master gave, not yet seen in the trace
  terminating : Bool := false
  refused : List Nat := []        -- environments whose DestroyEnvironment request the core refused
  envHeld : List (Nat × Nat) := []  -- (task, environment): what GetEnvironments last said the environments hold
  envLoose : List (Nat × Nat) := [] -- … and reference without the task being locked
  sparse : Bool × Bool := (false, false)  -- what the master's own answers to a RECONCILE lack at present (agent_id, executor_id)
  err : Option String := none

def Mon.fail (m : Mon) (why : String) : Mon := if m.err.isSome then m else { m with err := some why }

def Mon.s (m : Mon) : St := m.r.base

def Mon.sstep (m : Mon) (x : SStep) : Mon :=
  let r' := Reconcile.sstep codeGuards codeCfg m.r x
  { m with r := r', hist := x.erase :: m.hist, window := (r'.base.roster.map (·.id) ++ m.window).eraseDups }

def Mon.rstep (m : Mon) (x : RStep) : Mon := m.sstep (.r x)

def Mon.step (m : Mon) (x : Step) : Mon := m.rstep (.base x)

/-- read and handle everything that is on the stream behind an already-read SUBSCRIBED; `fl` = the optional fields
    (agent_id, executor_id) the messages handled now lack -/
def Mon.drain (m : Mon) (fl : Bool × Bool) : Nat → Mon
  | 0 => m
  | fuel + 1 =>
    if m.s.hello.isSome || !m.s.alive then m
    else if !m.s.inbox.isEmpty then
      (if fl == (false, false) then m.step .handle else m.sstep (.handleSparse fl.1 fl.2)).drain fl fuel
    else if !m.s.queue.isEmpty then (m.step .read).drain fl fuel
    else m

def Mon.settleWith (m : Mon) (fl : Bool × Bool) : Mon := m.drain fl (2 * (m.s.queue.length + m.s.inbox.length) + 2)

def Mon.settle (m : Mon) : Mon := m.settleWith (false, false)

/-- the KILL calls of every teardown still in flight in the model have returned by now -/
def Mon.finishTeardowns (m : Mon) : Mon := m.s.tearing.foldl (fun m d => m.step (.releaseEnd d.env)) m

def fidStr : Option Nat → String
  | none => "-"
  | some f => s!"f{f}"

/-- SUBSCRIBE and RECONCILE calls the model's core made since the mark, as comparable strings -/
def predicted (m : Mon) : List String :=
  ((m.s.log.take (m.s.log.length - m.mark)).filterMap fun
    | .subscribe l c => some s!"sub {l} {fidStr c}"
    | .reconcile l => some s!"recon {l}"
    | _ => none)

/-- KILLs the model's core made since the mark because of a status update (task, still alive at the master now) -/
def predictedUpdateKills (m : Mon) : List Nat :=
  ((m.s.log.take (m.s.log.length - m.mark)).filterMap fun
    | .kill _ t (.update _) _ => some t
    | _ => none)

def predictedKills (m : Mon) : List Nat :=
  ((m.s.log.take (m.s.log.length - m.mark)).filterMap fun
    | .kill _ t _ _ => some t
    | _ => none)

def sortS (xs : List String) : List String := (xs.toArray.qsort (· < ·)).toList

def removeOne (x : String) : List String → Option (List String)
  | [] => none
  | y :: ys => if x == y then some ys else (removeOne x ys).map (y :: ·)

def subMultiset : List String → List String → Bool
  | [], _ => true
  | x :: xs, ys => match removeOne x ys with
    | some ys' => subMultiset xs ys'
    | none => false

/-- Synchronisation at a quiet point (strict) or when the stream / the process goes away (not strict: calls may
    be lost). SUBSCRIBE and RECONCILE calls must be exactly the model's. KILL calls:
    * every KILL the model's core makes because of a status update must have been made by the real core
      (strict only) — that is how orphans die;
    * a KILL of the real core must be one the model's core makes too, or hit a task the master already held
      terminal (a no-op), or hit a task that left the roster since the last synchronisation (an environment
      torn down on request, or given up by the core itself: whether such a task is still ACTIVE, hence
      KILLed rather than forgotten, is a race inside the core that this property does not depend on). -/
def Mon.sync (m : Mon) (strict : Bool) (wher : String) : Mon :=
  let m := m.settle.finishTeardowns
  let p := sortS (predicted m)
  let o := sortS m.seen
  let ok := if strict then p == o else subMultiset o p
  let m := if ok then m else m.fail s!"{wher}: the core made the calls {o}, the model's core {p}"
  let pk := predictedKills m
  let obsK := m.kills.map (·.1)
  let missing := if strict then (predictedUpdateKills m).filter (fun t => !obsK.contains t) else []
  let m := if missing.isEmpty then m else m.fail s!"{wher}: no KILL for {missing}, which the model's core kills (the core's KILLs: {obsK})"
  let extra := m.kills.filter fun (t, dead) =>
    !dead && !pk.contains t && !(m.window.contains t && !inRoster m.s.roster t)
  let m := if extra.isEmpty then m else m.fail s!"{wher}: the core KILLed {extra.map (·.1)}, the model's core only {pk}"
  let m := if strict && !m.expAns.isEmpty then m.fail s!"{wher}: the model's master answered the reconciliation with {m.expAns.map (·.1)} more" else m
  { m with mark := m.s.log.length, seen := [], kills := [], window := m.s.roster.map (·.id),
           expAns := if strict then [] else m.expAns }

def rosterRows (s : St) : List String :=
  sortS (s.roster.map fun r => s!"{r.id}:{r.locked}")

def heldRows (h : List (Nat × Nat)) : List String := sortS (h.map fun (t, e) => s!"{t}@{e}")

def Mon.onEv (m : Mon) (kv0 : Option Nat) : TEv → Mon
  | .kv f =>
    if m.s.life == 0 then (if f == kv0 then m else m.fail "initial mesos_fid differs from the input")
    else if m.s.kv == f then m else m.fail s!"mesos_fid holds {fidStr f}, the model {fidStr m.s.kv}"
  | .start l =>
    let m := m.step .coreStart
    if m.s.life == l && m.s.alive then { m with terminating := false } else m.fail s!"life {l} started, the model is in life {m.s.life}"
  | .sub l f fo =>
    if m.s.stream.isSome then m.fail "SUBSCRIBE while the model's stream is up" else
    let m := m.step .subscribe
    let m := if fo == codeCfg.failover then m else m.fail "failover_timeout of the SUBSCRIBE differs from the model's configuration"
    { m with seen := s!"sub {l} {fidStr f}" :: m.seen }
  | .subd f => if m.s.hello == some f then m else m.fail s!"SUBSCRIBED f{f}, the model's master said {fidStr m.s.hello}"
  | .recon n _ =>
    if n != 0 then m.fail "explicit reconciliation" else
    if m.s.hello.isNone then m.fail "RECONCILE without a SUBSCRIBED to handle" else
    let before := m.s.queue.length
    let m := m.step .read
    let ans := (m.s.queue.drop before).filter (fun u => u.2.2 == .recon)
    -- the answers are built by the master: they lack what it omits at present
    ({ m with seen := s!"recon {m.s.life}" :: m.seen, expAns := m.expAns ++ ans }).settleWith m.sparse
  | .launch e t =>
    let m := m.settle
    let m' := m.step (.launch e t)
    if m'.s.tasks.length == m.s.tasks.length + 1 then m' else m'.fail s!"task {t} launched while the model's core could not launch"
  | .upd t st r d vol na ne =>
    if r == .recon then
      if !d then m else
      if t ≥ barrierBase then (m.step (.reconUpdate t st)).settle
      -- a reconciliation update the master volunteers about a task it knows: handled with the fields it carries
      else if vol then (m.step (.reconUpdate t st)).settleWith (na, ne)
      else
        -- the SUBSCRIBED may not have been matched with its RECONCILE yet: then the answer is not predicted yet
        match removeOneUpd (t, st, Reason.recon) m.expAns with
        | some rest =>
          let m := if (na, ne) == m.sparse then m
            else m.fail s!"reconciliation answer about {t} lacks (agent_id, executor_id) = {(na, ne)}, the model's master omits {m.sparse}"
          ({ m with expAns := rest }).settle
        | none => m.fail s!"reconciliation answer ({t} {repr st}) that the model's master did not give"
    else (m.step (.status t st)).settleWith (na, ne)
  | .kill t _ =>
    if m.terminating then
      if (m.s.tasks.any (·.id == t)) then m else m.fail s!"KILL of unknown task {t} during shutdown"
    else
      let dead := match m.s.tasks.find? (·.id == t) with | some r => r.state.terminal | none => false
      { m with kills := (t, dead) :: m.kills }
  | .drop => (m.sync false "stream dropped").step .drop
  | .killcore => (m.sync false "core killed").step .coreKill
  | .term => { (m.sync true "SIGTERM") with terminating := true }
  | .exited =>
    let m := m.settle.step .coreTerm
    { m with mark := m.s.log.length, seen := [], kills := [], window := [], expAns := [], terminating := false }
  | .teardown => m.fail "TEARDOWN call"
  | .destroy e => if m.terminating || m.refused.contains e then m else m.settle.step (.releaseBegin e)
  | .destroyed e _ => if m.terminating then m else m.settle.step (.releaseEnd e)
  | .sparse na ne => { m with sparse := (na, ne) }
  | .envs rows =>
    let m := { m with envHeld := rows.flatMap (fun (e, ts, _) => ts.map fun t => (t, e)),
                      envLoose := rows.flatMap (fun (e, _, ls) => ls.map fun t => (t, e)) }
    if m.terminating || !m.s.alive then m else
    -- environments the core has given up by itself (failed deployment): their tasks are released
    let listed := rows.map (·.1)
    let gone := (m.s.roster.map (·.env)).eraseDups.filter (fun e => !listed.contains e)
    gone.foldl (fun m e => m.settle.step (.release e)) m
  | .own phase rows =>
    if phase == "post" || m.terminating then m else
    let m := m.settle.finishTeardowns
    -- an environment none of whose tasks GetTasks still lists has been released by the core itself
    -- (failed deployment, its clean-up possibly still in progress: the environment may still be listed)
    let ids := rows.map (·.1)
    let gone := (m.s.roster.map (·.env)).eraseDups.filter fun e =>
      (m.s.roster.filter (·.env == e)).all fun r => !ids.contains r.id
    let m := gone.foldl (fun m e => m.step (.release e)) m
    let o := sortS (rows.map fun (t, l) => s!"{t}:{l}")
    let m := if o == rosterRows m.s then m else m.fail s!"GetTasks ({phase}) says {o}, the model's roster is {rosterRows m.s}"
    let m := if heldRows (m.envHeld ++ m.envLoose) == heldRows m.s.held then m
      else m.fail s!"GetEnvironments ({phase}) says the environments hold {heldRows (m.envHeld ++ m.envLoose)}, the model's environments {heldRows m.s.held}"
    -- … and which of them are not locked (none, in every reachable state of the model with the code's guards)
    let looseModel := m.s.held.filter fun p => !lockedIn m.s.roster p.1
    if heldRows m.envLoose == heldRows looseModel then m
    else m.fail s!"GetEnvironments ({phase}) says the environments hold {heldRows m.envLoose} WITHOUT the tasks being locked, the model {heldRows looseModel}"
  | .quiet l rows =>
    let m := if m.s.hello.isSome then m.fail s!"quiet point of life {l} with the model's SUBSCRIBED unread: no RECONCILE call was seen after the latest SUBSCRIBED" else m
    let m := m.sync true s!"quiet point of life {l}"
    let m := m.step .snapshot
    let want := sortS ((rows.filter fun (_, life, st, hid) => life < l && unguardedCfg.killable st && !hid).map fun (t, _, _, _) => toString t)
    -- the tasks the harness holds hidden are the ones the model's master leaves out
    let hidNow := sortS ((rows.filter fun (_, _, _, hid) => hid).map fun (t, _, _, _) => toString t)
    let hidModel := sortS (((m.s.tasks.filter fun t => !t.state.terminal && m.r.hidden.contains t.id).map (·.id)).eraseDups.map toString)
    let m := if hidNow == hidModel then m else m.fail s!"quiet point: the master hides {hidNow}, the model's master {hidModel}"
    let m := match m.s.log with
      | .snap l' os :: _ =>
        if l' == l && sortS (os.map toString) == want then m
        else m.fail s!"quiet point: the master holds orphans {want}, the model {os}"
      | _ => m.fail "quiet point: the model is not quiescent"
    { m with mark := m.s.log.length }
  | .hide ts => ts.foldl (fun m t => m.rstep (.hide t)) m
  | .unhide ts => ts.foldl (fun m t => m.rstep (.unhide t)) m
  | .mute => m.rstep .mute
  | .unmute => m.rstep .unmute
where
  removeOneUpd (u : Upd) : List Upd → Option (List Upd)
    | [] => none
    | y :: ys => if u == y then some ys else (removeOneUpd u ys).map (y :: ·)

/-! ## the log of the real core, from the observation alone -/

structure Obs where
  /-- (position, environments listed) of every `(envs …)` marker of the trace: lets a KILL be attributed to a
      clean-up the core started by itself (the environment is gone at the next snapshot) -/
  snaps : List (Nat × List (Nat × List Nat × List Nat)) := []
  pos : Nat := 0
  dead : List Nat := []             -- tasks whose last reported state is terminal
  log : List Out := []              -- newest first
  life : Nat := 0
  lastKv : Option Nat := none
  own : List (Nat × Bool) := []
  /-- tasks held (locked) by an environment GetEnvironments listed at the last snapshot of this life -/
  held : List Nat := []
  destroying : List Nat := []
  terminating : Bool := false
  lastReason : List (Nat × Reason) := []
  envOf : List (Nat × Nat) := []
  /-- the SUBSCRIBE calls (newest first) with what the master answered and whether the core went on under it -/
  subs : List Sub := []
  /-- one view per snapshot: every task a listed environment (not one the harness asked to destroy, not during the core's
      shutdown) references, and whether it is locked -/
  views : List (List (Nat × Bool)) := []

def Obs.onEv (o : Obs) (ev : TEv) : Obs :=
  let o := { o with pos := o.pos + 1 }
  match ev with
  | .kv f =>
    match f with
    | some g => if o.lastKv == some g then o else { o with log := .persist o.life g :: o.log, lastKv := some g }
    | none => o
  | .start l => { o with life := l, own := [], held := [], destroying := [], terminating := false, lastReason := [] }
  | .sub l f _ => { o with log := .subscribe l f :: o.log,
                           subs := { life := l, carry := f, assigned := 0, accepted := false } :: o.subs }
  | .subd f => { o with subs := match o.subs with | y :: ys => { y with assigned := f } :: ys | [] => [] }
  | .recon 0 http =>
    -- a RECONCILE the master took on this stream shows that the SUBSCRIBED handler got past TrackSubscription
    { o with log := .reconcile o.life :: o.log, subs := if http == 202 then acceptHead o.subs else o.subs }
  | .launch e t => { o with envOf := (t, e) :: o.envOf }
  | .upd t st r d _ _ _ =>
    let o := if st.terminal && r != .recon then { o with dead := t :: o.dead } else o
    if d then { o with lastReason := Assoc.set o.lastReason t r } else o
  | .own _ rows => { o with own := rows }
  | .destroy e => { o with destroying := e :: o.destroying }
  | .envs rows =>
    -- an environment the core no longer lists is being (or has been) cleaned up by the core itself
    let listed := rows.map (·.1)
    let gone := ((o.envOf.map (·.2)).eraseDups.filter fun e => !listed.contains e)
    let live := rows.filter fun (e, _, _) => !o.destroying.contains e
    let view := live.flatMap fun (_, ts, ls) => ts.map (·, true) ++ ls.map (·, false)
    { o with destroying := (gone ++ o.destroying).eraseDups,
             -- owned = referenced by a listed environment, whether or not the roster has the task locked
             held := rows.flatMap (fun (_, ts, ls) => ts ++ ls),
             views := if o.terminating then o.views else o.views ++ [view] }
  | .term => { o with terminating := true }
  | .kill t _ =>
    let env := Assoc.get o.envOf t
    let goneNext := match env, o.snaps.find? (fun sn => sn.1 > o.pos) with
      | some e, some sn => !(sn.2.map (fun x => x.1)).contains e
      | _, _ => false
    let released := o.dead.contains t || goneNext || (match env with | some e => o.destroying.contains e | none => false)
    let why : Why := if o.terminating then .term else
      match Assoc.get o.lastReason t with
      | some .recon => .update .recon
      | _ => if released then .release else .update .none
    let owned := !o.terminating && !released && (o.own.contains (t, true) || o.held.contains t)
    { o with log := .kill o.life t why owned :: o.log }
  | .quiet l rows =>
    -- a quiet point was reached under the current subscription (the barrier was answered on its stream)
    { o with log := .snap l ((rows.filter fun (_, life, st, hid) => life < l && unguardedCfg.killable st && !hid).map (·.1)) :: o.log,
             subs := acceptHead o.subs }
  | _ => o

def parseKv0 : SExp → Option (Option Nat)
  | .list [_, b, _] => do pure (if (← b.bool?) then some 0 else none)
  | _ => none

def processLine (line : String) : String :=
  match SExp.fields line with
  | [inp, impl] =>
    match (SExp.parse inp).bind parseKv0, SExp.parse impl with
    | some kv0, some (.list evs) =>
      match evs.mapM? parseEv with
      | none => "REJECT:unparsable-observation\t0\t-"
      | some tr =>
        let refused := tr.filterMap fun | .destroyed e false => some e | _ => none
        let m := tr.foldl (fun m e => m.onEv kv0 e) ({ r := rinit kv0, refused := refused } : Mon)
        let m := m.sync true "end of the trace"
        let snaps := (tr.zipIdx.filterMap fun (e, i) => match e with | .envs rows => some (i + 1, rows) | _ => none)
        let o := tr.foldl Obs.onEv { snaps := snaps }
        let spec := Spec.C18.allS o.log o.subs o.views
        let hl := heldLocked o.views
        let model := match m.err with | none => "ACCEPT" | some w => "REJECT:" ++ (w.replace "\t" " ").replace "\n" " "
        let ids := identityKept o.subs && oneFramework o.subs
        let orphanOk := orphansKilled o.log && orphansKilledEachRound o.log && orphansKilledEachSubscription o.log
        let onlyOwned := sameIdentity o.log && persistedOnce o.log && orphanOk && ids && updatesNeverKill o.log && hl && !ownedSpared o.log
        let onlyOrphans := sameIdentity o.log && persistedOnce o.log && ids && updatesNeverKill o.log && ownedSpared o.log && hl && !orphanOk
        let hist := m.hist.reverse
        let hyp :=
          if !spec && onlyOwned && !codeCfg.rosterGuard &&
             !noReconnWhileOwning codeCfg W (hist.filterMap fun | .base x => some x | _ => none) (init kv0)
          then "reconnect_kills_owned"
          else if !spec && onlyOrphans && !noLateOrphans codeCfg hist (rinit kv0) then "late_orphan_never_reconciled"
          else "-"
        s!"{model}\t{if spec then 1 else 0}\t{hyp}"
    | _, _ => "BADINPUT\t0\t-"
  | _ => "BADLINE\t0\t-"

end Driver.C18
