/- Driver for C18 (stub). -/
import ControlModel.Basic

namespace Driver.C18

def processLine (_line : String) : String := "UNIMPLEMENTED\t0\t-"

end Driver.C18
