/-
  Driver for C19 (monitor style).  line = "input<TAB>implObs", see harness/props/c19.

  The goroutine schedule of the real writer cannot be dictated, so the driver rebuilds a
  MODEL schedule from the shape of the observation — which producer's event sits in which
  batch, the batch sizes, how Close ended — runs the model (`Writer.runStrict codeCfg`)
  on it and prints the MODEL's observation: accepted counts, batches with the model's own
  sequence numbers and keys, how Close ended, what is left in channel/buffer, writes in
  flight.  Agreement = string equality with the implementation's observation.  Anything
  the model cannot do (a batch of 101, a producer's events out of order or twice, an event
  missing without being in the buffer, Close returning with the channel non-empty or a
  write in flight, a hang with a non-empty buffer, a wrong key, a blocked producer) makes the
  two differ.
-/
import ControlModel.Model.Writer
import ControlModel.Spec.C19

namespace Driver.C19
open Writer

def parseProds (x : SExp) : Option (List Producer) := do
  match x with
  | .list (.atom "prods" :: ps) =>
    ps.mapM? fun
      | .list [k, e, t] => do
          let kind ← Kind.ofIdx? (← k.nat?)
          pure { kind := kind, env := (← e.nat?), task := (← t.nat?) }
      | _ => none
  | _ => none

/-- events each producer publishes according to the script -/
def scriptTotals (np : Nat) (ops : List SExp) : Option (List Nat) := do
  let mut tot : List Nat := List.replicate np 0
  for o in ops do
    match o with
    | .list [.atom "pub", p, n] | .list [.atom "spawn", p, n, _] =>
        let p ← p.nat?
        let n ← n.nat?
        if p < np then tot := tot.set p (tot.getD p 0 + n) else none
    | _ => pure ()
  pure tot

def parseStatus : SExp → Option CloseStatus
  | .atom "returned" => some .returned
  | .atom "hung" => some .hung
  | .atom "none" => some .notCalled
  | _ => none

def parseObs (x : SExp) : Option Obs := do
  match x with
  | .list [.list (.atom "accepted" :: acc), .list (.atom "batches" :: bs), .list [.atom "close", st],
           .list [.atom "left", c, b], .list [.atom "inflight", i]] =>
    let accepted ← acc.mapM? SExp.nat?
    let batches ← bs.mapM? fun b => do
      (← b.list?).mapM? fun
        | .list [p, s, k] => do pure ((← p.nat?), (← s.nat?), (← k.nat?))
        | _ => none
    pure { accepted, batches, status := (← parseStatus st), leftChan := (← c.nat?), leftBuf := (← b.nat?),
           inflight := (← i.nat?) }
  | _ => none

def moves (n : Nat) : List Step := (List.replicate n [Step.batchRecv, Step.batchPush]).flatten

/-- The model schedule for an observation of this shape. -/
def schedOf (totals : List Nat) (o : Obs) : Option (List Step) := do
  let shape := o.batches.map fun b => b.map (·.1)
  let written := shape.flatten
  let mut sched : List Step := []
  for b in shape do
    sched := sched ++ b.map Step.publish ++ moves b.length ++ [.writerSelect, .writerPop, .writeDone]
  -- what was accepted and never written goes through channel and hand into the buffer
  let mut p := 0
  for t in totals do
    let w := written.countP (· == p)
    if w > t then none
    sched := sched ++ (List.replicate (t - w) [Step.publish p, .batchRecv, .batchPush]).flatten
    p := p + 1
  match o.status with
  | .returned => pure (sched ++ [.close, .batchDone, .broadcast, .writerSelect, .closeReturn])
  | .hung => pure (sched ++ [.writerSelect, .close, .batchDone, .broadcast, .writerPop])
  | .notCalled => pure sched

def statusOf (s : State) : String :=
  if s.closeCompleted then "returned"
  else if s.closed && !canProgress codeCfg s && lostWakeup s then "hung"
  else "none"

def printModel (prods : List Producer) (s : State) : SExp :=
  let acc := (List.range prods.length).map fun p => SExp.ofNat (countOf p s.pubs)
  let bs := s.written.map fun b => SExp.list (b.map fun e =>
    let key := match prods[e.1]? with
      | some pr => keyOf pr.kind pr.env pr.task
      | none => 9999
    SExp.list [.ofNat e.1, .ofNat e.2, .ofNat key])
  .list [.list (.atom "accepted" :: acc), .list (.atom "batches" :: bs), .list [.atom "close", .atom (statusOf s)],
         .list [.atom "left", .ofNat (s.chan.length + s.hand.toList.length), .ofNat s.buf.length],
         .list [.atom "inflight", .ofNat (if s.wpc == .writing then 1 else 0)]]

def lostCount (o : Obs) : Nat := o.accepted.foldl (· + ·) 0 - o.delivered.length

/-- Which excluded hypothesis (known finding) explains a Spec failure, if any. -/
def hypOf (prods : List Producer) (o : Obs) : String :=
  if !safeOk codeCfg.batchMax prods o then "-"
  else if o.status == .returned && o.inflight == 0 && !allDelivered o.accepted o.delivered && o.leftBuf == lostCount o
       && o.leftChan == 0 then
    "close_drops_buffered"
  else if o.status == .hung && allDelivered o.accepted o.delivered && o.leftBuf == 0 && o.leftChan == 0 then
    "close_lost_wakeup"
  else "-"

def stormLine (n ok hung : Nat) : String :=
  -- the two ways "nothing published, Close at some instant" can go in the model
  let okRun := runStrict codeCfg init [.close, .batchDone, .broadcast, .writerSelect, .closeReturn]
  let hungRun := runStrict codeCfg init [.writerSelect, .close, .batchDone, .broadcast, .writerPop]
  let okPossible := match okRun with
    | some s => s.closeCompleted
    | none => false
  let hungPossible := match hungRun with
    | some s => statusOf s == "hung"
    | none => false
  let model :=
    if ok + hung == n && (ok == 0 || okPossible) && (hung == 0 || hungPossible) then
      s!"(storm {n} ok {ok} hung {hung})"
    else "REJECT:storm-outcome-not-in-model"
  let spec := hung == 0 && ok == n
  s!"{model}\t{if spec then 1 else 0}\t{if hung > 0 && ok + hung == n then "close_lost_wakeup" else "-"}"

def processLine (line : String) : String :=
  match SExp.fields line with
  | [inp, impl] =>
    match SExp.parse inp, SExp.parse impl with
    | some (.list [.atom "storm", n]), some (.list [.atom "storm", n', .atom "ok", a, .atom "hung", b]) =>
      match n.nat?, n'.nat?, a.nat?, b.nat? with
      | some n, some n', some a, some b => if n == n' then stormLine n a b else "REJECT:storm-size\t0\t-"
      | _, _, _, _ => "BADINPUT\t0\t-"
    | some (.list [prodsX, .list (.atom "park" :: _), .list (.atom "script" :: ops)]), some implX =>
      match parseProds prodsX with
      | none => "BADINPUT\t0\t-"
      | some prods =>
        match scriptTotals prods.length ops, parseObs implX with
        | some totals, some o =>
          let spec := Spec codeCfg.batchMax prods o
          let hyp := if spec then "-" else hypOf prods o
          let model :=
            match schedOf totals o with
            | none => "REJECT:more-written-than-accepted"
            | some sched =>
              match runStrict codeCfg init sched with
              | none => "REJECT:reconstructed-schedule-not-enabled"
              | some s => toString (printModel prods s)
          s!"{model}\t{if spec then 1 else 0}\t{hyp}"
        | _, _ => s!"REJECT:unparsable-observation\t0\t-"
    | _, _ => "BADINPUT\t0\t-"
  | _ => "BADLINE\t0\t-"

end Driver.C19
