/-
  Driver for C19 (monitor style).  line = "input<TAB>implObs", see harness/props/c19.

  The goroutine schedule of the real writer cannot be dictated, so the driver rebuilds a
  MODEL schedule from the shape of the observation — which producer's event sits in which
  batch, the batch sizes, how Close ended — runs the model (`Writer.runStrict codeCfg`)
  on it and prints the MODEL's observation: accepted counts, batches with the model's own
  sequence numbers and keys, how Close ended, what is left in channel/buffer, writes in
  flight.  Agreement = string equality with the implementation's observation.  Anything
  the model cannot do (a batch of 101, a producer's events out of order or twice, an event
  missing without being in the buffer, Close returning with the channel non-empty or a
  write in flight, a hang with a non-empty buffer, a wrong key, a blocked producer) makes the
  two differ.
-/
import ControlModel.Model.Writer
import ControlModel.Model.Registry
import ControlModel.Spec.C19

namespace Driver.C19
open Writer

def parseProds (x : SExp) : Option (List Producer) := do
  match x with
  | .list (.atom "prods" :: ps) =>
    ps.mapM? fun
      | .list [k, e, t] => do
          let kind ← Kind.ofIdx? (← k.nat?)
          pure { kind := kind, env := (← e.nat?), task := (← t.nat?) }
      | _ => none
  | _ => none

/-- events each producer publishes according to the script -/
def scriptTotals (np : Nat) (ops : List SExp) : Option (List Nat) := do
  let mut tot : List Nat := List.replicate np 0
  for o in ops do
    match o with
    | .list [.atom "pub", p, n] | .list [.atom "spawn", p, n, _] =>
        let p ← p.nat?
        let n ← n.nat?
        if p < np then tot := tot.set p (tot.getD p 0 + n) else none
    | _ => pure ()
  pure tot

def parseStatus : SExp → Option CloseStatus
  | .atom "returned" => some .returned
  | .atom "hung" => some .hung
  | .atom "none" => some .notCalled
  | _ => none

def parseSnap : SExp → Option Snap
  | .list [.atom "snap", .list (.atom "acc" :: acc), .list [.atom "chan", c], .list [.atom "hand", h],
           .list [.atom "buf", b], .list [.atom "written", w], .list (.atom "blocked" :: bl)] => do
    pure { acc := (← acc.mapM? SExp.nat?), chan := (← c.nat?), hand := (← h.nat?), buf := (← b.nat?),
           written := (← w.nat?), blocked := (← bl.mapM? SExp.nat?) }
  | _ => none

def parseAtReturn : SExp → Option (Nat × Nat)
  | .list [.atom "atreturn", w, l] => do pure ((← w.nat?), (← l.nat?))
  | _ => none

/-- The observation; `true` in the second component: it carries a `(snaps …)` element ("channel
    full" scenarios: the script holds the batching loop up, or the writer has a chosen capacity). -/
def parseObs (x : SExp) : Option (Obs × Bool) := do
  let core (acc bs : List SExp) (st c b i ar : SExp) : Option Obs := do
    let accepted ← acc.mapM? SExp.nat?
    let batches ← bs.mapM? fun b => do
      (← b.list?).mapM? fun
        | .list [p, s, k] => do pure ((← p.nat?), (← s.nat?), (← k.nat?))
        | _ => none
    let (w, l) ← parseAtReturn ar
    pure { accepted, batches, status := (← parseStatus st), leftChan := (← c.nat?), leftBuf := (← b.nat?),
           inflight := (← i.nat?), writtenAtReturn := w, lateCalls := l }
  match x with
  | .list [.list (.atom "accepted" :: acc), .list (.atom "batches" :: bs), .list [.atom "close", st],
           .list [.atom "left", c, b], .list [.atom "inflight", i], ar] =>
    pure ((← core acc bs st c b i ar), false)
  | .list [.list (.atom "accepted" :: acc), .list (.atom "batches" :: bs), .list [.atom "close", st],
           .list [.atom "left", c, b], .list [.atom "inflight", i], ar, .list (.atom "snaps" :: sn)] =>
    let o ← core acc bs st c b i ar
    pure ({ o with snaps := (← sn.mapM? parseSnap) }, true)
  | _ => none

/-- What each producer has been told to publish BEFORE each `(await-blocked)` of the script. -/
def totalsAtSnaps (np : Nat) (ops : List SExp) : Option (List (List Nat)) := do
  let mut tot : List Nat := List.replicate np 0
  let mut out : Array (List Nat) := #[]
  for o in ops do
    match o with
    | .list [.atom "pub", p, n] | .list [.atom "spawn", p, n, _] =>
        let p ← p.nat?
        let n ← n.nat?
        if p < np then tot := tot.set p (tot.getD p 0 + n) else none
    | .list [.atom "await-blocked"] => out := out.push tot
    | _ => pure ()
  pure out.toList

def moves (n : Nat) : List Step := (List.replicate n [Step.batchRecv, Step.batchPush]).flatten

/-- The model schedule for an observation of this shape. -/
def schedOf (totals : List Nat) (o : Obs) : Option (List Step) := do
  let shape := o.batches.map fun b => b.map (·.1)
  let written := shape.flatten
  -- a writer that lives long enough for a script to reach it: both workers have been scheduled
  let mut sched : List Step := bothStarted
  for b in shape do
    sched := sched ++ b.map Step.publish ++ moves b.length ++ [.writerSelect, .writerPop, .writeDone]
  -- what was accepted and never written goes through channel and hand into the buffer
  let mut p := 0
  for t in totals do
    let w := written.countP (· == p)
    if w > t then none
    sched := sched ++ (List.replicate (t - w) [Step.publish p, .batchRecv, .batchPush]).flatten
    p := p + 1
  match o.status with
  | .returned => pure (sched ++ [.close, .batchDone, .broadcast, .writerSelect, .closeReturn])
  | .hung => pure (sched ++ [.writerSelect, .close, .batchDone, .broadcast, .writerPop])
  | .notCalled => pure sched

/-- Reconstruction for "channel full" observations: a schedule cut into segments, a snapshot of
    the model's state after each segment but the last.

    The publication order is read off the observation: the producers of the delivered events in
    delivery order, then what was never written. `pub` events of it have been published, `mov` of
    them pushed into the buffer, `hand` says whether the batching loop holds the next one.
    A snapshot that says `written = W, buf = b, hand = h, chan = n, acc = a` is reached by
    finishing the batches that make up W, moving b more events into the buffer, h into the hand and
    publishing up to Σa — every step must be enabled in the model (`runStrict`), so calls that
    returned while the channel was full, or more accepted events than channel + hand + buffer +
    written account for, are not reproducible and rejected. -/
structure Recon where
  pub : Nat := 0
  mov : Nat := 0
  hand : Bool := false
  writing : Bool := false
  seg : Array Step := #[]

def Recon.emit (r : Recon) (st : Step) : Recon := { r with seg := r.seg.push st }

/-- Move events into the buffer until `e` of them are there. -/
def Recon.moveTo (order : Array Nat) (e : Nat) (r : Recon) : Recon := Id.run do
  let mut r := r
  for _ in [0:order.size + 1] do
    if r.mov < e then
      if r.hand then
        r := { r.emit .batchPush with hand := false, mov := r.mov + 1 }
      else
        if r.pub == r.mov then
          r := { r.emit (.publish (order.getD r.pub 0)) with pub := r.pub + 1 }
        r := { (r.emit .batchRecv).emit .batchPush with mov := r.mov + 1 }
  return r

def Recon.publishTo (order : Array Nat) (t : Nat) (r : Recon) : Recon := Id.run do
  let mut r := r
  for _ in [0:order.size + 1] do
    if r.pub < t then
      r := { r.emit (.publish (order.getD r.pub 0)) with pub := r.pub + 1 }
  return r

def Recon.toSnap (order : Array Nat) (sn : Snap) (r : Recon) : Recon :=
  let r := r.moveTo order (sn.written + sn.buf)
  let r :=
    if sn.hand ≥ 1 && !r.hand then
      let r := if r.pub == r.mov then { r.emit (.publish (order.getD r.pub 0)) with pub := r.pub + 1 } else r
      { r.emit .batchRecv with hand := true }
    else r
  r.publishTo order sn.acc.sum

/-- Segments (each ends in a snapshot, except the last one) for an observation with snapshots. -/
def segmentsOf (totals : List Nat) (o : Obs) : Option (List (List Step)) := do
  let shape := o.batches.map fun b => b.map (·.1)
  let written := shape.flatten
  -- publication order: delivered, then the never-written rest producer by producer
  let mut order : Array Nat := written.toArray
  let mut p := 0
  for t in totals do
    let w := written.countP (· == p)
    if w > t then none
    order := order ++ (List.replicate (t - w) p).toArray
    p := p + 1
  let mut r : Recon := { seg := bothStarted.toArray }
  let mut segs : Array (List Step) := #[]
  let mut snaps := o.snaps
  let mut done := 0          -- events in the batches processed so far
  for b in shape do
    -- snapshots taken before this batch was handed to the write function
    for sn in snaps do
      if sn.written == done then
        r := r.toSnap order sn
        segs := segs.push r.seg.toList
        r := { r with seg := #[] }
    snaps := snaps.filter (·.written != done)
    if r.writing then r := { r.emit .writeDone with writing := false }
    done := done + b.length
    r := r.moveTo order done
    r := { (r.emit .writerSelect).emit .writerPop with writing := true }
  for sn in snaps do
    if sn.written == done then
      r := r.toSnap order sn
      segs := segs.push r.seg.toList
      r := { r with seg := #[] }
  snaps := snaps.filter (·.written != done)
  if !snaps.isEmpty then none   -- a snapshot in the middle of a batch: not an observation of this harness
  if r.writing then r := { r.emit .writeDone with writing := false }
  r := r.moveTo order order.size
  let tail : List Step := match o.status with
    | .returned => [.close, .batchDone, .broadcast, .writerSelect, .closeReturn]
    | .hung => [.writerSelect, .close, .batchDone, .broadcast, .writerPop]
    | .notCalled => []
  pure (segs.push (r.seg.toList ++ tail)).toList

/-- Run the segments strictly; the model's snapshot after each segment but the last. -/
def runSegments (c : Cfg) (np : Nat) (pendings : List (List Nat)) :
    State → List (List Step) → Array Snap → Option (State × List Snap)
  | s, [], acc => some (s, acc.toList)
  | s, [seg], acc => do
      let s' ← runStrict c s seg
      pure (s', acc.toList)
  | s, seg :: rest, acc => do
      let s' ← runStrict c s seg
      runSegments c np (pendings.drop 1) s' rest (acc.push (snapOf c s' np (pendings.headD [])))

def statusOf (s : State) : String :=
  if s.closeCompleted then "returned"
  else if s.closed && !canProgress codeCfg s && lostWakeup s then "hung"
  else "none"

def printSnap (sn : Snap) : SExp :=
  .list [.atom "snap", .list (.atom "acc" :: sn.acc.map SExp.ofNat), .list [.atom "chan", .ofNat sn.chan],
         .list [.atom "hand", .ofNat sn.hand], .list [.atom "buf", .ofNat sn.buf],
         .list [.atom "written", .ofNat sn.written], .list (.atom "blocked" :: sn.blocked.map SExp.ofNat)]

/-- Whatever can still happen in state `s`, given every chance: all steps but publications, over and
    over (steps that are not enabled are skipped). -/
def fairTail (s : State) : List Step := (List.replicate (3 * s.pubs.length + 8) Step.internal).flatten

/-- The model's at-return snapshot: events handed to the write function when Close() returned and
    the write calls that begin afterwards when everything is given every chance to run. -/
def atReturnOf (c : Cfg) (s : State) : Nat × Nat :=
  if s.closeCompleted then ((delivered s).length, (run c s (fairTail s)).written.length - s.written.length) else (0, 0)

def printModel (c : Cfg) (prods : List Producer) (s : State) : SExp :=
  let ar := atReturnOf c s
  let acc := (List.range prods.length).map fun p => SExp.ofNat (countOf p s.pubs)
  let bs := s.written.map fun b => SExp.list (b.map fun e =>
    let key := match prods[e.1]? with
      | some pr => keyOf pr.kind pr.env pr.task
      | none => 9999
    SExp.list [.ofNat e.1, .ofNat e.2, .ofNat key])
  .list [.list (.atom "accepted" :: acc), .list (.atom "batches" :: bs), .list [.atom "close", .atom (statusOf s)],
         .list [.atom "left", .ofNat (s.chan.length + s.hand.toList.length), .ofNat s.buf.length],
         .list [.atom "inflight", .ofNat (if s.wpc == .writing then 1 else 0)],
         .list [.atom "atreturn", .ofNat ar.1, .ofNat ar.2]]

def lostCount (o : Obs) : Nat := o.accepted.foldl (· + ·) 0 - o.delivered.length

/-- Which excluded hypothesis (known finding) explains a Spec failure, if any. -/
def hypOf (cap : Nat) (prods : List Producer) (o : Obs) : String :=
  if !safeOk codeCfg.batchMax prods o || !handoverOk cap o then "-"
  else if o.status == .returned && o.inflight == 0 && !allDelivered o.accepted o.delivered && o.leftBuf == lostCount o
       && o.leftChan == 0 then
    "close_drops_buffered"
  else if o.status == .hung && allDelivered o.accepted o.delivered && o.leftBuf == 0 && o.leftChan == 0 then
    "close_lost_wakeup"
  else "-"

def stormLine (n ok hung : Nat) : String :=
  -- the two ways "nothing published, Close at some instant" can go in the model
  let okRun := runStrict codeCfg init (bothStarted ++ [.close, .batchDone, .broadcast, .writerSelect, .closeReturn])
  -- … and with Close() called before either worker has been scheduled
  let okRun' := runStrict codeCfg init ([.close] ++ bothStarted ++ [.batchDone, .broadcast, .writerSelect, .closeReturn])
  let hungRun := runStrict codeCfg init (bothStarted ++ [.writerSelect, .close, .batchDone, .broadcast, .writerPop])
  let okPossible := match okRun, okRun' with
    | some s, some s' => s.closeCompleted && s'.closeCompleted
    | _, _ => false
  let hungPossible := match hungRun with
    | some s => statusOf s == "hung"
    | none => false
  let model :=
    if ok + hung == n && (ok == 0 || okPossible) && (hung == 0 || hungPossible) then
      s!"(storm {n} ok {ok} hung {hung})"
    else "REJECT:storm-outcome-not-in-model"
  let spec := hung == 0 && ok == n
  s!"{model}\t{if spec then 1 else 0}\t{if hung > 0 && ok + hung == n then "close_lost_wakeup" else "-"}"


/-! ## the registry stream: `(registry (callers N) (topics T) (rounds R) (relook b) (gate b) (lat us))`

  The registry model (`Registry.run codeCfg`) is run on complete calls, one after the other — the
  calls are atomic for each other (`C19_registry_get_is_atomic`) and every interleaving hands all
  callers of a topic the same writer (`C19_registry_one_writer_per_topic`), so the order does not
  show in the observation.  Per round: every caller of every topic calls createOrGetWriter, with
  relook once more, then one caller calls ClearEventWriters.  What the topic's writer delivers is
  the writer model's answer (`Writer.runStrict codeCfg`) on the schedule rebuilt from the order in
  which the implementation's broker was handed the events, closed by the shutdown.  The broker's
  behaviour (gate, latency) is a parameter the model does not look at. -/

structure RegIn where
  callers : Nat
  topics : Nat
  rounds : Nat
  relook : Bool

def parseRegIn : SExp → Option RegIn
  | .list [.atom "registry", .list [.atom "callers", n], .list [.atom "topics", t], .list [.atom "rounds", r],
           .list [.atom "relook", b], .list [.atom "gate", g], .list [.atom "lat", l]] => do
    let _ ← g.nat?
    let _ ← l.nat?
    pure { callers := (← n.nat?), topics := (← t.nat?), rounds := (← r.nat?), relook := (← b.nat?) != 0 }
  | _ => none

def parseTopicObs : SExp → Option TopicObs
  | .list [.atom "topic", .list (.atom "first" :: f), .list (.atom "again" :: a), .list (.atom "closed" :: c),
           .list (.atom "accepted" :: ac), .list (.atom "delivered" :: d)] => do
    let delivered ← d.mapM? fun
      | .list [p, q] => do pure ((← p.nat?), (← q.nat?))
      | _ => none
    pure { first := (← f.mapM? SExp.nat?), again := (← a.mapM? SExp.nat?), closed := (← c.mapM? SExp.bool?),
           accepted := (← ac.mapM? SExp.nat?), delivered }
  | _ => none

def parseRegObs : SExp → Option (List (List TopicObs))
  | .list (.atom "registry" :: rounds) =>
    rounds.mapM? fun
      | .list (.atom "round" :: ts) => ts.mapM? parseTopicObs
      | _ => none
  | _ => none

/-- Number the writers by first appearance. -/
def renumber (ws : List Nat) : List Nat := Id.run do
  let mut seen : List Nat := []
  let mut out : Array Nat := #[]
  for w in ws do
    match seen.idxOf? w with
    | some i => out := out.push i
    | none => out := out.push seen.length; seen := seen ++ [w]
  return out.toList

def printTopicObs (x : TopicObs × Bool) : SExp :=
  let o := x.1
  .list [.atom "topic", .list (.atom "first" :: o.first.map SExp.ofNat), .list (.atom "again" :: o.again.map SExp.ofNat),
         .list (.atom "closed" :: o.closed.map SExp.ofBool), .list (.atom "accepted" :: o.accepted.map SExp.ofNat),
         if x.2 then .list (.atom "delivered" :: o.delivered.map fun e => SExp.list [.ofNat e.1, .ofNat e.2])
         else .list [.atom "delivered", .atom "REJECT:no-run-of-one-writer-closed-by-the-shutdown-delivers-like-that"]]

/-- What the topic's ONE writer delivers by the time the shutdown's Close has returned, for the
    order in which the implementation's broker got the events; `none`: no run of the writer model
    ends like that (an event accepted and not delivered when Close has returned, a producer's
    events out of order or twice). -/
def topicDelivered (accepted : List Nat) (implDelivered : List Ev) : Option (List Ev) := do
  let o : Obs := { accepted, batches := implDelivered.map fun e => [(e.1, e.2, 0)], status := .returned,
                   leftChan := 0, leftBuf := 0, inflight := 0 }
  let sched ← schedOf accepted o
  let s ← runStrict codeCfg init sched
  if s.closeCompleted then pure (delivered s) else none

/-- The model's observation for the registry stream; the implementation's observation is used
    only for the order of the delivered events per topic. -/
def registryModel (ri : RegIn) (impl : List (List TopicObs)) : List (List (TopicObs × Bool)) := Id.run do
  let mut s : Registry.State := Registry.init
  let mut out : Array (List (TopicObs × Bool)) := #[]
  for r in [0:ri.rounds] do
    let implRound := impl.getD r []
    let topicId := fun (t : Nat) => r * ri.topics + t
    -- first look-ups, then (relook) second look-ups, complete calls one after the other
    let lookups := (List.range ri.topics).flatMap fun t =>
      (List.range ri.callers).flatMap fun c => Registry.getCall (t * ri.callers + c) (topicId t)
    let sched := if ri.relook then lookups ++ lookups else lookups
    let s1 := Registry.run Registry.codeCfg s sched
    let s2 := Registry.run Registry.codeCfg s1 (Registry.clearCall 0)
    let mut row : Array (TopicObs × Bool) := #[]
    for t in [0:ri.topics] do
      let hf := Registry.handedFor s1 (topicId t)
      let ids := renumber hf
      let accepted := List.replicate ri.callers (if ri.relook then 2 else 1)
      let implDelivered := match implRound[t]? with
        | some o => o.delivered
        | none => []
      let d := topicDelivered accepted implDelivered
      row := row.push ({ first := ids.take ri.callers, again := ids.drop ri.callers,
                         closed := (Registry.writersOf s1 (topicId t)).map fun w => s2.closed.contains w,
                         accepted, delivered := d.getD [] }, d.isSome)
    out := out.push row.toList
    s := s2
  return out.toList

def registryLine (inp impl : SExp) : String :=
  match parseRegIn inp, parseRegObs impl with
  | some ri, some o =>
    let spec := SpecReg o
    let model := toString (SExp.list (.atom "registry" :: (registryModel ri o).map
      fun (r : List (TopicObs × Bool)) => SExp.list (.atom "round" :: r.map printTopicObs)))
    s!"{model}\t{if spec then 1 else 0}\t-"
  | none, _ => "BADINPUT\t0\t-"
  | _, none => "REJECT:unparsable-observation\t0\t-"

/-! ## the birth stream: `(birth (procs P) (busy B) (lat us) (gap g) (prods …) (rounds (n0 n1 …) …))`

  Per round a fresh writer: the controller publishes `n_p` events of every producer `p` (producer by
  producer), and calls Close() at once, in the same goroutine, in a process whose scheduler has had
  little or no chance to run the two workers the constructor has just spawned.  The model schedule:
  everything is published, `close`, and only THEN the workers are scheduled for the first time
  (`batchStart`, `writerStart`), move and write what the observation shows, finish, `closeReturn`.
  (Whether the workers really had not run yet cannot be seen from outside; by
  `C19_close_waits_for_both_workers` / `C19_flushed_when_close_returns` the observation is the same
  wherever the start steps stand.) -/

def parseBirthIn : SExp → Option (List Producer × List (List Nat))
  | .list [.atom "birth", .list [.atom "procs", p], .list [.atom "busy", b], .list [.atom "lat", l],
           .list [.atom "gap", g], prodsX, .list (.atom "rounds" :: rs)] => do
    let _ ← p.nat?
    let _ ← b.nat?
    let _ ← l.nat?
    let _ ← g.nat?
    let prods ← parseProds prodsX
    let rounds ← rs.mapM? fun r => do (← r.list?).mapM? SExp.nat?
    if rounds.all (fun r => r.length == prods.length) then pure (prods, rounds) else none
  | _ => none

/-- The model schedule of one round for an observation of this shape. -/
def schedOfBirth (totals : List Nat) (o : Obs) : Option (List Step) := do
  let shape := o.batches.map fun b => b.map (·.1)
  let nWritten := shape.flatten.length
  if nWritten > totals.sum then none
  let pubs : List Step := ((List.range totals.length).map fun p => List.replicate (totals.getD p 0) (Step.publish p)).flatten
  let mut sched : List Step := pubs ++ [.close, .batchStart, .writerStart]
  for b in shape do
    sched := sched ++ moves b.length ++ [.writerSelect, .writerPop, .writeDone]
  sched := sched ++ moves (totals.sum - nWritten)
  match o.status with
  | .returned => pure (sched ++ [.batchDone, .broadcast, .writerSelect, .closeReturn])
  | _ => none

def birthLine (inp impl : SExp) : String :=
  match parseBirthIn inp, impl with
  | some (prods, rounds), .list (.atom "birth" :: obsX) =>
    if obsX.length != rounds.length then "REJECT:one-observation-per-round-expected\t0\t-"
    else
      let rows := (rounds.zip obsX).map fun (totals, ox) =>
        match parseObs ox with
        | some (o, false) =>
          let spec := Spec codeCfg.batchMax codeCfg.cap prods o
          let model : SExp :=
            match schedOfBirth totals o with
            | none => .atom "REJECT:more-written-than-accepted-or-close-did-not-return"
            | some sched =>
              match runStrict codeCfg init sched with
              | none => .atom "REJECT:reconstructed-schedule-not-enabled"
              | some s => printModel codeCfg prods s
          (model, spec)
        | _ => (.atom "REJECT:unparsable-observation", false)
      let model := toString (SExp.list (.atom "birth" :: rows.map (·.1)))
      let spec := rows.all (·.2)
      s!"{model}\t{if spec then 1 else 0}\t-"
  | none, _ => "BADINPUT\t0\t-"
  | _, _ => "REJECT:unparsable-observation\t0\t-"

def processLine (line : String) : String :=
  match SExp.fields line with
  | [inp, impl] =>
    match SExp.parse inp, SExp.parse impl with
    | some (.list (.atom "registry" :: rest)), some implX => registryLine (.list (.atom "registry" :: rest)) implX
    | some (.list (.atom "birth" :: rest)), some implX => birthLine (.list (.atom "birth" :: rest)) implX
    | some (.list [.atom "storm", n]), some (.list [.atom "storm", n', .atom "ok", a, .atom "hung", b]) =>
      match n.nat?, n'.nat?, a.nat?, b.nat? with
      | some n, some n', some a, some b => if n == n' then stormLine n a b else "REJECT:storm-size\t0\t-"
      | _, _, _, _ => "BADINPUT\t0\t-"
    | some (.list (prodsX :: .list (.atom "park" :: _) :: .list (.atom "script" :: ops) :: more)), some implX =>
      -- optional fourth element (cap N): the writer was built with that channel capacity
      let capO : Option Nat := match more with
        | [] => some codeCfg.cap
        | [.list [.atom "cap", n]] => n.nat?
        | _ => none
      match parseProds prodsX, capO with
      | some prods, some cap =>
        let cfg : Cfg := { codeCfg with cap := cap }
        match scriptTotals prods.length ops, parseObs implX, totalsAtSnaps prods.length ops with
        | some totals, some (o, withSnaps), some atSnaps =>
          let spec := Spec cfg.batchMax cfg.cap prods o
          let hyp := if spec then "-" else hypOf cfg.cap prods o
          let model :=
            if !withSnaps then
              match schedOf totals o with
              | none => "REJECT:more-written-than-accepted"
              | some sched =>
                match runStrict cfg init sched with
                | none => "REJECT:reconstructed-schedule-not-enabled"
                | some s => toString (printModel cfg prods s)
            else if atSnaps.length != o.snaps.length then "REJECT:one-snapshot-per-await-blocked-expected"
            else
              -- who has a call outstanding at each snapshot: told to publish more than has returned
              let pendings := (atSnaps.zip o.snaps).map fun (tot, sn) =>
                (List.range prods.length).filter fun p => tot.getD p 0 > sn.acc.getD p 0
              match segmentsOf totals o with
              | none => "REJECT:more-written-than-accepted-or-snapshot-inside-a-batch"
              | some segs =>
                match runSegments cfg prods.length pendings init segs #[] with
                | none => "REJECT:reconstructed-schedule-not-enabled"
                | some (s, sns) =>
                  match printModel cfg prods s with
                  | .list xs => toString (SExp.list (xs ++ [.list (.atom "snaps" :: sns.map printSnap)]))
                  | x => toString x
          s!"{model}\t{if spec then 1 else 0}\t{hyp}"
        | _, _, _ => s!"REJECT:unparsable-observation\t0\t-"
      | _, _ => "BADINPUT\t0\t-"
    | _, _ => "BADINPUT\t0\t-"
  | _ => "BADLINE\t0\t-"

end Driver.C19
