/- Driver for C19 (stub). -/
import ControlModel.Basic

namespace Driver.C19

def processLine (_line : String) : String := "UNIMPLEMENTED\t0\t-"

end Driver.C19
