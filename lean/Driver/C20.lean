/- Driver for C20: line = "input<TAB>implObs"; formats in harness/props/c20/c20.go. -/
import ControlModel.Model.Query
import ControlModel.Spec.C20

namespace Driver.C20
open Query Spec.C20

def str (s : Str) : SExp := .atom (String.ofList s)
def chars? : SExp → Option Str
  | .atom s => some s.toList
  | _ => none

def payloadSx : Payload → SExp
  | .ok s => .list [.atom "ok", str s]
  | .err c => .list [.atom "err", .atom c]
  | .dash => .atom "-"
  | .unmodelled => .list [.atom "unmodelled"]

def payload? : SExp → Option Payload
  | .atom "-" => some .dash
  | .list [.atom "ok", .atom s] => some (.ok s.toList)
  | .list [.atom "err", .atom c] => some (.err c)
  | _ => none

def kvs? (x : SExp) : Option (List (Str × Str)) := do
  (← x.list?).mapM? fun
    | .list [.atom k, .atom v] => some (k.toList, v.toList)
    | _ => none

/-! ## parse cases -/

def modelParse (s : Str) : SExp :=
  let full :=
    match modelFullObs s with
    | .ok q raw path absraw => SExp.list [.atom "ok", str q.component, .ofNat q.runType, str q.role, str q.entry,
        str raw, str path, str absraw, .ofBool (matchFull s).isSome]
    | _ => .list [.atom "err", .atom "bad_key", .ofBool (matchFull s).isSome]
  let ent :=
    match parseEntries s with
    | some (c, n, r) => SExp.list [.atom "ok", str c, .ofNat n, str r, .ofBool (matchEntries s).isSome]
    | none => .list [.atom "err", .atom "bad_key", .ofBool (matchEntries s).isSome]
  let par :=
    match parseParams s with
    | some (b, vars) => SExp.list ([.atom "ok", .ofBool b] ++ vars.map fun kv => .list [str kv.1, str kv.2])
    | none => .list [.atom "err", .ofBool (matchParams s).isSome]
  .list [.list [.atom "full", full], .list [.atom "entries", ent], .list [.atom "params", par]]

def fullObs? : SExp → Option FullObs
  | .list [.atom "ok", .atom c, n, .atom r, .atom e, .atom raw, .atom path, .atom absraw, _] => do
      pure (.ok ⟨c.toList, ← n.nat?, r.toList, e.toList⟩ raw.toList path.toList absraw.toList)
  | .list [.atom "err", .atom "bad_key", _] => some .badKey
  | .list [.atom "err", _, _] => some .other
  | _ => none

def specParse (s : Str) (impl : SExp) : Bool :=
  match impl with
  | .list (.list [.atom "full", f] :: _) =>
    match fullObs? f with
    | some o => parseOk s o
    | none => false
  | _ => false

/-! ## lookup cases -/

def leaves? (x : SExp) : Option (List Leaf) := do
  (← x.list?).mapM? fun
    | .list [.atom key, .atom "val", .atom content] => some ⟨splitOn '/' key.toList, some content.toList⟩
    | .list [.atom key, .atom "dir", _] => some ⟨splitOn '/' key.toList, none⟩
    | _ => none

def query? : SExp → Option Query
  | .list [.atom c, n, .atom r, .atom e] => do pure ⟨c.toList, ← n.nat?, r.toList, e.toList⟩
  | _ => none

def resolvedSx : Resolved → SExp
  | .ok r raw => .list [.atom "ok", str r.component, .ofNat r.runType, str r.role, str r.entry, str raw]
  | .unresolved => .list [.atom "err", .atom "unresolved"]
  | .other => .list [.atom "err", .atom "other"]

/-- prints `Spec.C20.modelLookupObs` — the observation the `C20_model_meets_spec_*` theorems are about -/
def modelLookup (t : List Leaf) (q : Query) (vars : List (Str × Str)) : SExp :=
  let o := modelLookupObs t q vars
  .list [.list (.atom "probes" :: o.probes.map str),
    .list [.atom "resolved", resolvedSx o.resolved],
    .list [.atom "get", payloadSx o.get],
    .list [.atom "getq", payloadSx o.getq],
    .list [.atom "proc", payloadSx o.proc]]

def resolved? : SExp → Option Resolved
  | .list [.atom "ok", .atom c, n, .atom r, .atom e, .atom raw] => do
      pure (.ok ⟨c.toList, ← n.nat?, r.toList, e.toList⟩ raw.toList)
  | .list [.atom "err", .atom "unresolved"] => some .unresolved
  | .list [.atom "err", _] => some .other
  | _ => none

def lookupObs? : SExp → Option LookupObs
  | .list [.list (.atom "probes" :: ps), .list [.atom "resolved", r], .list [.atom "get", g],
           .list [.atom "getq", gq], .list [.atom "proc", p]] => do
      pure ⟨← ps.mapM? chars?, ← resolved? r, ← payload? g, ← payload? gq, ← payload? p⟩
  | _ => none

/-- (spec, hyp) for a lookup case. No class of lookups is excluded: the model is the code as it is (`codeCfg`: values
    substituted as supplied), so an escaped value in a payload is a disagreement AND a spec failure = a plain violation. -/
def specLookup (t : List Leaf) (q : Query) (vars : List (Str × Str)) (impl : SExp) : Bool × String :=
  match lookupObs? impl with
  | none => (false, "-")
  | some o => (lookupOk t q vars o, "-")

/-! ## histories (seq cases) -/

def op? : SExp → Option Op
  | .list [.atom "proc", qx, vx] => do pure (.proc (← query? qx) (← kvs? vx))
  | .list [.atom "rproc", qx, vx] => do pure (.rproc (← query? qx) (← kvs? vx))
  | .list [.atom "get", qx] => do pure (.get (← query? qx))
  | .list [.atom "inval"] => some .inval
  | .list [.atom "put", .atom k, .atom c] => some (.put k.toList c.toList)
  | .list [.atom "del", .atom k] => some (.del k.toList)
  | _ => none

/-- every state of the backend along the history is a tree (no value below or above another entry) -/
def treesOk : List Leaf → List Op → Bool
  | t, [] => prefixFree t
  | t, .put k c :: r => prefixFree t && treesOk (putLeaf t k c) r
  | t, .del k :: r => prefixFree t && treesOk (delLeaf t k) r
  | t, _ :: r => treesOk t r

def obsItemSx : ObsItem → SExp
  | .pay p => payloadSx p
  | .res r p => .list [.atom "r", resolvedSx r, payloadSx p]
  | .dash => .atom "-"

def obsItem? : SExp → Option ObsItem
  | .atom "-" => some .dash
  | .list [.atom "r", r, p] => do pure (.res (← resolved? r) (← payload? p))
  | x => (payload? x).map .pay

/-- (spec, hyp) for a history: the hypotheses of `C20_seq_model_meets_spec_partial` the input violates -/
def specSeq (t : List Leaf) (ops : List Op) (impl : SExp) : Bool × String :=
  match impl.list? >>= fun l => l.mapM? obsItem? with
  | none => (false, "-")
  | some obs =>
    if seqOk t ops obs then (true, "-")
    else if !noStale ops then (false, "stale_template_cache")
    else (false, "-")

/-! ## concurrent requests (conc cases) -/

def req? : SExp → Option Req
  | .list [.atom "res", qx] => do pure (.res (← query? qx))
  | .list [.atom "get", qx] => do pure (.get (← query? qx))
  | .list [.atom "rget", qx] => do pure (.rget (← query? qx))
  | .list [.atom "proc", qx, vx] => do pure (.proc (← query? qx) (← kvs? vx))
  | .list [.atom "rproc", qx, vx] => do pure (.rproc (← query? qx) (← kvs? vx))
  | _ => none

def concObsSx (o : ConcObs) : SExp := .list [obsItemSx o.alone, .list (o.conc.map obsItemSx)]

def concObs? : SExp → Option ConcObs
  | .list [a, .list cs] => do pure ⟨← obsItem? a, ← cs.mapM? obsItem?⟩
  | _ => none

/-- (spec, hyp) for a concurrent case: `C20_conc_model_meets_spec` excludes nothing -/
def specConc (t : List Leaf) (reqs : List Req) (impl : SExp) : Bool × String :=
  match impl.list? >>= fun l => l.mapM? concObs? with
  | none => (false, "-")
  | some obs => (concOk t reqs obs, "-")

def processLine (line : String) : String :=
  match SExp.fields line with
  | [inp, impl] =>
    match SExp.parse inp, SExp.parse impl with
    | some (.list [.atom "parse", .atom s]), some implSx =>
      let model := modelParse s.toList
      let spec := specParse s.toList implSx
      s!"{model}\t{if spec then 1 else 0}\t-"
    | some (.list [.atom "lookup", qx, tx, vx]), some implSx =>
      match query? qx, leaves? tx, kvs? vx with
      | some q, some t, some vars =>
        if !prefixFree t then "BADINPUT-tree\t0\t-"
        else
          let model := modelLookup t q vars
          let (spec, hyp) := specLookup t q vars implSx
          s!"{model}\t{if spec then 1 else 0}\t{hyp}"
      | _, _, _ => "BADINPUT\t0\t-"
    | some (.list [.atom "seq", tx, ox]), some implSx =>
      match leaves? tx, ox.list? >>= fun l => l.mapM? op? with
      | some t, some ops =>
        if !treesOk t ops then "BADINPUT-tree\t0\t-"
        else
          let model := SExp.list ((modelSeqObs t ops).map obsItemSx)
          let (spec, hyp) := specSeq t ops implSx
          s!"{model}\t{if spec then 1 else 0}\t{hyp}"
      | _, _ => "BADINPUT\t0\t-"
    | some (.list [.atom "conc", tx, rx, _rounds]), some implSx =>
      -- the number of rounds only says how hard the harness tries: the model knows no schedule
      match leaves? tx, rx.list? >>= fun l => l.mapM? req? with
      | some t, some reqs =>
        if !prefixFree t then "BADINPUT-tree\t0\t-"
        else
          let model := SExp.list ((modelConcObs t reqs).map concObsSx)
          let (spec, hyp) := specConc t reqs implSx
          s!"{model}\t{if spec then 1 else 0}\t{hyp}"
      | _, _ => "BADINPUT\t0\t-"
    | _, _ => "BADINPUT\t0\t-"
  | _ => "BADLINE\t0\t-"

end Driver.C20
