/- Driver for C20 (stub). -/
import ControlModel.Basic

namespace Driver.C20

def processLine (_line : String) : String := "UNIMPLEMENTED\t0\t-"

end Driver.C20
