/- Shared parsing for the environment-machine drivers (C01 C08 C09 C10). -/
import ControlModel.Model.Env
import ControlModel.Model.CallWays
import ControlModel.Model.TrigExpr
import ControlModel.Spec.EnvTrace

namespace Driver.EnvCommon
open EnvM

def parseMoment (s : String) : Option Moment :=
  if s == "DESTROY" then some .destroy
  else if s == "after_DESTROY" then some .afterDestroy
  else if s.startsWith "before_" then (Ev.parse? (s.drop 7).toString).map .before
  else if s.startsWith "after_" then (Ev.parse? (s.drop 6).toString).map .after
  else if s.startsWith "leave_" then (St.parse? (s.drop 6).toString).map .leave
  else if s.startsWith "enter_" then (St.parse? (s.drop 6).toString).map .enter
  else if s.startsWith "never_" then ((s.drop 6).toString.toNat?).map .never
  else none

/-- One entry of a hook's script: `0` / `1` as ever (`1` = the plugin writes `__call_error`), or the
    name of the way this execution of a call hook fails (Model/CallWays.lean, harness/envh/ways.go). -/
def parseOutcome : SExp → Option Outcome
  | .atom s =>
    match SExp.bool? (.atom s) with
    | some false => some .ok
    | some true => some (.fail .callError)
    | none => (Way.parse? s).map .fail
  | _ => none

/-- A trigW / awaitW field: an integer, or `(w TEXT)` — the weight AS WRITTEN in the template after the trigger
    name (`+010`, `-007`, `-0`, nothing at all, …). The hook's weight is what the expression `name ++ TEXT`
    DECLARES: the documented decimal reading (Model/TrigExpr.lean `parseTriggerExpr`, tied to the code's reader
    by `C08_trigger_text_is_code`). A text that moves the cut (a second sign inside it) names another trigger:
    not an input of this format. -/
def parseWeight (name : String) : SExp → Option Int
  | .list [.atom "w", .atom t] =>
    let r := parseTriggerExpr (name.toList ++ t.toList)
    if r.1 == name.toList then some r.2 else none
  | x => x.int?

def parseKHook : SExp → Option KHook
  | .list [id, .atom kind, crit, .atom tm, tw, .atom am, aw, .list outs] => do
    let os ← outs.mapM? parseOutcome
    -- a named way is for call hooks
    if kind == "task" && os.any (fun o => o != .ok && o != .fail .callError) then none
    pure { id := ← id.nat?, isTask := kind == "task", critical := ← crit.bool?,
           trig := ← parseMoment tm, tw := ← parseWeight tm tw, await := ← parseMoment am, aw := ← parseWeight am aw,
           outcomes := os }
  -- with the call's own `timeout` (ms) and the probe's duration (ms): parsed and dropped — neither has
  -- any effect in the model, as neither has in the core (the result of a call is collected at its await
  -- point whenever the call finishes; the timeout is only handed to the plugin)
  | .list [id, kind, crit, tm, tw, am, aw, outs, timeout, dur] => do
    let _ ← timeout.nat?
    let _ ← dur.nat?
    parseKHook (.list [id, kind, crit, tm, tw, am, aw, outs])
  | _ => none

def parseReq : SExp → Option Req
  | .list [.atom "T", .atom e, b, r] => do pure (.try_ (← Ev.parse? e) (← b.bool?) (← r.bool?))
  | .list [.atom "C", .atom e, b, r] => do pure (.control (← Ev.parse? e) (← b.bool?) (← r.bool?))
  -- TR / CR: the same request with the REAL task-level body of core/environment/transition_*.go (the harness's
  -- fake task manager answers the body's command per `bodyOk`); the model is the same as for T / C — that the
  -- real bodies do nothing else to the state the model speaks about is pinned by `C10_transition_bodies_are_code`
  | .list [.atom "TR", .atom e, b, r] => do pure (.try_ (← Ev.parse? e) (← b.bool?) (← r.bool?))
  | .list [.atom "CR", .atom e, b, r] => do pure (.control (← Ev.parse? e) (← b.bool?) (← r.bool?))
  | .list [.atom "D", f, a, b] => do pure (.teardown (← f.bool?) (← a.bool?) (← b.bool?))
  | _ => none

def parsePReq : SExp → Option PReq
  | .list [.atom "P", a, b] => do pure (.par (← parseReq a) (← parseReq b))
  -- (P q1 q2 holdMs): the same pair, the task phase of q1 lasting holdMs more (`parseHold`)
  | .list [.atom "P", a, b, h] => do let _ ← h.nat?; pure (.par (← parseReq a) (← parseReq b))
  | q => (parseReq q).map .one

/-- how long the first request of a pair is kept in its task phase after the first sighting (ms; 0 = not at all) -/
def parseHold : SExp → Nat
  | .list [.atom "P", _, _, h] => (h.nat?).getD 0
  | _ => 0

/-- a user-supplied workflow variable `(key value)` -/
def parseUVar : SExp → Option (String × String)
  | .list [.atom k, .atom v] => some (k, v)
  | _ => none

structure Input where
  khooks : List KHook        -- as given: the script of a call hook may name the way an execution fails
  preqs : List PReq          -- as given: single requests and overlapping pairs `(P q1 q2)`
  nTasks : Nat
  holds : List Nat := []     -- per entry of `preqs`: the hold of a pair `(P q1 q2 holdMs)`, 0 otherwise
  /-- user-supplied workflow variables of the environment. The model takes none into account: no
      transition of the code consults one (a tree that does shows as a disagreement). -/
  uvars : List (String × String) := []

/-- The hooks as the environment machine sees them: per execution, whether `(*Call).Call()` returns an
    error — by the exit logic of the code as it is (`codeCall`, tied to the source by
    `C09_call_exits_are_code`). For scripts of 0 / 1 this is the script itself. -/
def Input.hooks (i : Input) : List Hook := i.khooks.map (KHook.toHook codeCall)

/-- The requests in the order in which they get the mutex. -/
def Input.reqs (i : Input) : List Req := (i.preqs.map PReq.flat).flatten

def parseInput (s : String) : Option Input :=
  match SExp.parse s with
  | some (.list [.list hs, .list qs, n]) => do
    pure { khooks := ← hs.mapM? parseKHook, preqs := ← qs.mapM? parsePReq, nTasks := ← n.nat?, holds := qs.map parseHold }
  | some (.list [.list hs, .list qs, n, .list vs]) => do
    pure { khooks := ← hs.mapM? parseKHook, preqs := ← qs.mapM? parsePReq, nTasks := ← n.nat?, holds := qs.map parseHold,
           uvars := ← vs.mapM? parseUVar }
  | _ => none

def parseTV : SExp → Option TV
  | .atom "absent" => some .absent
  | .atom "empty" => some .empty
  | .atom s => s.toNat?.map .val
  | _ => none

def parseOptNat : SExp → Option (Option Nat)
  | .atom "absent" => some none
  | .atom "empty" => some none
  | .atom s => s.toNat?.map some
  | _ => none

def parseVars : SExp → Option Vars
  | .list [rn, lrn, a, b, c, d] => do
    pure { rnVar := ← parseOptNat rn, lastRn := ← parseOptNat lrn, sosor := ← parseTV a, eosor := ← parseTV b,
           soeor := ← parseTV c, eoeor := ← parseTV d }
  | _ => none

def parseRes : SExp → Option IRes
  | .list [.atom "ok"] => some .ok
  | .list [.atom "err", .atom cls, .list hs] => do
    let hs ← hs.mapM? fun
      | .list [n, .atom m] => do pure ((← n.nat?), m)
      | _ => none
    pure (.err cls hs)
  | _ => none

def parseIEv : SExp → Option IEv
  | .list [.atom "M", .atom n, .atom f] => some (.mark n (f == "f"))
  | .list [.atom "XS", h, k] => do pure (.xs (← h.nat?) (← k.nat?))
  | .list [.atom "XE", h, k, f, v, .atom st] => do pure (.xe (← h.nat?) (← k.nat?) (← f.bool?) (← parseVars v) st)
  -- an execution that failed in a named way: the name is read by `parseWays` below, the record is the same
  | .list [.atom "XE", h, k, f, v, .atom st, .atom _] => do pure (.xe (← h.nat?) (← k.nat?) (← f.bool?) (← parseVars v) st)
  | .list (.atom "H" :: is) => do
    let is ← is.mapM? fun
      | .list [h, k, f] => do pure ((← h.nat?), (← k.nat?), (← f.bool?))
      | _ => none
    pure (.tasks is)
  | .list [.atom "B", .atom e] => some (.body e)
  | .list [.atom "RE", .atom tr, .atom st, rn, t] => do pure (.runEvent tr st (← rn.nat?) (← t.nat?))
  | .list [.atom "R", res, .atom st, rn, v, .list ps, g] => do
    let ps ← ps.mapM? fun
      | .list [.atom n, w, c] => do pure (n, (← w.int?), (← c.nat?))
      | _ => none
    pure (.reqEnd (← parseRes res) st (← rn.nat?) (← parseVars v) ps (← g.bool?))
  | .list [.atom "Q", n] => do pure (.quiesce (← n.nat?))
  | .list [.atom "OV", .atom how, .atom a, .atom b] => some (.overlap how a b)
  | .list [.atom "OW", .atom first, .atom second, .atom st] => some (.held first second st)
  | .list [.atom "BO", .atom e, n] => do pure (.bodyOverlap e (← n.nat?))
  | _ => none

def parseTrace (s : String) : Option ITrace :=
  match SExp.parse s with
  | some (.list es) => es.mapM? parseIEv
  | _ => none

/-- The way each probe execution of the trace failed: `(hook, k, fails, way)` per XE record, in trace
    order; way `1` when the record names none. -/
def parseWays (s : String) : List (Nat × Nat × Bool × String) :=
  match SExp.parse s with
  | some (.list es) => es.filterMap fun
    | .list [.atom "XE", h, k, f, _, _] => do pure ((← h.nat?), (← k.nat?), (← f.bool?), "1")
    | .list [.atom "XE", h, k, f, _, _, .atom w] => do pure ((← h.nat?), (← k.nat?), (← f.bool?), w)
    | _ => none
  | _ => []

/-- Common line handler: `spec` judges the observed trace (also given as text) for one property and
    names the excluded hypothesis (known finding) the input falls under, if any. -/
def processWithRaw (spec : Input → ITrace → String → Bool × String) (line : String) : String :=
  match SExp.fields line with
  | [inp, impl] =>
    match parseInput inp with
    | none => "BADINPUT\t0\t-"
    | some i =>
      match parseTrace impl with
      | none =>
        -- a panic or an unparsable trace is never accepted
        "REJECT:unparsable-trace\t0\t-"
      | some tr =>
        let verdict := match monitorParH i.hooks i.nTasks i.preqs i.holds tr with
          | none => "ACCEPT"
          | some why => "REJECT:" ++ (why.replace "\t" " ").replace "\n" " "
        let (ok, hyp) := spec i tr impl
        s!"{verdict}\t{if ok then 1 else 0}\t{hyp}"
  | _ => "BADLINE\t0\t-"

def processWith (spec : Input → ITrace → Bool × String) (line : String) : String :=
  processWithRaw (fun i tr _ => spec i tr) line

end Driver.EnvCommon
