/-
  Shared driver code of the ownership properties (C04, C06): input/observation
  parsing for harness/ownh, and the monitor.

  The monitor replays a scenario round by round on `Own.State`. The operations
  of a round were issued concurrently on the real core, so every interleaving of
  their atomic parts (a creation is begin · insert · [claim] · settle, a lost
  executor / agent is the loss followed by the reactions of the watchers,
  everything else is one step) is tried; a round is explained if some interleaving yields
  the observed results and a model view that prints exactly like the observed
  snapshot. Outcomes the code leaves to the scheduler (which siblings of a failed
  launch had reported TASK_RUNNING) are read off the observation and fed to the
  model as oracles.

  `(newd K F A KP)` — a creation and a destroy of the same environment issued while the creation's
  deployment was in flight — is two threads. The creation is cut at the critical sections of the
  environment's transition mutex (`settleDeploy` · `settleConfigure` | `settleGoError` ·
  `settleTeardown` · `settleKill`; their uninterrupted sequence is `createSettle`: theorem
  `C06_settle_pieces`). If the core logged that the teardown waited behind a transition of the
  creation (OV ≠ -), the destroy is `lateAttempt` · [`lateRetry`] — TeardownEnvironment served at
  some later section boundary, on the environment as it is THEN — placed anywhere after DEPLOY; if
  it was not delayed (OV = -) it is an ordinary `destroy` placed anywhere after DEPLOY (in practice:
  after the creation returned).

  A scenario may script KILL calls that FAIL (role outcome `refuse`: the master answers the first KILL
  call naming the task with an error; with mesos-go a failed call also drops the subscription, so
  the KILL calls that follow in the same loop fail at the client — which ones depends on the order
  of the roster, a Go map iteration). Which KILL calls failed in a round is read off the snapshot
  after it (a task of the master's table that is still running, was not sent a KILL and sits
  unowned in the roster) and fed to the model as `State.refusing` before every atomic part of the
  round — only in scenarios that script such a failure at all; everywhere else the model is
  replayed with every KILL call succeeding, as before. What the model then decides is what the
  property is about: the request that issued a failed KILL answers an error, the task is back in
  the roster, the environment is gone all the same.

  `(upd K J STATE OMIT SRC)` — the simulated master sent ONE status update about the task of role J of environment K
  (TASK_RUNNING or a state updateTaskStatus has no case for; lacking the optional fields executor_id / agent_id or not;
  labelled as a reconciliation answer or as an ordinary update) — is the step `Own.Step.statusUpdate` for the latest launch
  of that role that has not ended (nothing if there is none, or if the roster does not hold it). It names no environment for
  the frame clause of Spec.C04: the environment the task belongs to has to be exactly as before.

  Role outcome `nohost` (LAUNCH): while the environment was created the simulated master's OFFER for the role's host carried
  no hostname. In the model that is `SettleOracle.blank` (the hosts of the environment's `nohost` roles): every task of the
  environment placed there is launched, comes up, and cannot be locked — acquireTasks fails in its own tail and the failure
  tail of the creation finds no task of the environment (`Own.acquireUnlocked`). Nothing of it is killed in the round of the
  creation, so whether the core had processed a task's TASK_RUNNING by the time its roster entry is swept (`LaunchOut.active`:
  the sweep sends a KILL only to a task it believes ACTIVE) is read off the LATER snapshots of the scenario (`RoundObs.killedLater`).

  The model replayed is the code as it is (`Own.codeCfg`, the default of `Own.init`):
  it cannot crash at a complete claim, its teardown names the hook tasks of all
  weights, and the oracle of the rendezvous race (`late`, still passed when a call was
  seen to hang) has no say in it — a crashed core or a call that does not return is
  therefore never explained.
-/
import ControlModel.Spec.C04
import ControlModel.Spec.C06

namespace Driver.OwnCommon
open Own

/-! ### input -/

structure RoleIn where
  kind : RoleKind
  cls : Nat := 0
  host : Nat := 0
  launch : String := "ok"
  cfg : String := "ok"
  tr : String := "ok"
  kill : String := "ok"
  weight : Int := 0
  after : Bool := false
  hook : String := "ok"
  deriving Repr, Inhabited

structure EnvIn where
  bad : Bad
  flps : List Nat
  roles : List RoleIn
  deriving Repr, Inhabited

inductive OpIn where
  | new (k : Nat) | ctl (k : Nat) (ev : CEv) | destroy (k : Nat) (f a kp : Bool)
  | cleanup | killenv (k : Nat) | rel (k : Nat)
  | xfail (k j : Nat) (upd : Bool) | afail (k j : Nat) (upd : Bool)
  | newd (k : Nat) (f a kp : Bool)
  | idle (ms : Nat)                 -- the harness let time pass: nothing happens in the model
  | upd (k j : Nat) (u : StatusUpd) -- a status update about the task of role j of environment k, optional fields present or not
  deriving Repr, Inhabited

structure Scenario where
  reuse : Bool
  envs : List EnvIn
  rounds : List (List OpIn)
  deriving Repr, Inhabited

def parseRole : SExp → Option RoleIn
  | .list [.atom "T", c, h, .atom l, .atom cf, .atom tr, .atom kl] => do
    pure { kind := .task, cls := ← c.nat?, host := ← h.nat?, launch := l, cfg := cf, tr := tr, kill := kl }
  | .list [.atom "H", c, h, w, a, .atom l, .atom hk] => do
    pure { kind := .hook, cls := ← c.nat?, host := ← h.nat?, weight := ← w.int?, after := ← a.bool?, launch := l, hook := hk }
  | .list [.atom "P"] => some { kind := .call }
  | _ => none

def parseBad : String → Option Bad
  | "ok" => some .ok | "nowf" => some .nowf | "noclass" => some .noclass | _ => none

def parseEnv : SExp → Option EnvIn
  | .list [.atom b, .list fs, .list rs] => do
    pure { bad := ← parseBad b, flps := ← fs.mapM? SExp.nat?, roles := ← rs.mapM? parseRole }
  | _ => none

def parseEv : String → Option CEv
  | "START" => some .START | "STOP" => some .STOP | "CONFIGURE" => some .CONFIGURE | "RESET" => some .RESET | _ => none

def parseOp : SExp → Option OpIn
  | .list [.atom "new", k] => do pure (.new (← k.nat?))
  | .list [.atom "ctl", k, .atom e] => do pure (.ctl (← k.nat?) (← parseEv e))
  | .list [.atom "destroy", k, f, a, kp] => do pure (.destroy (← k.nat?) (← f.bool?) (← a.bool?) (← kp.bool?))
  | .list [.atom "cleanup"] => some .cleanup
  | .list [.atom "killenv", k] => do pure (.killenv (← k.nat?))
  | .list [.atom "rel", k] => do pure (.rel (← k.nat?))
  | .list [.atom "xfail", k, j, u] => do pure (.xfail (← k.nat?) (← j.nat?) (← u.bool?))
  | .list [.atom "afail", k, j, u] => do pure (.afail (← k.nat?) (← j.nat?) (← u.bool?))
  | .list [.atom "newd", k, f, a, kp] => do pure (.newd (← k.nat?) (← f.bool?) (← a.bool?) (← kp.bool?))
  | .list [.atom "idle", n] => do pure (.idle (← n.nat?))
  -- (upd K J STATE OMIT SRC): STATE RUNNING | STARTING (a state updateTaskStatus has no case for); OMIT = which of the
  -- optional fields agent_id / executor_id the update lacks; SRC recon | plain (how the simulated master labels it: both
  -- reach updateTaskStatus for a roster task)
  | .list [.atom "upd", k, j, .atom st, .atom om, .atom _src] => do
    let running ← (match st with | "RUNNING" => some true | "STARTING" => some false | _ => none)
    let (a, e) ← (match om with
      | "none" => some (true, true) | "exec" => some (true, false) | "agent" => some (false, true) | "both" => some (false, false)
      | _ => none)
    pure (.upd (← k.nat?) (← j.nat?) { running := running, agent := a, executor := e })
  | _ => none

def parseScenario (s : String) : Option Scenario :=
  match SExp.parse s with
  | some (.list [r, .list es, .list rds]) => do
    let rounds ← rds.mapM? fun
      | .list ops => ops.mapM? parseOp
      | _ => none
    pure { reuse := ← r.bool?, envs := ← es.mapM? parseEnv, rounds := rounds }
  | _ => none

def detNames : List String := ["ITS", "TPC", "TST"]
def detOfHost : Nat → Det
  | 1 => 0 | 2 => 0 | 3 => 1 | _ => 2
def detIdx (n : String) : Nat := (detNames.idxOf? n).getD 99
def detName (d : Det) : String := detNames.getD d "?"

def dedup (xs : List Nat) : List Nat := xs.foldl (fun acc x => if x ∈ acc then acc else acc ++ [x]) []

def specOf (e : EnvIn) : EnvSpec :=
  { bad := e.bad, dets := dedup (e.flps.map detOfHost),
    roles := e.roles.map (fun r => { kind := r.kind, cls := r.cls, host := r.host, weight := r.weight, after := r.after }) }

def validHosts : List Nat := [1, 2, 3, 4]

/-! ### observation -/

inductive ResObs where
  | ok | okState (s : String) | okN (n : Nat) | err (c : String) | hang | crash
  | lost (ks : List Nat)        -- xfail / afail: the environments whose watcher was seen to react
  | nd (c d : ResObs) (ov : String)   -- newd: the creation's answer, the destroy's answer, the transition the teardown waited behind (or -)
  deriving DecidableEq, Repr, Inhabited

structure RoundObs where
  results : List ResObs
  snap : Option SExp            -- none = crashed (or wedged)
  hk : List (Nat × Nat × Nat)
  wedged : Bool := false        -- no snapshot: the core's goroutine dump showed the environment manager's mutex deadlocked
  killedLater : List String := []   -- names of the tasks a KILL call named according to this or a LATER snapshot of the scenario
  deriving Repr, Inhabited

partial def parseRes : SExp → Option ResObs
  | .list [.atom "nd", c, d, .atom ov] => do pure (.nd (← parseRes c) (← parseRes d) ov)
  | .list [.atom "ok"] => some .ok
  | .list [.atom "ok", .atom s] => some (match s.toNat? with | some n => .okN n | none => .okState s)
  | .list [.atom "err", .atom c] => some (.err c)
  | .list [.atom "hang"] => some .hang
  | .list [.atom "crash"] => some .crash
  | .list (.atom "lost" :: ks) => (ks.mapM? SExp.nat?).map .lost
  | _ => none

def parseRound : SExp → Option RoundObs
  | .list [.list rs, snap, .list hks] => do
    let hk ← hks.mapM? fun
      | .list [k, j, n] => do pure ((← k.nat?), (← j.nat?), (← n.nat?))
      | _ => none
    let sn := match snap with
      | .atom _ => none
      | x => some x
    let wd := match snap with
      | .atom "wedged" => true
      | _ => false
    pure { results := ← rs.mapM? parseRes, snap := sn, hk := hk, wedged := wd }
  | _ => none

/-- The tasks a KILL call named according to the snapshot. -/
def killedNames (snap : Option SExp) : List String :=
  match snap with
  | some (.list [_, _, _, .list mts, _]) =>
    mts.filterMap (fun
      | .list [.atom m, _, kl] => if (kl.bool?).getD false then some m else none
      | _ => none)
  | _ => []

/-- Every round learns which tasks were named by a KILL call in its own or a later snapshot. -/
def withKilledLater : List RoundObs → List RoundObs
  | [] => []
  | r :: rest =>
    let rest' := withKilledLater rest
    { r with killedLater := killedNames r.snap ++ (match rest' with | r' :: _ => r'.killedLater | [] => []) } :: rest'

def parseObs (s : String) : Option (List RoundObs) :=
  match SExp.parse s with
  | some (.list rs) => (rs.mapM? parseRound).map withKilledLater
  | _ => none

/-! ### names and rendering -/

def sortStr (xs : List (String × SExp)) : List SExp :=
  (xs.mergeSort (fun a b => !(b.1 < a.1))).map (·.2)

def sortAtoms (xs : List String) : List SExp := sortStr (xs.map (fun x => (x, SExp.atom x)))

def sortRows (xs : List SExp) : List SExp := sortStr (xs.map (fun x => (toString x, x)))

/-- Canonical name of a master row: `label.role`, `#n` for the n-th extra launch. -/
def nameAt (ms : List MTask) (i : Nat) : String :=
  match ms[i]? with
  | none => "?"
  | some m =>
    let n := ((ms.take i).filter (fun x => decide (x.label = m.label) && decide (x.role = m.role))).length
    let base := s!"{m.label}.{m.role}"
    if n = 0 then base else s!"{base}#{n}"

def nameOf (s : State) (id : TaskId) : String :=
  match s.master.findIdx? (fun m => decide (m.id = id)) with
  | some i => nameAt s.master i
  | none => "?"

def optEnv : Option EnvId → String
  | none => "-"
  | some e => toString e

def renderView (s : State) : SExp :=
  let envs := s.envs.map (fun E => SExp.list [SExp.ofNat E.id, .atom E.state.name,
    .list (sortAtoms ((dedup E.dets).map detName)), .list (sortAtoms (E.tasks.map (nameOf s)))])
  let roster := s.roster.map (fun t => SExp.list [.atom (nameOf s t.id), .atom (optEnv t.parent), SExp.ofBool t.isLocked,
    .atom (if t.isLocked then t.state.name else "-")])
  let dets := sortAtoms ((dedup s.activeDets).map detName)
  let master := (List.range s.master.length).map (fun i =>
    match s.master[i]? with
    | some m => SExp.list [.atom (nameAt s.master i), .atom m.mesos.name, SExp.ofBool m.killed]
    | none => .list [])
  let calls := ((viewOf s).calls.filter (fun c => decide (c.2.1 > 0))).map (fun c =>
    SExp.list [SExp.ofNat c.1, SExp.ofNat c.2.1, SExp.ofNat c.2.2])
  .list [.list (sortRows envs), .list (sortRows roster), .list dets, .list (sortRows master), .list (sortRows calls)]

/-! ### views of the observation (for the Spec predicates) -/

/-- Task names of the whole observation, numbered. -/
def collectNames (obs : List RoundObs) : List String :=
  obs.foldl (fun acc r =>
    match r.snap with
    | some (.list [_, .list ros, _, .list mts, _]) =>
      (ros ++ mts).foldl (fun a row =>
        match row with
        | .list (.atom n :: _) => if n ∈ a then a else a ++ [n]
        | _ => a) acc
    | _ => acc) []

def keyOf (names : List String) (n : String) : Nat := (names.idxOf? n).getD 9999

def labelOfName (n : String) : Nat := ((n.splitOn ".").headD "").toNat?.getD 9999

def parseEState (s : String) : EState :=
  match s with
  | "STANDBY" => .STANDBY | "DEPLOYED" => .DEPLOYED | "CONFIGURED" => .CONFIGURED
  | "RUNNING" => .RUNNING | "DONE" => .DONE | _ => .ERROR

def parseTState (s : String) : Option TState :=
  match s with
  | "STANDBY" => some .STANDBY | "CONFIGURED" => some .CONFIGURED | "RUNNING" => some .RUNNING
  | "ERROR" => some .ERROR | "DONE" => some .DONE | _ => none

def parseMesos (s : String) : Mesos :=
  match s with
  | "staging" => .staging | "terminal" => .terminal | _ => .running

def atoms (xs : List SExp) : List String := xs.filterMap SExp.str?

/-- The observed snapshot as a `View`. `hung`: environments a call on which was seen to hang. -/
def viewOfSnap (names : List String) (hung : List Nat) : Option SExp → View
  | none => { crashed := true }
  | some (.list [.list es, .list ros, .list ds, .list mts, .list cs]) =>
    { envs := es.filterMap (fun
        | .list [k, .atom st, .list dets, .list ts] =>
          (k.nat?).map (fun k => { env := k, state := parseEState st, dets := (atoms dets).map detIdx,
                                   tasks := (atoms ts).map (keyOf names), tearing := decide (k ∈ hung) })
        | _ => none),
      roster := ros.filterMap (fun
        | .list [.atom n, .atom o, l, .atom st] =>
          some { task := keyOf names n, owner := o.toNat?, locked := (l.bool?).getD false, state := parseTState st }
        | _ => none),
      dets := (atoms ds).map detIdx,
      master := mts.filterMap (fun
        | .list [.atom n, .atom ms, kl] =>
          some { task := keyOf names n, label := labelOfName n, mesos := parseMesos ms, killed := (kl.bool?).getD false }
        | _ => none),
      calls := cs.filterMap (fun
        | .list [k, a, b] => do pure ((← k.nat?), (← a.nat?), (← b.nat?))
        | _ => none) }
  | some _ => { crashed := true }

/-- Was the task called `n` sent a KILL according to this snapshot? -/
def killedInSnap (snap : Option SExp) (n : String) : Bool :=
  match snap with
  | some (.list [_, _, _, .list mts, _]) =>
    mts.any (fun
      | .list [.atom m, _, kl] => m == n && (kl.bool?).getD false
      | _ => false)
  | _ => false

/-! ### the monitor -/

def taskIdOf (s : State) (k j : Nat) : Option TaskId :=
  (s.master.find? (fun m => decide (m.label = k) && decide (m.role = j))).map (·.id)

/-- Scripted failures of transition `ev` among the roles of environment `k`. -/
def trFails (sc : Scenario) (s : State) (k : Nat) (ev : String) : List (TaskId × Bool) :=
  match sc.envs[k]? with
  | none => []
  | some e => (e.roles.zipIdx).filterMap (fun p =>
      if p.1.tr == ev ++ ":stay" then (taskIdOf s k p.2).map (fun t => (t, false))
      else if p.1.tr == ev ++ ":err" then (taskIdOf s k p.2).map (fun t => (t, true))
      else none)

/-- Hook tasks of environment `k` scripted to answer TriggerHook with an error. -/
def hookFailIds (sc : Scenario) (s : State) (k : Nat) : List TaskId :=
  match sc.envs[k]? with
  | none => []
  | some e => (e.roles.zipIdx).filterMap (fun p =>
      if p.1.kind = .hook && p.1.hook == "fail" then taskIdOf s k p.2 else none)

/-- Loss operations issued in the round of the creation of `k`: they hit while the creation is
    inside CONFIGURE (the harness holds it there): host and kind, in the order of the operations. -/
def lostInCreation (sc : Scenario) (ops : List OpIn) (k : Nat) : List (Host × Bool) :=
  let hostOf (j : Nat) : Option Host := ((sc.envs[k]?).bind (fun e => e.roles[j]?)).map (·.host)
  ops.filterMap (fun
    | .xfail k' j _ => if k' = k then (hostOf j).map (fun h => (h, false)) else none
    | .afail k' j _ => if k' = k then (hostOf j).map (fun h => (h, true)) else none
    | _ => none)

def createdHere (ops : List OpIn) (k : Nat) : Bool :=
  ops.any (fun | .new k' => k' == k | _ => false)

/-- The hosts whose OFFER carried no hostname while environment `e` was created (LAUNCH `nohost` of a role placed there). -/
def blankHostsOf (e : EnvIn) : List Nat :=
  dedup ((e.roles.filter (fun r => r.kind != .call && r.launch == "nohost")).map (·.host))

def settleOracle (sc : Scenario) (k : Nat) (ro : RoundObs) (late : Bool) (lost : List (Host × Bool) := []) : SettleOracle :=
  match sc.envs[k]? with
  | none => {}
  | some e =>
    { launches := (e.roles.zipIdx).filterMap (fun p =>
        if p.1.kind = .call then none else
        some (p.2, match p.1.launch with
          | "die" => { mesos := .terminal, active := false }
          | "slow" => { mesos := .staging, active := false }
          -- (a deployment that fails in acquireTasks' lock loop kills nothing in its own round: see `killedLater`)
          | _ => { mesos := .running, active := if (blankHostsOf e).isEmpty then killedInSnap ro.snap s!"{k}.{p.2}"
                                                else ro.killedLater.contains s!"{k}.{p.2}" })),
      blank := blankHostsOf e,
      cfgFails := (e.roles.zipIdx).filterMap (fun p =>
        match p.1.cfg with
        | "stay" => some (p.2, false)
        | "err" => some (p.2, true)
        | _ => none),
      late := late, lost := lost }

/-- What a thread remembers from one of its steps to the next (the creating goroutine between its
    critical sections; a destroy between its two teardown attempts). -/
structure Local where
  mid : Option Mid := none
  skip : Bool := false        -- the remaining steps of the thread have nothing to do

/-- One atomic part of an operation. `en`: whether it can be taken in this state (a request
    waiting for a mutex cannot). A result other than `noop` is the operation's answer. -/
structure SubStep where
  run : Local → State → Local × State × Res
  en : Local → State → Bool := fun _ _ => true

/-- A step that needs no memory and is always enabled. -/
def sub (f : State → State × Res) : SubStep := { run := fun l s => let r := f s; (l, r.1, r.2) }

structure Thread where
  idx : Nat
  steps : List SubStep
  res : Option Res := none
  loc : Local := {}
  want : Option ResObs := none       -- the observed answer this thread has to produce (default: result `idx` of the round)
  lenient : Bool := false            -- the creation of a `newd`: its reply is put together while the destroy may be at work

def liftStep (st : State → Step) : SubStep := sub (fun s => step s (st s))

/-- The task a loss operation names: the latest launch for role `j` of environment `k` that has not ended. -/
def victim (s : State) (k j : Nat) : Option MTask :=
  (s.master.filter (fun m => decide (m.label = k) && decide (m.role = j) && decide (m.mesos ≠ .terminal))).getLast?

/-- Does the scenario script a failing KILL call at all? -/
def hasRefuse (sc : Scenario) : Bool := sc.envs.any (fun e => e.roles.any (fun r => r.kill == "refuse"))

/-- The tasks whose KILL calls failed in this round, by name: still running according to the master, no KILL
    counted for them, and back in the roster without an owner. -/
def refusedNames (ro : RoundObs) : List String :=
  match ro.snap with
  | some (.list [_, .list ros, _, .list mts, _]) =>
    mts.filterMap (fun
      | .list [.atom n, .atom ms, kl] =>
        if ms != "terminal" && !((kl.bool?).getD false) &&
           ros.any (fun
             | .list [.atom n', .atom "-", _, _] => n' == n
             | _ => false)
        then some n else none
      | _ => none)
  | _ => []

/-- `State.refusing` for the names, in the state as it is now (tasks launched meanwhile included). -/
def withRefusing (names : List String) (s : State) : State :=
  { s with refusing := (List.range s.master.length).filterMap (fun i =>
      if names.contains (nameAt s.master i) then (s.master[i]?).map (·.id) else none) }

/-- Does the round release tasks (a destroy, or a creation scripted to fail after deployment)?
    Only then does it matter where a creation's pre-deployment Cleanup falls. -/
def roundReleases (sc : Scenario) (ops : List OpIn) : Bool :=
  ops.any (fun
    | .destroy _ _ _ _ => true
    | .newd _ _ _ _ => true
    | .new k => match sc.envs[k]? with
      | some e => e.roles.any (fun r => r.kind != .call && (r.launch != "ok" || r.cfg != "ok"))
      | none => false
    | _ => false)

def threadOf (sc : Scenario) (ops : List OpIn) (ro : RoundObs) (idx : Nat) (op : OpIn) : Thread :=
  let obsRes := ro.results.getD idx .ok
  let hang := obsRes == .hang
  match op with
  | .new k =>
    let spec := match sc.envs[k]? with
      | some e => specOf e
      | none => { bad := .nowf, dets := [], roles := [] }
    { idx := idx,
      steps := (if roundReleases sc ops
                then [liftStep (fun _ => .createBegin k spec), liftStep (fun _ => .createCleanup k)]
                else [sub (fun s => let a := step s (.createBegin k spec); ((step a.1 (.createCleanup k)).1, a.2))])
        ++ [liftStep (fun _ => .createInsert k)]
        ++ (if sc.reuse then [liftStep (fun _ => .createClaim k)] else [])
        ++ [liftStep (fun _ => .createSettle k (settleOracle sc k ro hang (lostInCreation sc ops k)))] }
  | .ctl k ev =>
    -- concurrent START_ACTIVITY requests race for the run number (compare-and-swap): the loser's transition is cancelled
    -- (seen afterwards: the environment is in ERROR while none of its tasks left CONFIGURED)
    let conc := decide (ro.results.length > 1)
    let untouched := match ro.snap with
      | some (.list [_, .list ros, _, _, _]) =>
        ros.all (fun
          | .list [_, .atom o, _, .atom st] => o != toString k || st == "CONFIGURED"
          | _ => true)
      | _ => false
    { idx := idx, steps := [liftStep (fun s =>
        -- (the loser answers an error since ControlEnvironment reports the error of a failed transition; before: OK with state ERROR)
        .control k ev (trFails sc s k ev.name) (decide (ev = .START) && conc && untouched &&
          (obsRes == .okState "ERROR" || obsRes == .err "failed")))] }
  | .destroy k f a kp =>
    { idx := idx, steps := [liftStep (fun s => .destroy k f a kp
        { stopFails := trFails sc s k "STOP", resetFails := trFails sc s k "RESET", late1 := hang, late2 := hang,
          hookFails := hookFailIds sc s k })] }
  | .cleanup => { idx := idx, steps := [sub (fun s =>
      let r := step s .cleanup
      (r.1, if r.2 = .ok then .okKilled (r.1.killLog.length - s.killLog.length) else r.2))] }
  | .killenv k => { idx := idx, steps := [sub (fun s =>
      let ids := (s.master.filter (fun m => decide (m.label = k))).map (·.id)
      let r := step s (.killIds (if ids = [] then [0] else ids))
      (r.1, if r.2 = .ok then .okKilled (r.1.killLog.length - s.killLog.length) else r.2))] }
  | .rel k => { idx := idx, steps := [liftStep (fun _ => .mesosStart k)] }
  | .xfail k j _ => if createdHere ops k then { idx := idx, steps := [sub (fun s => (s, .ok))] } else lossThread false k j
  | .afail k j _ => if createdHere ops k then { idx := idx, steps := [sub (fun s => (s, .ok))] } else lossThread true k j
  | .newd _ _ _ _ => { idx := idx, steps := [] }     -- two threads: see `threadsOf`
  | .idle _ => { idx := idx, steps := [sub (fun s => (s, .ok))] }
  -- the update names the latest launch for role j of k that has not ended (nothing happens if there is none)
  | .upd k j u => { idx := idx, steps := [sub (fun s => match victim s k j with
      | none => (s, .ok)
      | some m => ((step s (.statusUpdate m.id u)).1, .ok))] }
where
  /-- The executor / agent of the host the victim runs on is lost (nothing happens if there is no
      victim); then the watchers that were seen to react do (which ones are still alive is the
      core's business: read off the observation); then the operation returns. -/
  lossThread (agent : Bool) (k j : Nat) : Thread :=
    let fired := match ro.results.getD idx .ok with
      | .lost ks => ks
      | _ => []
    { idx := idx,
      steps := [sub (fun s => match victim s k j with
                  | none => (s, .noop)
                  | some m => ((step s (if agent then .agentLost m.host else .execLost m.host)).1, .noop))]
        ++ fired.map (fun k' => sub (fun s => ((step s (.watchError k' (trFails sc s k' "STOP"))).1, .noop)))
        ++ [sub (fun s => (s, .ok))] }

/-- The creation half of a `newd`, cut at the critical sections of the transition mutex. -/
def creationPieces (sc : Scenario) (ops : List OpIn) (ro : RoundObs) (k : Nat) (wedge : Bool := false) : List SubStep :=
  let spec := match sc.envs[k]? with
    | some e => specOf e
    | none => { bad := .nowf, dets := [], roles := [] }
  let o := settleOracle sc k ro false (lostInCreation sc ops k)
  [liftStep (fun _ => .createBegin k spec), liftStep (fun _ => .createCleanup k), liftStep (fun _ => .createInsert k)]
    ++ (if sc.reuse then [liftStep (fun _ => .createClaim k)] else [])
    ++ [ -- DEPLOY
         { run := fun l s => if s.crashed then (l, s, .crash) else
             match settleDeploy s k o with
             | (s1, none, r) => ({ l with skip := true }, s1, r)
             | (s1, some m, _) => ({ l with mid := some m }, s1, .noop) },
         -- CONFIGURE (after a successful DEPLOY)
         { run := fun l s => match l.mid with
             | none => (l, s, .noop)
             | some m =>
               if l.skip || m.res ≠ .noop then (l, s, .noop) else
               let c := settleConfigure s m
               if c.2.res = .okState .CONFIGURED then ({ l with skip := true }, c.1, c.2.res) else ({ l with mid := some c.2 }, c.1, .noop) },
         -- GO_ERROR
         { run := fun l s => match l.mid with
             | none => (l, s, .noop)
             | some m => if l.skip then (l, s, .noop) else (l, settleGoError s m, .noop) },
         -- the creation's own forced teardown (`wedge`: it was seen to deadlock with the destroy's on the manager's mutex)
         { run := fun l s => match l.mid with
             | none => (l, s, .noop)
             | some m => if l.skip then (l, s, .noop) else
               if wedge then ({ l with skip := true }, wedgeTeardowns s k, .hang) else
               let r := settleTeardown s m
               if r.2 = .hang then ({ l with skip := true }, r.1, .hang) else (l, r.1, .noop) },
         -- KillTasks, the answer
         { run := fun l s => match l.mid with
             | none => (l, s, .noop)
             | some m => if l.skip then (l, s, .noop) else
               let r := settleKill s m
               (l, r.1, r.2) } ]

/-- A creation cut once, between DEPLOY and what follows it (`settleDeploy` · `settleRest` = `createSettle`): with
    reuseUnlockedTasks two creations of one round may both have earmarked an unlocked task and both commit it in their
    DEPLOY sections (finding reuse_claim_race) — the second commit overwrites the first, and the loser's forced teardown
    then meets a release error. -/
def creationCoarse (sc : Scenario) (ops : List OpIn) (ro : RoundObs) (k : Nat) (hang : Bool) : List SubStep :=
  let spec := match sc.envs[k]? with
    | some e => specOf e
    | none => { bad := .nowf, dets := [], roles := [] }
  let o := settleOracle sc k ro hang (lostInCreation sc ops k)
  [liftStep (fun _ => .createBegin k spec), liftStep (fun _ => .createCleanup k), liftStep (fun _ => .createInsert k),
   liftStep (fun _ => .createClaim k),
   { run := fun l s => if s.crashed then (l, s, .crash) else
       match settleDeploy s k o with
       | (s1, none, r) => ({ l with skip := true }, s1, r)
       | (s1, some m, _) => ({ l with mid := some m }, s1, .noop) },
   { run := fun l s => match l.mid with
       | none => (l, s, .noop)
       | some m => if l.skip then (l, s, .noop) else if s.crashed then (l, s, .crash) else
         let r := settleRest s m
         ({ l with skip := true }, r.1, r.2) }]

/-- The destroy half of a `newd`. It was issued after the environment was seen listed inside a
    transition of its creation (or after the creation returned): never before DEPLOY was entered —
    in the model: not while the creation is still pending. -/
def destroyPieces (sc : Scenario) (k : Nat) (f a kp : Bool) (ov : String) (wedge : Bool := false) : List SubStep :=
  let past : Local → State → Bool := fun _ s => decide (k ∈ s.used) && !(s.creating.any (fun p => decide (p.id = k)))
  let orc : State → DOracle := fun s =>
    { stopFails := trFails sc s k "STOP", resetFails := trFails sc s k "RESET", hookFails := hookFailIds sc s k }
  if ov == "-" then
    -- not delayed by a transition: DestroyEnvironment as ever, its decision tree evaluated where it is served
    [{ en := past, run := fun l s => let r := step s (.destroy k f a kp (orc s)); (l, r.1, r.2) }]
  else
    -- it waited for the transition mutex: doTeardownAndCleanup(force, keepTasks), each TeardownEnvironment served when it gets the mutex
    [{ en := past, run := fun l s => if s.crashed then (l, s, .crash) else
         -- `wedge`: having got the transition mutex, this teardown asked for the manager's write lock while the creation's
         -- own teardown sat between its two read locks (finding teardown_recursive_rlock)
         if wedge then ({ l with skip := true }, wedgeTeardowns s k, .hang) else
         match lateAttempt s k (envTaskIds s k) f kp (orc s) with
         | some r => ({ l with skip := true }, r.1, r.2.1)
         -- the first attempt answered an error and is retried with force — on the state it LEFT (`tac_attempts`): a teardown that
         -- ran to completion and still returned an error (a failing hook at the last weight) has deleted the environment
         | none => (l, (teardown s k f (orc s).late1 (orc s).hookFails).1, .noop) },
     { run := fun l s => if l.skip then (l, s, .noop) else if s.crashed then (l, s, .crash) else
         let r := lateRetry s k (envTaskIds s k) kp (orc s)
         (l, r.1, r.2.1) }]

/-- The threads of one operation. -/
def threadsOf (sc : Scenario) (ops : List OpIn) (ro : RoundObs) (idx : Nat) (op : OpIn) : List Thread :=
  match op with
  | .newd k f a kp =>
    match ro.results.getD idx .ok with
    | .nd c d ov =>
      let wedge := ro.wedged && c == .hang && d == .hang
      [{ idx := idx, steps := creationPieces sc ops ro k wedge, want := some c, lenient := ov != "-" },
       { idx := idx, steps := destroyPieces sc k f a kp ov wedge, want := some d }]
    | _ => [{ idx := idx, steps := [], want := some .hang, res := some .noop }]   -- malformed: never explained
  | .destroy k _ _ _ =>
    -- a destroy that did not return in a round that ended with the manager's mutex deadlocked: its teardown is one of the two
    if ro.wedged && ro.results.getD idx .ok == .hang then
      [{ idx := idx, steps := [{ run := fun l s => (l, wedgeTeardowns s k, .hang) }] }]
    else [threadOf sc ops ro idx op]
  | .new k =>
    if ro.wedged && ro.results.getD idx .ok == .hang then [{ idx := idx, steps := creationPieces sc ops ro k true }]
    -- scripted KILL failures: the creation is replayed cut at its sections (`C06_settle_pieces`: the same function), so
    -- that the tasks DEPLOY launched can be named when the failure tail's KillTasks is reached
    else if hasRefuse sc then [{ idx := idx, steps := creationPieces sc ops ro k }]
    -- reuseUnlockedTasks and another creation in the same round: DEPLOY and what follows it are separate steps
    else if sc.reuse && (ops.filter (fun | .new _ => true | _ => false)).length > 1 then
      [{ idx := idx, steps := creationCoarse sc ops ro k (ro.results.getD idx .ok == .hang) }]
    else [threadOf sc ops ro idx op]
  | _ => [threadOf sc ops ro idx op]

/-- `conc`: the round had several requests. DestroyEnvironment releases and kills in two
    steps, so a concurrent cleanup may be the one that sends the KILLs: the number a cleanup
    reports is compared only when it ran alone. -/
def resMatches (conc : Bool) (o : ResObs) (m : Res) : Bool :=
  match o, m with
  | .ok, .ok => true
  | .okState s, .okState st => s == st.name
  | .okN n, .okKilled k => conc || n == k
  | .err "load", .errLoad => true
  | .err "detector", .errDetector => true
  | .err "deploy", .errDeploy => true
  | .err "configure", .errConfigure => true
  | .err "notfound", .notfound => true
  | .err "failed", .err => true
  | .err "cleanup", .err => true      -- CleanupTasks: "could not kill some tasks"
  | .err "failed", .notfound => true   -- the request found the environment and then lost the race with its deletion
  | .hang, .hang => true
  | .lost _, .ok => true       -- the reactions listed were replayed as steps
  | .crash, _ => true          -- the request died with the process, whatever it had achieved
  | _, _ => false

/-- NewEnvironment puts its reply together after CreateEnvironment returned, without any lock: when a
    destroy was waiting for the creation, a successful creation may be reported with the state the
    teardown has set meanwhile (DONE) or as "cannot get newly created environment" (already deleted). -/
def resMatchesLenient (o : ResObs) (m : Res) : Bool :=
  match o, m with
  | .okState "DONE", .okState _ => true
  | .err "gone", .okState _ => true
  | _, _ => false

/-- All interleavings of the threads' remaining steps; the first accepted final state. -/
partial def explore (check : State → List Thread → Bool) (ths : List Thread) (s : State) : Option State :=
  if ths.all (fun t => t.steps.isEmpty) then (if check s ths then some s else none)
  else
    let rec go (i : Nat) : Option State :=
      if i ≥ ths.length then none else
      match ths[i]? with
      | none => none
      | some t =>
        match t.steps with
        | [] => go (i + 1)
        | st :: rest =>
          if !st.en t.loc s then go (i + 1) else
          let r := st.run t.loc s
          let t' : Thread :=
            if t.res.isSome then { t with steps := rest, loc := r.1 }
            else if r.2.2 = .noop then { t with steps := rest, loc := r.1 }
            else { t with steps := [], loc := r.1, res := some r.2.2 }
          match explore check (ths.set i t') r.2.1 with
          | some s' => some s'
          | none => go (i + 1)
    go 0

/-- Roster entries of dead unowned tasks are not compared: doKillTasks rewrites the roster
    with a read–filter–write that is not atomic, so of two concurrent kill requests (Cleanup,
    KillTasks, the pre-deployment cleanup of a creation, the kill at the end of a destroy) one
    may write back entries the other has just removed; they stay until the next cleanup. -/
def normSnap : SExp → SExp
  | .list [envs, .list ros, dets, .list mts, calls] =>
    let dead := mts.filterMap (fun
      | .list [.atom n, .atom "terminal", _] => some n
      | _ => none)
    .list [envs, .list (ros.filter (fun
      | .list [.atom n, .atom "-", _, _] => !(dead.contains n)
      | _ => true)), dets, .list mts, calls]
  | x => x

structure Replay where
  verdict : Option String := none          -- none = ACCEPT
  states : List State := []                -- model state after every explained round

def checkRound (ro : RoundObs) (s : State) (ths : List Thread) : Bool :=
  let resOk := ths.all (fun t =>
    let o := t.want.getD (ro.results.getD t.idx .ok)
    resMatches (decide (ths.length > 1)) o (t.res.getD .ok) || (t.lenient && resMatchesLenient o (t.res.getD .ok)))
  resOk && (match ro.snap with
    | none => if ro.wedged then !s.crashed else s.crashed
    | some sn => !s.crashed && toString (normSnap (renderView s)) == toString (normSnap sn))

def replay (sc : Scenario) (obs : List RoundObs) : Replay :=
  let rec go (rounds : List (List OpIn)) (obs : List RoundObs) (s : State) (n : Nat) (acc : List State) : Replay :=
    match rounds, obs with
    | _, [] => { states := acc.reverse }
    | [], _ :: _ => { verdict := some "more-rounds-observed-than-scripted", states := acc.reverse }
    | ops :: rounds', ro :: obs' =>
      if ro.results.length ≠ ops.length then { verdict := some s!"round-{n}-result-count", states := acc.reverse } else
      let ths0 := (ops.zipIdx).flatMap (fun p => threadsOf sc ops ro p.2 p.1)
      -- scripted KILL failures: the calls that failed in this round (read off the snapshot) fail in the model too
      let rn := refusedNames ro
      let ths := if hasRefuse sc
        then ths0.map (fun t => { t with steps := t.steps.map (fun st =>
               { st with run := fun l s => st.run l (withRefusing rn s), en := fun l s => st.en l (withRefusing rn s) }) })
        else ths0
      match explore (checkRound ro) ths s with
      | none =>
        -- for the reader of the result file: what the model does when the operations run one after the other
        let seq := ths.foldl (fun (a : State × List String) t =>
          let r := t.steps.foldl (fun (b : Local × State × Option Res) st =>
            if b.2.2.isSome then b else
            let x := st.run b.1 b.2.1
            (x.1, x.2.1, if x.2.2 = .noop then none else some x.2.2)) (t.loc, a.1, none)
          (r.2.1, a.2 ++ [reprStr (r.2.2.getD .ok)])) (s, [])
        let txt := s!"round-{n}-unexplained; sequential model: results {seq.2} view {renderView seq.1}"
        { verdict := some ((txt.replace "\t" " ").replace "\n" " "), states := acc.reverse }
      | some s' => go rounds' obs' s' (n + 1) (s' :: acc)
  go sc.rounds obs (init sc.reuse validHosts) 0 []

/-- Environments named by the operations of a round. -/
def envsOfOps (ops : List OpIn) : List Nat :=
  ops.filterMap (fun
    | .new k => some k | .ctl k _ => some k | .destroy k _ _ _ => some k
    | .killenv k => some k | .rel k => some k | .cleanup => none | .idle _ => none
    -- a status update is not a request on the environment: its frame includes the environment the task belongs to
    | .upd _ _ _ => none
    | .xfail k _ _ => some k | .afail k _ _ => some k | .newd k _ _ _ => some k)

/-- Environments a call on which was seen to hang in this round. -/
def hungOf (ops : List OpIn) (ro : RoundObs) : List Nat :=
  (ops.zipIdx).filterMap (fun p =>
    match p.1, ro.results.getD p.2 .ok with
    | .newd k _ _ _, .nd c d _ => if c == .hang || d == .hang then some k else none
    | op, r =>
      if r == .hang then
        match op with
        | .new k => some k | .ctl k _ => some k | .destroy k _ _ _ => some k | _ => none
      else none)

/-- Rounds paired with their observation, the view before and after, and the hung environments so far. -/
structure RoundCtx where
  ops : List OpIn
  ro : RoundObs
  before : View
  after : View
  hungNow : Bool
  names : List String := []
  wedged : Bool := false

def contexts (sc : Scenario) (obs : List RoundObs) : List RoundCtx :=
  let names := collectNames obs
  let rec go (rounds : List (List OpIn)) (obs : List RoundObs) (before : View) (hung : List Nat) : List RoundCtx :=
    match rounds, obs with
    | ops :: rounds', ro :: obs' =>
      let h := hungOf ops ro
      let hung' := hung ++ h
      -- a wedged core was not asked for a snapshot: the view is the one before, with the hung environments marked
      let after := if ro.wedged then { before with envs := before.envs.map (fun E => { E with tearing := E.tearing || decide (E.env ∈ hung') }) }
                   else viewOfSnap names hung' ro.snap
      { ops := ops, ro := ro, before := before, after := after, hungNow := !h.isEmpty, names := names, wedged := ro.wedged } :: go rounds' obs' after hung'
    | _, _ => []
  go sc.rounds obs {} []

/-- Common line handler. `judge` evaluates a property's Spec on the observation and names the
    excluded hypothesis (known finding) the input falls under, if Spec fails. -/
def processWith (judge : Scenario → List RoundCtx → Bool × String) (line : String) : String :=
  match SExp.fields line with
  | [inp, impl] =>
    match parseScenario inp with
    | none => "BADINPUT\t0\t-"
    | some sc =>
      match parseObs impl with
      | none => "REJECT:unparsable-observation\t0\t-"
      | some obs =>
        let rp := replay sc obs
        let verdict := match rp.verdict with
          | none => "ACCEPT"
          | some why => "REJECT:" ++ why
        let (ok, hyp) := judge sc (contexts sc obs)
        s!"{verdict}\t{if ok then 1 else 0}\t{hyp}"
  | _ => "BADLINE\t0\t-"

end Driver.OwnCommon
