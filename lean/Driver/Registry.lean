/- One line per property driver. Keep sorted. -/
import ControlModel.Basic
import Driver.C11

namespace Driver

def table : List (String × (String → String)) := [
  ("C11", Driver.C11.processLine)
]

def lookup (p : String) : Option (String → String) :=
  (table.find? (fun e => e.1 == p)).map (·.2)

end Driver
