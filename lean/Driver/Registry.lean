/- One line per property driver. -/
import ControlModel.Basic
import Driver.C01
import Driver.C02
import Driver.C03
import Driver.C04
import Driver.C05
import Driver.C06
import Driver.C07
import Driver.C08
import Driver.C09
import Driver.C10
import Driver.C11
import Driver.C12
import Driver.C13
import Driver.C14
import Driver.C15
import Driver.C16
import Driver.C17
import Driver.C18
import Driver.C19
import Driver.C20

namespace Driver

def table : List (String × (String → String)) := [
  ("C01", Driver.C01.processLine),
  ("C02", Driver.C02.processLine),
  ("C03", Driver.C03.processLine),
  ("C04", Driver.C04.processLine),
  ("C05", Driver.C05.processLine),
  ("C06", Driver.C06.processLine),
  ("C07", Driver.C07.processLine),
  ("C08", Driver.C08.processLine),
  ("C09", Driver.C09.processLine),
  ("C10", Driver.C10.processLine),
  ("C11", Driver.C11.processLine),
  ("C12", Driver.C12.processLine),
  ("C13", Driver.C13.processLine),
  ("C14", Driver.C14.processLine),
  ("C15", Driver.C15.processLine),
  ("C16", Driver.C16.processLine),
  ("C17", Driver.C17.processLine),
  ("C18", Driver.C18.processLine),
  ("C19", Driver.C19.processLine),
  ("C20", Driver.C20.processLine)
]

def lookup (p : String) : Option (String → String) :=
  (table.find? (fun e => e.1 == p)).map (·.2)

end Driver
