/-
  Line-protocol driver (compiled `lean_exe`, core-only imports).
  usage: driver <Cxx>      reads one case per line on stdin, answers one line per case.
  Each property module exposes `Driver.Cxx.processLine : String → String`.
-/
import Driver.Registry

partial def loop (h : IO.FS.Stream) (out : IO.FS.Stream) (f : String → String) : IO Unit := do
  let line ← h.getLine
  if line.isEmpty then return ()
  out.putStrLn (f line)
  loop h out f

def main (args : List String) : IO UInt32 := do
  match args with
  | [p] =>
    match Driver.lookup p with
    | some f =>
      let stdin ← IO.getStdin
      let stdout ← IO.getStdout
      loop stdin stdout f
      stdout.flush
      return 0
    | none => IO.eprintln s!"driver: unknown property {p}"; return 2
  | _ => IO.eprintln "usage: driver <Cxx>"; return 2
