#!/bin/sh
# MANIFEST.setup_cmd: build everything from files on disk, offline.
set -e
cd "$(dirname "$0")"
export GOFLAGS=-mod=mod GOPROXY=off GOSUMDB=off GOTOOLCHAIN=local
mkdir -p .work/bin evidence
./harness/build.sh
.work/bin/vh gen lean/ControlModel/Gen
cd lean
python3 ../tools/build_driver.py
# every property file that exists; a failure here is reported by the individual checks
for f in ControlModel/Props/C*.lean; do
  m=$(basename "$f" .lean)
  lake build "ControlModel.Props.$m" || echo "setup: ControlModel.Props.$m did not build"
done
