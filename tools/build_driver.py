#!/usr/bin/env python3
"""Generate Driver/Registry.lean and build the driver (same routine /verif/check uses)."""
import importlib.machinery, importlib.util, os, sys
V = os.path.dirname(os.path.dirname(os.path.abspath(__file__)))
loader = importlib.machinery.SourceFileLoader("check", os.path.join(V, "check"))
spec = importlib.util.spec_from_loader("check", loader)
check = importlib.util.module_from_spec(spec)
loader.exec_module(check)
rc, out = check.build_driver(lambda *a: None)
print(out[-2000:])
sys.exit(rc)
