#!/usr/bin/env python3
"""Print the markdown tables of DESIGN.md §12 (seeded changes) and §13 (defects) from seeded/*/meta.json and known_findings.jsonl."""
import glob, io, json, os, re, sys
V = "/verif"
_out = io.StringIO()
_real_print = print
def print(*a):  # collect
    _real_print(*a, file=_out)
print("### Seeded changes (from seeded/*/meta.json)\n")
print("| seed | file(s) changed | what it needs to manifest | caught by `./check` (quick) | how |")
print("|---|---|---|---|---|")
for d in sorted(glob.glob(V + "/seeded/C*")):
    m = json.load(open(d + "/meta.json"))
    c = m.get("check") or {}
    rp = c.get("replay") or {}
    how = "not caught"
    if m.get("caught"):
        if rp.get("kind") == "failing-input":
            how = "concrete failing input `%s`" % (rp.get("input", "")[:110].replace("|", "\\|"))
        else:
            how = "%s no longer checks (%s), no-failing-input-found" % (rp.get("what_no_longer_checks", "?"), rp.get("category", "?"))
    needs = re.sub(r"\s+", " ", (m.get("needs_to_manifest") or ""))[:230].replace("|", "\\|")
    print("| %s | %s | %s | %s | %s |" % (m["name"], ", ".join(os.path.basename(f) for f in (m.get("files_changed") or [])), needs,
                                       "yes" if m.get("caught") else "NO", how))
print("\n### Defects (from known_findings.jsonl)\n")
print("| property | finding | status | Lean refutation / partial theorem |")
print("|---|---|---|---|")
for l in open(V + "/known_findings.jsonl"):
    if not l.strip() or l.startswith("#"):
        continue
    r = json.loads(l)
    st = r["status"] + ((" " + r.get("commit", "")) if r["status"] == "fixed" else "")
    print("| %s | %s | %s | %s / %s |" % (r["property"], r["id"], st, r.get("lean", "-"), (r.get("partial_theorem", "-") or "-")[:140].replace("|", "\\|")))

text = _out.getvalue()
seed_part, find_part = text.split("### Defects (from known_findings.jsonl)")
seed_part = seed_part.split("\n", 2)[2]
find_part = find_part.lstrip("\n")
if "--write" in sys.argv:
    p = V + "/DESIGN.md"
    d = open(p).read()
    d = re.sub(r"<!-- SEED_TABLE -->.*?<!-- /SEED_TABLE -->", lambda m: "<!-- SEED_TABLE -->\n" + seed_part.strip() + "\n<!-- /SEED_TABLE -->", d, flags=re.S)
    d = re.sub(r"<!-- FINDING_TABLE -->.*?<!-- /FINDING_TABLE -->", lambda m: "<!-- FINDING_TABLE -->\n" + find_part.strip() + "\n<!-- /FINDING_TABLE -->", d, flags=re.S)
    open(p, "w").write(d)
else:
    sys.stdout.write(text)
