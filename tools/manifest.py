#!/usr/bin/env python3
"""Assemble /verif/MANIFEST.json from manifest.d/Cxx.json (one file per claimed property)."""
import glob, json, os
V = os.path.dirname(os.path.dirname(os.path.abspath(__file__)))
props = [json.loads(l) for l in open(os.path.join(V, "properties.jsonl")) if l.strip()]
checks, na = [], []
# only properties listed in manifest.d/CLAIMED are claimed (agents may have written their entry before their slice is integrated)
CLAIMED = set(open(os.path.join(V, "manifest.d", "CLAIMED")).read().split())
for p in props:
    pid = p["id"]
    f = os.path.join(V, "manifest.d", pid + ".json")
    if os.path.exists(f) and pid in CLAIMED:
        c = json.load(open(f))
        if c.get("not_applicable"):
            na.append({"property_id": pid, "reason": c["not_applicable"]})
            continue
        c.setdefault("property_id", pid)
        c.setdefault("quick_cmd", "./check %s --tier quick" % pid)
        c.setdefault("thorough_cmd", "./check %s --tier thorough" % pid)
        c.setdefault("evidence_file", "/verif/evidence/%s.json" % pid)
        c.setdefault("replay_cmd_template", "./check %s --replay {path}" % pid)
        c.setdefault("engine", "lean-proof+correspondence")
        checks.append(c)
    else:
        na.append({"property_id": pid, "reason": "not claimed yet: model, theorems and correspondence harness for this property are not built in this revision (see DESIGN.md §4 for the plan)"})
import subprocess
hooks = {"source_commits": subprocess.run(["git", "-C", "/repo", "log", "--format=%H", "--grep=^verif hook"], capture_output=True, text=True).stdout.split()}
BASE = json.load(open("/root/.vp/BASELINE.json"))["cmd"] if os.path.exists("/root/.vp/BASELINE.json") else ""
m = {
    "version": 1,
    "setup_cmd": "./setup.sh",
    "hooks": {"guard": "verif", "enable": "go build -tags verif (harness/build.sh builds the harness against /repo with the tag on)",
              "baseline_off_cmd": hooks.get("baseline_off_cmd", BASE), "source_commits": hooks.get("source_commits", []), "add_only": True},
    "engines": [
        {"name": "lean-proof+correspondence", "path": "/verif/check", "serves_properties": [c["property_id"] for c in checks],
         "kind_free_text": "Lean 4 theorems about an executable model (lean/ControlModel), tied to /repo on every run by regenerated tables "
                           "(vh gen -> ControlModel/Gen) and a differential correspondence run of the compiled model against the real Go code (harness/)"}],
    "checks": checks,
    "not_applicable": na,
    "notes": "VERIF_SEED seeds every generator (splitmix64). ./check Cxx --tier quick|thorough; VERIF_TIER is honoured too. "
             "known_findings.jsonl lists recorded defects; DESIGN.md explains every level claimed.",
}
json.dump(m, open(os.path.join(V, "MANIFEST.json"), "w"), indent=1)
print("claimed:", [c["property_id"] for c in checks], "not claimed:", [x["property_id"] for x in na])
