#!/usr/bin/env python3
"""tools/mark_fixed.py Cxx finding_id commit — turn an open record of known_findings.jsonl into a fixed one.
(A fixed record suppresses nothing: the check reports the class again if it ever returns.)"""
import json, sys
pid, fid, commit = sys.argv[1:4]
path = "/verif/known_findings.jsonl"
out, hit = [], False
for l in open(path):
    if not l.strip() or l.startswith("#"):
        out.append(l); continue
    r = json.loads(l)
    if r.get("property") == pid and r.get("id") == fid:
        hit = True
        r["status"] = "fixed"; r["commit"] = commit
        if not r["what"].startswith("fixed:"):
            r["what"] = "fixed: property=%s %s %s" % (pid, commit, r["what"])
    out.append(json.dumps(r) + "\n")
assert hit, "no such record"
open(path, "w").writelines(out)
