#!/bin/sh
# tools/rerun_all_seeds.sh [-j N] Cxx...   — re-run every recorded seed of the given properties (sequentially per property,
# N properties in parallel); one summary line per seed in .work/reseed/<name>.out (not registered; dev aid)
J=3
while getopts j: o; do case $o in j) J=$OPTARG;; esac; done
shift $((OPTIND-1))
cd "$(dirname "$0")/.."
mkdir -p .work/reseed
printf '%s\n' "$@" | xargs -P "$J" -I{} sh -c 'for d in seeded/{}-*; do n=$(basename $d); python3 tools/rerun_seed.py $n > .work/reseed/$n.out 2>&1; echo "$n rc=$? $(grep -h "VIOLATION\|does not apply\|does not build" .work/reseed/$n.out | head -1 | cut -c1-160)"; done'
