#!/usr/bin/env python3
"""tools/rerun_seed.py <name> [tier]   e.g. C09-1 — re-run the check against a recorded seeded change
(fresh scratch worktree of /repo HEAD + seeded/<name>/patch.diff), update meta.json (check, caught), remove the worktree."""
import json, os, subprocess, sys, time
name = sys.argv[1]; tier = sys.argv[2] if len(sys.argv) > 2 else "quick"
other = sys.argv[3] if len(sys.argv) > 3 else None   # run ANOTHER property's check against this seed (result printed, meta.json: cross_checks)
d = os.path.join("/verif/seeded", name)
meta = json.load(open(os.path.join(d, "meta.json")))
pid = other or meta["property"]
env = dict(os.environ, GOFLAGS="-mod=mod", GOPROXY="off", GOSUMDB="off", GOTOOLCHAIN="local")
wt = "/tmp/rerun-%s-%d" % (name.lower(), os.getpid())
subprocess.run(["git", "-C", "/repo", "worktree", "add", "-q", wt, "HEAD"], check=True)
try:
    p = subprocess.run(["git", "apply", "--3way", os.path.join(d, "patch.diff")], cwd=wt, capture_output=True, text=True)
    if p.returncode != 0:
        print("patch does not apply to HEAD:", p.stderr[-400:]); sys.exit(2)
    b = subprocess.run("go build ./...", shell=True, cwd=wt, env=env, capture_output=True, text=True)
    if b.returncode != 0:
        print("does not build:", b.stderr[-400:]); sys.exit(2)
    t0 = time.time()
    c = subprocess.run("./check %s --tier %s" % (pid, tier), shell=True, cwd="/verif", env=dict(env, VERIF_REPO=wt),
                       stdout=subprocess.PIPE, stderr=subprocess.STDOUT, text=True)
    lines = [l for l in c.stdout.splitlines() if l.startswith("VIOLATION") or l.startswith(pid + " tier")]
    rec = {"cmd": "VERIF_REPO=<worktree with patch> ./check %s --tier %s" % (pid, tier), "exit": c.returncode, "lines": lines,
           "wall_s": round(time.time() - t0), "verif_commit": subprocess.run(["git", "-C", "/verif", "rev-parse", "--short", "HEAD"], capture_output=True, text=True).stdout.strip()}
    rp = [l.split("replay=")[1].split()[0] for l in lines if "replay=" in l]
    if rp and os.path.exists(rp[0]):
        r = json.load(open(rp[0]))
        rec["replay"] = {k: (v if not isinstance(v, str) else v[:700]) for k, v in r.items() if k in ("kind", "input", "what_no_longer_checks", "note", "category")}
    if other:
        meta.setdefault("cross_checks", {})[other] = rec
    else:
        meta.setdefault("check_history", []).append(meta.get("check"))
        meta["check"] = rec; meta["caught"] = c.returncode == 1
    json.dump(meta, open(os.path.join(d, "meta.json"), "w"), indent=1)
    print(json.dumps({"name": name, "property_checked": pid, "exit": c.returncode, "check": rec}, indent=1))
finally:
    subprocess.run(["git", "-C", "/repo", "worktree", "remove", "--force", wt])
    subprocess.run("flock /verif/.work/build.lock sh -c './harness/build.sh >/dev/null 2>&1; .work/bin/vh gen lean/ControlModel/Gen >/dev/null'", shell=True, cwd="/verif", env=env)
