#!/bin/sh
# tools/run_all.sh [-j N] [-t tier] Cxx...   — run several checks, print one summary line each (not registered; dev aid)
J=4; T=quick
while getopts j:t: o; do case $o in j) J=$OPTARG;; t) T=$OPTARG;; esac; done
shift $((OPTIND-1))
cd "$(dirname "$0")/.."
mkdir -p .work/runall
printf '%s\n' "$@" | xargs -P "$J" -I{} sh -c './check {} --tier '"$T"' > .work/runall/{}.out 2>&1; echo "{} exit=$? $(grep -c "^VIOLATION" .work/runall/{}.out) viol; $(grep "tier=" .work/runall/{}.out | tail -1)"'
