#!/usr/bin/env python3
"""
tools/try_seed.py Cxx /tmp/seed-cxx [name]
Confirms a seeded change independently in a FRESH scratch worktree and runs the check against it:
  1. fresh worktree of /repo HEAD; demo files put in place; demo must PASS
  2. patch applied; `go build ./...` must succeed; demo must FAIL; existing tests of the touched packages must pass
  3. VERIF_REPO=<worktree> ./check Cxx  → exit code and VIOLATION line
  4. everything recorded under /verif/seeded/<name>/ (patch.diff, demo/, meta.json incl. what was run); worktree removed
"""
import json, os, shutil, subprocess, sys, time
pid, src = sys.argv[1], sys.argv[2].rstrip("/")
name = sys.argv[3] if len(sys.argv) > 3 else pid + "-1"
out = os.path.join(src, "seed_out")
meta = json.load(open(os.path.join(out, "meta.json")))
env = dict(os.environ, GOFLAGS="-mod=mod", GOPROXY="off", GOSUMDB="off", GOTOOLCHAIN="local")
wt = "/tmp/try-%s-%d" % (name.lower(), os.getpid())
def sh(cmd, cwd=wt, timeout=3600, e=env):
    p = subprocess.run(cmd, cwd=cwd, shell=True, env=e, stdout=subprocess.PIPE, stderr=subprocess.STDOUT, text=True, timeout=timeout)
    return p.returncode, p.stdout
rec = {"property": pid, "name": name, "summary": meta.get("summary"), "needs_to_manifest": meta.get("needs_to_manifest"),
       "files_changed": meta.get("files_changed"), "demo_cmd": meta.get("demo_cmd"), "ran": []}
subprocess.run(["git", "-C", "/repo", "worktree", "add", "-q", wt, "HEAD"], check=True)
try:
    # demo files: copy everything the agent left untracked in its worktree except seed_out (keeps relative placement)
    rc, o = sh("git status --porcelain --untracked-files=all", cwd=src)
    demo_files = [l[3:] for l in o.splitlines() if l.startswith("?? ") and not l[3:].startswith("seed_out")]
    for f in demo_files:
        os.makedirs(os.path.dirname(os.path.join(wt, f)) or wt, exist_ok=True)
        shutil.copy2(os.path.join(src, f), os.path.join(wt, f))
    rec["demo_files"] = demo_files
    shutil.copytree(out, os.path.join(wt, "seed_out"))   # some demo commands copy from seed_out/demo
    cmd = meta["demo_cmd"]
    rc0, o0 = sh(cmd)
    rec["ran"].append({"what": "demo on unchanged code", "cmd": cmd, "exit": rc0, "tail": o0[-600:]})
    rc, o = sh("git apply " + os.path.join(out, "patch.diff"))
    rec["ran"].append({"what": "git apply patch.diff", "exit": rc, "tail": o[-300:]})
    rcb, ob = sh("go build ./...")
    rec["ran"].append({"what": "go build ./...", "exit": rcb, "tail": ob[-400:]})
    rc1, o1 = sh(cmd)
    rec["ran"].append({"what": "demo with the change", "cmd": cmd, "exit": rc1, "tail": o1[-600:]})
    shutil.rmtree(os.path.join(wt, "seed_out"), ignore_errors=True)
    pk = sorted({"./" + os.path.dirname(f) + "/..." for f in (meta.get("files_changed") or [])})
    # existing tests (demo files moved away first)
    for f in demo_files:
        os.rename(os.path.join(wt, f), os.path.join(wt, f) + ".away")
    rct, ot = sh("go test -count=1 -vet=off " + " ".join(pk)) if pk else (0, "")
    rec["ran"].append({"what": "existing tests of touched packages with the change", "cmd": "go test -count=1 -vet=off " + " ".join(pk), "exit": rct, "tail": ot[-600:]})
    for f in demo_files:
        os.rename(os.path.join(wt, f) + ".away", os.path.join(wt, f))
        os.remove(os.path.join(wt, f))
    confirmed = rc0 == 0 and rc1 != 0 and rcb == 0 and rct == 0
    rec["confirmed"] = confirmed
    t0 = time.time()
    rcc, oc = sh("./check %s --tier quick" % pid, cwd="/verif", e=dict(env, VERIF_REPO=wt))
    lines = [l for l in oc.splitlines() if l.startswith("VIOLATION") or l.startswith(pid + " tier")]
    rec["check"] = {"cmd": "VERIF_REPO=<worktree with patch> ./check %s --tier quick" % pid, "exit": rcc, "lines": lines, "wall_s": round(time.time() - t0)}
    rp = [l.split("replay=")[1].split()[0] for l in lines if "replay=" in l]
    if rp and os.path.exists(rp[0]):
        r = json.load(open(rp[0]))
        rec["check"]["replay"] = {k: (v if not isinstance(v, str) else v[:700]) for k, v in r.items() if k in ("kind", "input", "what_no_longer_checks", "note", "category")}
    rec["caught"] = rcc == 1
finally:
    subprocess.run(["git", "-C", "/repo", "worktree", "remove", "--force", wt])
    # restore generated tables from the real tree
    subprocess.run("flock /verif/.work/build.lock sh -c './harness/build.sh >/dev/null 2>&1; .work/bin/vh gen lean/ControlModel/Gen >/dev/null'", shell=True, cwd="/verif", env=env)
dst = os.path.join("/verif/seeded", name)
os.makedirs(os.path.join(dst, "demo"), exist_ok=True)
shutil.copy2(os.path.join(out, "patch.diff"), os.path.join(dst, "patch.diff"))
for f in rec.get("demo_files", []):
    shutil.copy2(os.path.join(src, f), os.path.join(dst, "demo", os.path.basename(f)))
    rec.setdefault("demo_placement", {})[os.path.basename(f)] = f
json.dump(rec, open(os.path.join(dst, "meta.json"), "w"), indent=1)
print(json.dumps({k: rec.get(k) for k in ("name", "confirmed", "caught", "check")}, indent=1))
